// Package prng is a small deterministic generator (splitmix64) so that case
// lists are identical across Go versions and processes.
package prng

import "vh/dict"

type R struct{ s uint64 }

func New(seed uint64) *R { return &R{s: seed} }

// Derive returns an independent stream keyed by (seed, a, b...).
func Derive(seed uint64, keys ...uint64) *R {
	s := seed ^ 0x9e3779b97f4a7c15
	for _, k := range keys {
		s = mix(s + 0x9e3779b97f4a7c15 + k*0xbf58476d1ce4e5b9)
	}
	return &R{s: s}
}

func mix(z uint64) uint64 {
	z = (z ^ (z >> 30)) * 0xbf58476d1ce4e5b9
	z = (z ^ (z >> 27)) * 0x94d049bb133111eb
	return z ^ (z >> 31)
}

func (r *R) U64() uint64 {
	r.s += 0x9e3779b97f4a7c15
	return mix(r.s)
}

func (r *R) U32() uint32 { return uint32(r.U64() >> 32) }
func (r *R) U16() uint16 { return uint16(r.U64() >> 48) }
func (r *R) U8() uint8   { return uint8(r.U64() >> 56) }

// Intn returns a value in [0,n). n must be > 0.
func (r *R) Intn(n int) int {
	if n <= 0 {
		return 0
	}
	return int(r.U64() % uint64(n))
}

// Range returns a value in [lo,hi].
func (r *R) Range(lo, hi int) int {
	if hi <= lo {
		return lo
	}
	return lo + r.Intn(hi-lo+1)
}

func (r *R) Bool() bool { return r.U64()&1 == 1 }

// Chance returns true with probability num/den.
func (r *R) Chance(num, den int) bool { return r.Intn(den) < num }

func (r *R) Bytes(n int) []byte {
	b := make([]byte, n)
	for i := 0; i < n; i += 8 {
		v := r.U64()
		for j := 0; j < 8 && i+j < n; j++ {
			b[i+j] = byte(v >> (8 * j))
		}
	}
	return b
}

// Bits returns a boundary-biased value of the given bit width (1..64).
func (r *R) Bits(width int) uint64 {
	if width <= 0 {
		return 0
	}
	var max uint64
	if width >= 64 {
		max = ^uint64(0)
	} else {
		max = (uint64(1) << uint(width)) - 1
	}
	switch r.Intn(16) {
	case 14: // the low k bits set: sub-field masks (a 12-bit id in a 16-bit field, a 20-bit label in 32 bits)
		return max >> uint(r.Intn(width))
	case 12: // just below the maximum: where protocols put their reserved values (OFPP_*, OFPG_ALL, OFPTT_ALL, OFPCML_*)
		return (max - uint64(r.Intn(16))) & max
	case 13: // just above zero
		return uint64(r.Intn(16)) & max
	case 0:
		return 0
	case 1:
		return 1 & max
	case 2:
		return max
	case 3:
		return max - 1
	case 4:
		return max >> 1
	case 5:
		return (max >> 1) + 1
	case 6:
		return 0xaaaaaaaaaaaaaaaa & max
	case 7:
		return 0x5555555555555555 & max
	case 8:
		// one bit set
		return (uint64(1) << uint(r.Intn(width))) & max
	case 9: // a constant of the tree under test (or its neighbour): what its code compares fields with
		return fromDict(r.U64(), dict.Ints, max)
	case 10: // a constant the tree has and the pinned baseline has not, when there is one
		if len(dict.NovelInts) > 0 {
			return fromDict(r.U64(), dict.NovelInts, max)
		}
		return r.U64() & max
	default:
		return r.U64() & max
	}
}

// fromDict maps one PRNG draw to a dictionary entry that fits the width (3 in 4) or one of its neighbours; without a
// suitable entry the draw itself is the value, so the stream advances by one draw either way.
func fromDict(u uint64, list []uint64, max uint64) uint64 {
	n := dict.CountLE(list, max)
	if n == 0 {
		return u & max
	}
	v := list[(u>>8)%uint64(n)]
	switch u & 7 {
	case 0:
		return (v + 1) & max
	case 1:
		return (v - 1) & max
	}
	return v
}

// Pick returns one of the given ints.
func (r *R) Pick(v ...int) int { return v[r.Intn(len(v))] }

// Perm returns a permutation of [0,n).
func (r *R) Perm(n int) []int {
	p := make([]int, n)
	for i := range p {
		p[i] = i
	}
	for i := n - 1; i > 0; i-- {
		j := r.Intn(i + 1)
		p[i], p[j] = p[j], p[i]
	}
	return p
}

// Hash64 is FNV-1a 64 over bytes, used for case-distinctness sets.
func Hash64(b []byte) uint64 {
	h := uint64(14695981039346656037)
	for _, c := range b {
		h ^= uint64(c)
		h *= 1099511628211
	}
	return mix(h)
}
