package props

import (
	"bytes"
	"encoding/binary"
	"fmt"
	"runtime"
	"strings"
	"sync"
	"time"

	"github.com/contiv/libOpenflow/util"

	"vh/fw"
	"vh/gen"
	"vh/lib"
	"vh/prng"
	"vh/rec"
	"vh/sched"
)

// C11 — outbound stream: every submitted message is written exactly once, whole and contiguous, and the messages of
// one producer appear in the order it submitted them.

type c11Case struct {
	Producers   int    `json:"producers"`
	PerProducer int    `json:"per_producer"`
	MsgSeed     uint64 `json:"msg_seed"`
	Profile     string `json:"profile"` // small | mixed | large
	Procs       int    `json:"procs"`
	WriteYield  int    `json:"write_yield"`
	WriteSleep  int    `json:"write_sleep_us"` // microseconds, inside every 8th write
	ProdYield   int    `json:"producer_yield"`
	Barrier     bool   `json:"barrier"` // producers start together
	Inbound     int    `json:"inbound"` // echo requests arriving on the same connection while the producers submit (full duplex)
	Virtual     bool   `json:"virtual"` // run in a virtual-time bubble: producers pause IdleSec seconds before every IdleEvery-th submission
	IdleEvery   int    `json:"idle_every"`
	IdleSec     int    `json:"idle_sec"`
}

func init() {
	fw.Register(&fw.Prop{
		ID:          "C11",
		Race:        true,
		VirtualTime: true,
		Rule:        "one real MessageStream per case over a scripted connection that records every Write: 1..64 producer goroutines each submit 1..200 messages with unique transaction ids (producer<<20 | sequence), kinds and sizes from a PRNG keyed by (producer, sequence) - 8-byte echo requests to flow-mods with hundreds of actions and packet-outs with up to 60 KiB of payload - built through the public API; an identical twin of each message is encoded beforehand to obtain the expected bytes. Pacing plans yield/sleep inside Write and between submissions; GOMAXPROCS 1/2/4/16. The concatenated written bytes are re-framed by header length and compared with the expected multiset; per producer the sequence numbers must increase. Decided when the expected byte count has been written or at logical quiescence. Built with the race detector. distinct = hash(case parameters); non-trivial = at least 2 producers and 2 messages each",
		NumCases:    func(tier string, seed uint64) int { return nCases(tier, 900, 60000) },
		Gen:         c11Gen,
		NewCase:     func() any { return new(c11Case) },
		Eval:        c11Eval,
		Minimum: func(a *fw.Agg) error {
			if a.Counters["streams"] < 100 || a.Counters["frames_written"] < 10000 || a.Counters["adjacent_pairs_from_different_producers"] < 1000 {
				return fmt.Errorf("too little observed: streams=%d frames=%d interleaved_pairs=%d", a.Counters["streams"], a.Counters["frames_written"], a.Counters["adjacent_pairs_from_different_producers"])
			}
			return nil
		},
		Assumptions: []string{
			"the expected bytes of a message are the library's own encoding of an identically built twin (C01-C03 judge the encoders themselves)",
			"no write errors are injected: the writer goroutine exits the process on a write error by design of the library",
		},
	})
}

func c11Gen(tier string, seed uint64, i int) any {
	r := prng.Derive(seed, 11, uint64(i))
	c := &c11Case{MsgSeed: r.U64()}
	c.Producers = r.Pick(1, 2, 3, 8, 32, 64, r.Range(2, 16))
	c.PerProducer = r.Pick(1, 2, 10, 40, r.Range(1, 80))
	if c.Producers*c.PerProducer > 700 {
		c.PerProducer = 700 / c.Producers
	}
	if i%29 == 0 {
		c.Producers, c.PerProducer = 3, 200
	}
	c.Profile = []string{"small", "mixed", "mixed", "large"}[r.Intn(4)]
	if c.Profile == "large" && c.Producers*c.PerProducer > 160 {
		c.PerProducer = maxInt(1, 160/c.Producers)
	}
	c.Procs = []int{1, 2, 4, 16}[r.Intn(4)]
	c.WriteYield = r.Pick(0, 0, 1, 4)
	c.WriteSleep = r.Pick(0, 0, 0, 50, 200)
	c.ProdYield = r.Pick(0, 0, 1, 3)
	c.Barrier = r.Bool()
	if i%3 == 1 {
		c.Inbound = r.Pick(10, 100, 300)
	}
	if i%8 == 5 { // a connection that is idle for seconds to days between submissions (virtual time)
		c.Virtual = true
		c.IdleEvery, c.IdleSec = r.Pick(1, 2, 9), r.Pick(1, 11, 31, 61, 601, 3600, 86400)
		if c.Producers*c.PerProducer > 120 {
			c.PerProducer = maxInt(1, 120/c.Producers)
		}
		c.WriteSleep = 0
	}
	return c
}

func c11Recipe(cs *c11Case, p, s int) *rec.Rec {
	r := prng.Derive(cs.MsgSeed, uint64(p), uint64(s))
	var kind string
	big := false
	switch cs.Profile {
	case "small":
		kind = []string{"echo_request", "echo_reply", "barrier_request", "features_request", "set_config", "port_mod", "hello"}[r.Intn(7)]
	case "large":
		kind = []string{"flow_mod", "packet_out", "group_mod", "bundle_add"}[r.Intn(4)]
		big = r.Chance(1, 3)
	default:
		kind = gen.ControllerKinds[r.Intn(len(gen.ControllerKinds))]
		big = r.Chance(1, 40)
	}
	m := gen.ControllerMessage(r, kind, gen.MsgOpt{Big: big})
	if cs.Profile != "small" && r.Chance(1, 12) {
		// the largest frames the 16-bit length can describe: a packet-out of exactly 65535, 65534 or 65528 bytes
		n := r.Pick(65535, 65535, 65534, 65528) - 24
		if r.Bool() { // sizes that are whole multiples of the units a writer might cut a large frame into (MSS, pages, powers of two)
			unit := r.Pick(1460, 1448, 536, 1024, 4096, 8192, 16384, 2048, 1500)
			k := 1 + r.Intn(65535/unit)
			n = unit*k - 24 + r.Pick(0, 0, 0, 1, -1)
			if n < 0 {
				n = 0
			}
			if n+24 > 65535 {
				n = 65535 - 24
			}
		}
		m = rec.New("packet_out").Set("buffer_id", 0xffffffff).Set("in_port", r.Bits(32)).SetB("data", r.Bytes(n))
	}
	xid := uint64(p)<<20 | uint64(s)
	m.Set("xid", xid)
	if in := m.Sub("message"); in != nil { // a bundled message carries its own header
		in.Set("xid", xid)
	}
	return m
}

func c11Eval(c *fw.Ctx, data any) {
	cs := data.(*c11Case)
	if cs.Virtual {
		ran, leak := bubble(func(wait func()) { c11Run(c, cs, wait) })
		if ran {
			c.Count("virtual_time_streams", 1)
			if leak != "" {
				c.Count("virtual_time_streams_leaving_goroutines_behind", 1)
				c.Set("virtual_time_leak_reports", leak)
				if strings.Contains(leak, "all goroutines in bubble are blocked") {
					// the case itself was still waiting (for its producers to get their messages accepted) when
					// nothing in the bubble could run any more and no timer was left to fire
					c.Violation("outbound", "wedge", "deadlock-in-virtual-time", fmt.Sprintf("producers are blocked on the Outbound channel for ever: every goroutine of the stream is blocked and no timer is pending (%s)\ncase: %+v", leak, *cs))
				}
			}
			c.Recycle()
			return
		}
		c.Count("virtual_time_cases_run_in_real_time", 1)
		cp := *cs
		cp.Virtual, cp.IdleEvery, cp.IdleSec = false, 0, 0
		cs = &cp
	}
	c11Run(c, cs, nil)
}

func c11Run(c *fw.Ctx, cs *c11Case, vtWait func()) {
	defer recycleEvery(c, 60)
	old := runtime.GOMAXPROCS(cs.Procs)
	defer runtime.GOMAXPROCS(old)
	P, M := cs.Producers, cs.PerProducer
	c.Distinct(prng.Hash64([]byte(fmt.Sprintf("%+v", *cs))), P >= 2 && M >= 2)

	// build every message twice: the twin gives the expected bytes, the other one is submitted and never touched again
	type item struct {
		msg   util.Message
		want  []byte
		again int  // this many messages later the producer submits the very same object once more (a cached keep-alive)
		skip  bool // part of a batch submitted as one raw buffer by an earlier item
	}
	type keptMsg struct {
		xid  uint32
		msg  util.Message
		want []byte
	}
	var kept []keptMsg // submitted objects looked at again after the stream is done with them
	items := make([][]item, P)
	expected := map[uint32][]byte{}
	expectedCount := map[uint32]int{} // how often each message object is submitted
	total := 0
	for p := 0; p < P; p++ {
		for s := 0; s < M; s++ {
			m := c11Recipe(cs, p, s)
			var it item
			var berr error
			pn, pv, _ := fw.Recover(func() {
				twin, err := lib.BuildMessage(m)
				if err != nil {
					berr = err
					return
				}
				it.want, berr = twin.MarshalBinary()
				if berr != nil {
					return
				}
				it.want = append([]byte(nil), it.want...)
				it.msg, berr = lib.BuildMessage(m)
			})
			if pn || berr != nil || len(it.want) < 8 || len(it.want) > 65535 || int(binary.BigEndian.Uint16(it.want[2:])) != len(it.want) {
				// not a message this property can be judged on (C01's business): replace by an echo request
				_ = pv
				e := rec.New("echo_request").Set("xid", uint64(p)<<20|uint64(s))
				twin, _ := lib.BuildMessage(e)
				it.want, _ = twin.MarshalBinary()
				it.msg, _ = lib.BuildMessage(e)
				c.Count("messages_replaced", 1)
			}
			xid := uint32(p)<<20 | uint32(s)
			rr := prng.Derive(cs.MsgSeed, 4242, uint64(xid))
			if rr.Chance(1, 10) {
				// a pre-encoded frame handed over as a raw buffer (what a relay or a keep-alive cache would submit);
				// the stream has no business with its content, whatever the version byte says
				if rr.Bool() {
					it.want[0] = byte(rr.Pick(1, 5, 6, 0))
				}
				raw := util.NewBuffer(append([]byte(nil), it.want...))
				it.msg = raw
				kept = append(kept, keptMsg{xid: xid, msg: raw, want: it.want})
			} else if rr.Chance(1, 10) {
				kept = append(kept, keptMsg{xid: xid, msg: it.msg, want: it.want})
			}
			if rr.Chance(1, 8) {
				it.again = 1 + rr.Intn(3)
			}
			items[p] = append(items[p], it)
			expected[xid] = it.want
			expectedCount[xid] = 1
			if it.again > 0 {
				expectedCount[xid] = 2
			}
			total += len(it.want) * expectedCount[xid]
		}
	}
	// batches: a run of consecutive messages of one producer handed over as ONE raw buffer holding their encodings
	// back to back (a relay forwarding what it read, a request followed by its barrier); such a buffer may well be
	// larger than one frame can be (65535 bytes). Every frame in it is expected on the wire like any other.
	for p := 0; p < P; p++ {
		rb := prng.Derive(cs.MsgSeed, 777, uint64(p))
		for k := 0; k < len(items[p]); k++ {
			if !rb.Chance(1, 10) || items[p][k].again > 0 {
				continue
			}
			goal := rb.Pick(2, 2, 3, 8, 40)
			minBytes := 0
			if rb.Chance(1, 3) {
				goal, minBytes = 400, 66000+rb.Intn(30000) // until the buffer no longer fits a 16-bit size
			}
			var cat []byte
			j := k
			for j < len(items[p]) && items[p][j].again == 0 && !items[p][j].skip && (j-k < goal) && (minBytes == 0 || len(cat) < minBytes) {
				if _, isRaw := items[p][j].msg.(*util.Buffer); isRaw && j > k {
					break
				}
				cat = append(cat, items[p][j].want...)
				j++
			}
			if j-k < 2 {
				continue
			}
			raw := util.NewBuffer(append([]byte(nil), cat...))
			items[p][k].msg = raw
			for q := k + 1; q < j; q++ {
				items[p][q].skip, items[p][q].msg = true, nil
			}
			kept = append(kept, keptMsg{xid: uint32(p)<<20 | uint32(k), msg: raw, want: cat})
			c.Count("raw_batches", 1)
			c.Max("max_raw_batch_bytes", int64(len(cat)))
			k = j - 1
		}
	}
	// full duplex: frames arrive on the same connection while the producers submit (the two directions share the
	// connection and the stream object; the race detector watches, and the inbound side must not lose anything either)
	var inbound []byte
	wantIn := map[uint64]int{}
	for k := 0; k < cs.Inbound; k++ {
		e := []byte{4, 2, 0, 8, 0x7e, 0, 0, 0}
		binary.BigEndian.PutUint16(e[6:], uint16(k))
		inbound = append(inbound, e...)
		wantIn[sentinelDump(e)] = k
	}
	conn := sched.NewConn(inbound)
	conn.EmptyEvery = []int{0, 4}[cs.Inbound%2]
	for k := 5; k < len(inbound); k += 13 {
		conn.Cuts = append(conn.Cuts, k)
	}
	conn.WriteYield = cs.WriteYield
	if cs.WriteSleep > 0 {
		conn.WriteSleep = time.Duration(cs.WriteSleep) * time.Microsecond
		conn.WriteSleepEvery = 8
	}
	// every other full-duplex stream with a long inbound burst has an application that takes nothing from Inbound
	// until everything submitted was written: sending must not wait for the inbound side to be consumed
	gated := cs.Inbound >= 100 && !cs.Virtual && cs.MsgSeed%2 == 0
	consumerMode := "eager"
	if gated {
		consumerMode = "gated"
	}
	s := startStream(conn, consumerMode, 0, 0)
	if s == nil {
		constructorWedged(c, "outbound")
		return
	}
	s.vtWait = vtWait
	// the exported protocol-version field of the stream, set before anything is submitted
	s.stream.Version = uint8([]int{0, 0, 4, 1, 5, 255}[cs.MsgSeed%6])
	c.Count("streams", 1)
	c.Set("producers", fmt.Sprint(P))
	c.Set("gomaxprocs", fmt.Sprint(cs.Procs))

	var wg sync.WaitGroup
	start := make(chan struct{})
	for p := 0; p < P; p++ {
		wg.Add(1)
		go func(p int) {
			defer wg.Done()
			if cs.Barrier {
				<-start
			}
			type pending struct {
				at  int
				msg util.Message
			}
			var resend []pending
			for k := range items[p] {
				if items[p][k].skip {
					continue
				}
				if cs.Virtual && cs.IdleEvery > 0 && k%cs.IdleEvery == 0 {
					time.Sleep(time.Duration(cs.IdleSec) * time.Second) // virtual: the connection sits idle meanwhile
				}
				s.stream.Outbound <- items[p][k].msg
				if items[p][k].again > 0 {
					resend = append(resend, pending{k + items[p][k].again, items[p][k].msg})
				}
				items[p][k].msg = nil
				for y := 0; y < cs.ProdYield; y++ {
					runtime.Gosched()
				}
				for i := 0; i < len(resend); i++ {
					if resend[i].at <= k {
						s.stream.Outbound <- resend[i].msg // the same object, untouched by the producer in between
						resend = append(resend[:i], resend[i+1:]...)
						i--
					}
				}
			}
			for _, r := range resend {
				s.stream.Outbound <- r.msg
			}
		}(p)
	}
	close(start)
	if gated {
		prodDone := make(chan struct{})
		go func() { wg.Wait(); close(prodDone) }()
		c.Count("duplex_streams_with_unconsumed_inbound_backlog", 1)
		if sched.Quiescent(30 * time.Second) {
			written := 0
			for _, e := range conn.Events() {
				if e.Kind == "write" {
					written += len(e.Data)
				}
			}
			stuck := false
			select {
			case <-prodDone:
			default:
				stuck = true
			}
			if stuck || written < total {
				c.Violation("outbound", "wedge", "sending-waits-for-inbound-consumption", fmt.Sprintf("%d inbound frames are waiting for an application that does not take them yet; every goroutine is parked, but only %d of the %d submitted bytes were written (producers still blocked: %v): sending depends on the inbound side being consumed\ncase: %+v", cs.Inbound, written, total, stuck, *cs))
			}
		}
		close(s.gate)
		<-prodDone
	}
	wg.Wait()
	okQ := s.finish()
	if !okQ {
		c.Inconclusive(fmt.Sprintf("quiescence not reached (wall-clock watchdog): %+v", *cs))
		return
	}
	viol := func(class, locus, detail string) {
		c.Violation("outbound", class, locus, fmt.Sprintf("%s\ncase: %+v", detail, *cs))
	}
	// ---- offline oracle over the recorded writes ----
	var wire []byte
	writes := 0
	for _, e := range conn.Events() {
		if e.Kind == "write" {
			wire = append(wire, e.Data...)
			writes++
		}
	}
	c.Count("write_calls", int64(writes))
	seen := map[uint32]int{}
	lastSeq := map[uint32]int{}
	prevProd := -1
	off := 0
	frames := 0
	for off < len(wire) {
		if len(wire)-off < 8 {
			viol("framing", "trailing-bytes", fmt.Sprintf("%d bytes at offset %d of the written stream are not a whole frame: %x", len(wire)-off, off, wire[off:]))
			break
		}
		l := int(binary.BigEndian.Uint16(wire[off+2:]))
		xid := binary.BigEndian.Uint32(wire[off+4:])
		want, known := expected[xid]
		if l < 8 || off+l > len(wire) {
			viol("framing", "bad-length", fmt.Sprintf("frame at offset %d declares length %d, %d bytes remain (interleaved or truncated write): %s", off, l, len(wire)-off, window(wire, off)))
			break
		}
		got := wire[off : off+l]
		if !known {
			viol("corrupt", "unknown-frame", fmt.Sprintf("frame at offset %d (xid %#x, %d bytes) is not the encoding of any submitted message: %s", off, xid, l, hexHead(got)))
		} else {
			if !bytes.Equal(got, want) {
				d := 0
				for d < len(got) && d < len(want) && got[d] == want[d] {
					d++
				}
				viol("corrupt", "bytes-differ", fmt.Sprintf("message xid %#x: written bytes (%d) differ from its encoding (%d bytes) at offset %d\nwritten:  %s\nexpected: %s", xid, len(got), len(want), d, window(got, d), window(want, d)))
			}
			seen[xid]++
			if seen[xid] == expectedCount[xid]+1 {
				viol("dup", "written-twice", fmt.Sprintf("message xid %#x was submitted %d time(s) and written %d times", xid, expectedCount[xid], seen[xid]))
			}
			p, sq := xid>>20, int(xid&0xfffff)
			if seen[xid] == 1 { // order is judged on first submissions (a re-submission legitimately appears later)
				if ls, ok := lastSeq[p]; ok && sq < ls {
					viol("order", "producer-order", fmt.Sprintf("producer %d: message %d was written after message %d", p, sq, ls))
				}
				lastSeq[p] = sq
			}
			if prevProd >= 0 && int(p) != prevProd {
				c.Count("adjacent_pairs_from_different_producers", 1)
			}
			prevProd = int(p)
		}
		frames++
		off += l
	}
	c.Count("frames_written", int64(frames))
	c.Count("bytes_written", int64(len(wire)))
	missing := 0
	var first uint32
	for xid := range expected {
		if seen[xid] < expectedCount[xid] {
			if missing == 0 || xid < first {
				first = xid
			}
			missing++
		}
	}
	if missing > 0 {
		viol("loss", "never-written", fmt.Sprintf("%d of %d submitted messages never appeared on the connection although every goroutine is parked (first: producer %d message %d); %d of %d expected bytes were written", missing, len(expected), first>>20, first&0xfffff, len(wire), total))
	}
	if len(s.errs) > 0 {
		viol("error", "spurious-error", "an error was published: "+fmtErrs(s.errs))
	}
	// sending must leave the submitted object as it was: its encoding afterwards is the encoding before
	for _, k := range kept {
		var after []byte
		var aerr error
		if pn, pv, _ := fw.Recover(func() { after, aerr = k.msg.MarshalBinary() }); pn || aerr != nil {
			viol("disturbed", "submitted-message-unencodable", fmt.Sprintf("message xid %#x can no longer be encoded after it was sent: %v %v", k.xid, pv, aerr))
		} else if !bytes.Equal(after, k.want) {
			viol("disturbed", "submitted-message-changed", fmt.Sprintf("message xid %#x (%T) encodes differently after it was sent\nbefore: %s\nafter:  %s", k.xid, k.msg, hexHead(k.want), hexHead(after)))
		}
		c.Count("submitted_objects_rechecked", 1)
	}
	if cs.Inbound > 0 {
		got := map[int]int{}
		for _, d := range s.delivered {
			if k, ok := wantIn[d.Dump]; ok && !d.Nil {
				got[k]++
			}
		}
		lost := 0
		for k := 0; k < cs.Inbound; k++ {
			if got[k] != 1 {
				lost++
			}
		}
		c.Count("duplex_streams", 1)
		c.Count("duplex_inbound_frames", int64(cs.Inbound))
		if lost > 0 || len(s.delivered) != cs.Inbound {
			viol("duplex", "inbound-while-sending", fmt.Sprintf("%d echo requests arrived while %d producers were sending; %d were delivered, %d of them missing or duplicated", cs.Inbound, P, len(s.delivered), lost))
		}
	}
	if c.WantSample() && P >= 2 && P <= 3 && M <= 3 {
		var evs []string
		for _, e := range conn.Events() {
			if e.Kind == "write" && len(evs) < 10 {
				evs = append(evs, fmt.Sprintf("t=%d write %d bytes xid=%x", e.T, e.A, e.Data[4:8]))
			}
		}
		c.Sample(map[string]any{"case": cs, "writes": evs})
	}
}
