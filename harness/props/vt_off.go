//go:build !vt

package props

// bubble (see vt_on.go): this build has no virtual time.
func bubble(f func(wait func())) (ran bool, leak string) { return false, "" }

const virtualTimeBuilt = false
