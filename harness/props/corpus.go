package props

import (
	"fmt"
	"regexp"
	"strings"

	of "github.com/contiv/libOpenflow/openflow13"
	"github.com/contiv/libOpenflow/util"

	"vh/fw"
	"vh/gen"
	"vh/lib"
	"vh/prng"
	"vh/rec"
	"vh/spec"
)

// satEvery: one recipe in this many is a saturated one (harness/gen/saturate.go).
const satEvery = 1021

// ctrlRecipe is the i-th controller-originated message recipe of a property's case list.
func ctrlRecipe(salt uint64, tier string, seed uint64, i int) *rec.Rec {
	r := prng.Derive(seed, salt, uint64(i))
	if i%satEvery == satEvery-1 { // a list filled up to the frame limit
		return gen.SaturatedController(r, i/satEvery)
	}
	kind := gen.ControllerKinds[i%len(gen.ControllerKinds)]
	// the structurally rich kinds get more of the list
	if i%3 == 1 {
		kind = []string{"flow_mod", "group_mod", "packet_out", "bundle_add", "mp_request", "flow_mod"}[(i/3)%6]
	}
	return gen.ControllerMessage(r, kind, gen.MsgOpt{Big: i%211 == 7})
}

func nCases(tier string, quick, thorough int) int {
	if tier == "thorough" {
		return thorough
	}
	return quick
}

// kindOf gives the violation-key kind of a message recipe: the message kind, its command variant and what it wraps.
func kindOf(m *rec.Rec) string {
	switch m.K {
	case "flow_mod":
		names := []string{"add", "modify", "modify_strict", "delete", "delete_strict"}
		c := int(m.U("command"))
		if c < len(names) {
			return "flow_mod(" + names[c] + ")"
		}
		return "flow_mod(cmd>4)"
	case "group_mod":
		names := []string{"add", "modify", "delete"}
		c := int(m.U("command"))
		if c < len(names) {
			return "group_mod(" + names[c] + ")"
		}
		return "group_mod(cmd>2)"
	case "bundle_add":
		return kindOf(m.Sub("message")) + "@bundle_add"
	case "mp_request":
		return fmt.Sprintf("mp_request(type=%d)", m.U("type"))
	case "mp_reply":
		return fmt.Sprintf("mp_reply(type=%d)", m.U("type"))
	}
	return m.K
}

// countNested counts nested elements and the maximum nesting depth of a recipe.
func countNested(m *rec.Rec) (elements int, kinds map[string]bool) {
	kinds = map[string]bool{}
	m.Walk(func(r *rec.Rec) {
		if r != m {
			elements++
			kinds[r.K] = true
		}
	})
	return
}

func hashNoXid(m *rec.Rec) uint64 {
	c := m.Clone()
	c.Walk(func(r *rec.Rec) { delete(r.N, "xid") })
	return prng.Hash64(c.JSON())
}

var idxRe = regexp.MustCompile(`\[\d+\]`)

// locusOf turns a diff path (".instructions[1].actions[0].port") into a stable locus with element kinds and no indices.
func locusOf(root *rec.Rec, path string) string {
	if path == "" {
		return "-"
	}
	cur := root
	var out []string
	for _, seg := range strings.Split(strings.TrimPrefix(path, "."), ".") {
		name := seg
		idx := -1
		if i := strings.Index(seg, "["); i >= 0 {
			name = seg[:i]
			fmt.Sscanf(seg[i:], "[%d]", &idx)
		}
		if cur != nil {
			if idx >= 0 {
				l := cur.List(name)
				if idx < len(l) {
					cur = l[idx]
					out = append(out, name+"[]("+elemName(cur)+")")
					continue
				}
				cur = nil
			} else if s := cur.Sub(name); s != nil {
				cur = s
				out = append(out, name+"("+elemName(cur)+")")
				continue
			}
		}
		out = append(out, idxRe.ReplaceAllString(seg, "[]"))
	}
	return strings.Join(out, ".")
}

// elemName is the element kind, and for match fields the field's OVS name.
func elemName(r *rec.Rec) string {
	if r.K == "mf" {
		if ref := spec.OXMByCode(r.U16("class"), r.U8("field")); ref != nil {
			return "mf:" + ref.Name
		}
		return fmt.Sprintf("mf:%#x/%d", r.U16("class"), r.U8("field"))
	}
	return r.K
}

type built struct {
	msg      util.Message
	bytes    []byte
	len0     int
	len1     int
	err      error
	buildErr error
	panicVal string
	panicStk string
	stage    string // "build" | "len" | "encode"
}

// buildEncode constructs the message through the API and encodes it once, recording sizes before and after.
func buildEncode(m *rec.Rec) *built {
	b := &built{}
	b.stage = "build"
	p, v, st := fw.Recover(func() {
		b.msg, b.buildErr = lib.BuildMessage(m)
		if b.buildErr != nil {
			return
		}
		b.stage = "len"
		b.len0 = int(b.msg.Len())
		b.stage = "encode"
		b.bytes, b.err = b.msg.MarshalBinary()
		b.stage = "len"
		b.len1 = int(b.msg.Len())
		b.stage = "done"
	})
	if p {
		b.panicVal, b.panicStk = v, st
	}
	return b
}

// reportBuildProblem reports panics / builder errors common to the corpus monitors; returns true if the case cannot go on.
func reportBuildProblem(c *fw.Ctx, m *rec.Rec, b *built) bool {
	if b.panicVal != "" {
		c.Violation(kindOf(m), "panic", b.stage+":"+fw.LibFrame(b.panicStk), fmt.Sprintf("%s during %s\n%s", b.panicVal, b.stage, fw.TrimStack(b.panicStk)))
		return true
	}
	if b.buildErr != nil {
		c.Violation(kindOf(m), "build-error", "builder", b.buildErr.Error())
		return true
	}
	if b.err != nil {
		c.Violation(kindOf(m), "encode-error", "MarshalBinary", b.err.Error())
		return true
	}
	return false
}

// withBundleProps adds experimenter properties to a bundle-add recipe. Only wire-first checks use it: the library
// has no API to give a property a payload, but its parser accepts them. Lengths are multiples of 8 (the library does
// not skip property padding; unpadded lengths are what both conventions agree on).
func withBundleProps(r *prng.R, m *rec.Rec) *rec.Rec {
	if m == nil || m.K != "bundle_add" || !r.Chance(2, 3) {
		return m
	}
	for n := r.Pick(1, 1, 2, 3); n > 0; n-- {
		body := append(r.Bytes(8), r.Bytes(r.Pick(4, 12, 20, 4))...)
		m.Add("properties", rec.New("bundle_property").Set("type", 0xffff).SetB("body", body))
	}
	return m
}

var errNoiseProps = map[string]bool{"C01": true, "C02": true, "C03": true, "C04": true, "C05": true, "C06": true, "C09": true, "C12": true, "C13": true, "C15": true, "C16": true, "C17": true, "C18": true, "C19": true}

func init() {
	// slices handed to the library by the builders are cut from larger arrays with a canary behind them: a library
	// function that appends to or writes past a caller's slice is reported whatever property is being checked
	fw.BeforeCase = func(c *fw.Ctx) {
		// one case in eight of the single-goroutine checks is preceded by other use of the library that fails
		// (errorNoise): error paths must not leave anything behind that a later, unrelated call picks up
		if errNoiseProps[c.Prop.ID] && (uint32(c.Index)*2246822519>>11)%8 == 0 {
			errorNoise(prng.Derive(c.Seed, 4040, uint64(c.Index)), 3)
			c.Count("cases_preceded_by_failing_library_calls", 1)
		}
		lib.ResetCanaries()
	}
	fw.AfterCase = func(c *fw.Ctx) {
		if msg := lib.CheckCanaries(); msg != "" {
			c.Violation("case", "argument-overwritten", "memory-behind-a-caller-slice", msg)
		}
	}
}

// normKind reduces a violation-key kind to the generator kind it came from: the side prefix, the "@wrapper" suffix and
// the command variants of flow-mod/group-mod are dropped; multipart types are kept.
func normKind(k string) string {
	if i := strings.Index(k, ":"); i >= 0 && (k[:i] == "switch" || k[:i] == "ctrl") {
		k = k[i+1:]
	}
	if i := strings.Index(k, "@"); i >= 0 {
		k = k[:i]
	}
	if strings.HasPrefix(k, "flow_mod(") || strings.HasPrefix(k, "group_mod(") {
		k = k[:strings.Index(k, "(")]
	}
	return k
}

// generatorLabels gives the normalised kind labels of one generated message per generator kind.
func generatorLabels(side string) []string {
	var out []string
	seen := map[string]bool{}
	add := func(m *rec.Rec) {
		if l := normKind(kindOf(m)); !seen[l] {
			seen[l] = true
			out = append(out, l)
		}
	}
	if side == "switch" {
		for i, k := range gen.SwitchKinds {
			add(gen.SwitchMessage(prng.Derive(1, 4242, uint64(i)), k))
		}
		return out
	}
	for i, k := range gen.ControllerKinds {
		if k == "mp_request" { // every multipart request type the generator has
			for j := 0; j < 64; j++ {
				add(gen.ControllerMessage(prng.Derive(1, 4243, uint64(j)), k, gen.MsgOpt{}))
			}
			continue
		}
		add(gen.ControllerMessage(prng.Derive(1, 4242, uint64(i)), k, gen.MsgOpt{}))
	}
	return out
}

// needKinds is the completeness clause of a check's minimum: every generator kind of the given sides must have been
// observed in the named set at least once (a case list that leaves a kind out says nothing about it).
func needKinds(a *fw.Agg, set string, sides ...string) error {
	have := map[string]bool{}
	for m := range a.Sets[set] {
		side := ""
		if i := strings.Index(m, ":"); i >= 0 && (m[:i] == "switch" || m[:i] == "ctrl") {
			side = m[:i]
		}
		have[side+"|"+normKind(m)] = true
		have["|"+normKind(m)] = true
	}
	var missing []string
	for _, s := range sides {
		prefixed := false
		for m := range a.Sets[set] {
			if strings.HasPrefix(m, s+":") {
				prefixed = true
				break
			}
		}
		for _, l := range generatorLabels(s) {
			key := "|" + l
			if prefixed {
				key = s + "|" + l
			}
			if !have[key] {
				missing = append(missing, s+":"+l)
			}
		}
	}
	if len(missing) > 0 {
		return fmt.Errorf("message kinds never observed in %q: %s", set, strings.Join(missing, ", "))
	}
	return nil
}

// retypeInstructions lists the ways the action-list instructions of a built flow-mod (top-level or inside a bundle
// add) can be switched between write-actions, apply-actions and clear-actions after they were filled (an instruction
// value reused as a template): each thunk applies one switch and returns a label.
func retypeInstructions(v util.Message) []func() string {
	fm, _ := v.(*of.FlowMod)
	if ba, ok := v.(*of.BundleAdd); ok {
		fm, _ = ba.Message.(*of.FlowMod)
	}
	if fm == nil {
		return nil
	}
	var out []func() string
	for i, in := range fm.Instructions {
		ia, ok := in.(*of.InstrActions)
		if !ok {
			continue
		}
		for _, t := range []uint16{of.InstrType_WRITE_ACTIONS, of.InstrType_APPLY_ACTIONS, of.InstrType_CLEAR_ACTIONS} {
			i, ia, t := i, ia, t
			out = append(out, func() string {
				from := ia.Type
				ia.Type = t
				return fmt.Sprintf("instruction %d (%d actions) switched from type %d to %d", i, len(ia.Actions), from, t)
			})
		}
	}
	return out
}
