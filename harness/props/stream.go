package props

import (
	"encoding/binary"
	"errors"
	"fmt"
	"io"
	"reflect"
	"runtime"
	"strings"
	"sync"
	"sync/atomic"
	"time"
	"unsafe"

	of "github.com/contiv/libOpenflow/openflow13"
	"github.com/contiv/libOpenflow/util"

	"vh/fw"
	"vh/lib"
	"vh/prng"
	"vh/sched"
)

// Shared machinery for the stream properties (C10, C11, the stream mode of C07): run one real MessageStream over a
// scripted connection, record what crosses its public boundary, wait for logical quiescence.

type yieldParser struct {
	before, after int
	active, max   atomic.Int64
	calls         atomic.Int64
	mu            sync.Mutex
	parsedXids    []uint32 // transaction ids of the frames for which the parser returned a message
}

func (p *yieldParser) Parse(b []byte) (util.Message, error) {
	n := p.active.Add(1)
	for {
		m := p.max.Load()
		if n <= m || p.max.CompareAndSwap(m, n) {
			break
		}
	}
	p.calls.Add(1)
	for i := 0; i < p.before; i++ {
		runtime.Gosched()
	}
	msg, err := of.Parse(b)
	if err == nil && !isNil(msg) && len(b) >= 8 {
		p.mu.Lock()
		p.parsedXids = append(p.parsedXids, binary.BigEndian.Uint32(b[4:8]))
		p.mu.Unlock()
	}
	for i := 0; i < p.after; i++ {
		runtime.Gosched()
	}
	p.active.Add(-1)
	return msg, err
}

type delivery struct {
	T    uint64
	Msg  util.Message
	Nil  bool
	Dump uint64 // hash of the deep dump at delivery
	Text string // the dump itself when short (for reports)
}

type streamRun struct {
	conn                         *sched.Conn
	stream                       *util.MessageStream
	parser                       *yieldParser
	mu                           sync.Mutex
	delivered                    []delivery
	errs                         []error
	errT                         []uint64
	stop                         chan struct{}
	gate                         chan struct{}
	done                         chan struct{}
	consumer                     string
	vtWait                       func()        // inside a virtual-time bubble: blocks until every other goroutine is durably blocked
	stallEvery                   int           // consumer "stall": before taking every stallEvery-th message ...
	stallFor                     time.Duration // ... the application is away for this long (virtual time only)
	pause                        atomic.Int64  // consumer pauses
	quiesced                     bool
	shutdownAfter                int // the application asks for shutdown after this many deliveries (0 = never)
	shutdownSent                 bool
	poolEmpty, poolFull, poolCap int
	poolSeen                     bool
}

func dumpHash(m util.Message) (uint64, string) {
	s := lib.Dump(m)
	t := s
	if len(t) > 400 {
		t = t[:400] + "…"
	}
	return prng.Hash64([]byte(s)), t
}

// startStream creates the stream and its consumer. consumer: eager | slow | bursty.
func startStream(conn *sched.Conn, consumer string, pBefore, pAfter int, shutdownAfter ...int) *streamRun {
	s := &streamRun{conn: conn, parser: &yieldParser{before: pBefore, after: pAfter}, stop: make(chan struct{}), done: make(chan struct{}), gate: make(chan struct{}), consumer: consumer}
	if len(shutdownAfter) > 0 {
		s.shutdownAfter = shutdownAfter[0]
	}
	if len(shutdownAfter) > 2 { // consumer "stall": every shutdownAfter[1]-th message is preceded by shutdownAfter[2] seconds away
		s.stallEvery, s.stallFor = shutdownAfter[1], time.Duration(shutdownAfter[2])*time.Second
	}
	// the constructor runs in a goroutine of its own: should it never return (every goroutine parked, the logical clock
	// still), that is a verdict of its own and the caller gets nil
	made := make(chan *util.MessageStream, 1)
	go func() { made <- util.NewMessageStream(conn, s.parser) }()
	streak := 0
	for s.stream == nil {
		select {
		case s.stream = <-made:
		default:
			runtime.Gosched()
			time.Sleep(200 * time.Microsecond)
			if p, _ := sched.AllParked(); p {
				streak++
			} else {
				streak = 0
			}
			if streak >= 200 { // 200 consecutive samples with nothing runnable
				select {
				case s.stream = <-made:
				default:
					return nil
				}
			}
		}
	}
	go s.consume()
	return s
}

// constructorWedged reports the verdict for a stream whose constructor never returned.
func constructorWedged(c *fw.Ctx, kind string) {
	c.Violation(kind, "wedge", "stream-constructor", "util.NewMessageStream did not return: every goroutine of the process is parked and nothing can wake it (deadlock while setting the stream up)")
	c.Recycle()
}

func (s *streamRun) consume() {
	defer close(s.done)
	n := 0
	if s.consumer == "gated" { // the application takes nothing from Inbound until the gate opens
		select {
		case <-s.gate:
		case <-s.stop:
			return
		}
	}
	for {
		select {
		case msg := <-s.stream.Inbound:
			t := sched.Tick()
			d := delivery{T: t, Msg: msg, Nil: isNil(msg)}
			if !d.Nil {
				d.Dump, d.Text = dumpHash(msg)
			}
			s.mu.Lock()
			s.delivered = append(s.delivered, d)
			s.mu.Unlock()
			n++
			if s.shutdownAfter > 0 && n == s.shutdownAfter && !s.shutdownSent {
				s.shutdownSent = true
				select {
				case s.stream.Shutdown <- true:
				default:
				}
			}
			switch s.consumer {
			case "stall":
				if s.stallEvery > 0 && n%s.stallEvery == 0 {
					s.pause.Add(1)
					time.Sleep(s.stallFor)
				}
			case "slow":
				for i := 0; i < 20; i++ {
					runtime.Gosched()
				}
				if n%16 == 0 {
					time.Sleep(100 * time.Microsecond)
				}
			case "bursty":
				if n%60 == 1 { // let the pool fill up behind a stalled consumer
					s.pause.Add(1)
					time.Sleep(3 * time.Millisecond)
				}
			}
		case err := <-s.stream.Error:
			t := sched.Tick()
			s.mu.Lock()
			s.errs = append(s.errs, err)
			s.errT = append(s.errT, t)
			s.mu.Unlock()
		case <-s.stop:
			return
		}
	}
}

func (s *streamRun) count() int {
	s.mu.Lock()
	defer s.mu.Unlock()
	return len(s.delivered)
}

// pool reads len/cap of the stream's buffer pool channels by reflection (inconclusive if the layout changed).
func (s *streamRun) readPool() {
	v, ok := lib.Priv(s.stream, "pool")
	if !ok || v.Kind() != reflect.Ptr || v.IsNil() {
		return
	}
	e, f := v.Elem().FieldByName("Empty"), v.Elem().FieldByName("Full")
	if !e.IsValid() || !f.IsValid() || e.Kind() != reflect.Chan || f.Kind() != reflect.Chan {
		return
	}
	s.poolEmpty, s.poolFull, s.poolCap, s.poolSeen = e.Len(), f.Len(), e.Cap(), true
}

var _ = unsafe.Pointer(nil)

// finish waits for quiescence, samples the pool, shuts the stream down through its public API, drains, and stops
// the consumer. Returns false if quiescence was not reached (inconclusive).
func (s *streamRun) finish() bool {
	if s.vtWait != nil {
		// virtual time: after this sleep every stall is over and every timer that was ever armed has fired
		time.Sleep(1000000 * time.Hour)
		s.vtWait()
		s.quiesced = true
		s.readPool()
		if !s.conn.IsClosed() {
			select {
			case s.stream.Shutdown <- true:
			default:
			}
		}
		time.Sleep(24 * time.Hour)
		s.vtWait()
		close(s.stop)
		<-s.done
		return true
	}
	s.quiesced = sched.Quiescent(30 * time.Second)
	if s.quiesced {
		s.readPool()
	}
	if !s.conn.IsClosed() {
		select {
		case s.stream.Shutdown <- true:
		default:
		}
	}
	q2 := sched.Quiescent(30 * time.Second)
	close(s.stop)
	<-s.done
	return s.quiesced && q2
}

var errReset = errors.New("read tcp 10.0.0.1:6653->10.0.0.2:41000: read: connection reset by peer")

func failErrOf(name string) error {
	switch name {
	case "eof":
		return io.EOF
	case "unexpected":
		return io.ErrUnexpectedEOF
	default:
		return errReset
	}
}

// sameFailure: the published error is the injected one, possibly wrapped or re-worded around its text.
func sameFailure(got, injected error) bool {
	return got != nil && (errors.Is(got, injected) || strings.Contains(got.Error(), injected.Error()))
}

// sentinelDump is the deep-dump hash of what the parser makes of a frame when called directly.
func sentinelDump(frame []byte) uint64 {
	var h uint64
	fw.Recover(func() {
		if m, err := of.Parse(append([]byte(nil), frame...)); err == nil && !isNil(m) {
			h, _ = dumpHash(m)
		}
	})
	return h
}

func recycleEvery(c *fw.Ctx, n int64) {
	streamsInProcess++
	if streamsInProcess >= n {
		c.Recycle()
	}
}

var streamsInProcess int64

func fmtErrs(es []error) string {
	s := ""
	for _, e := range es {
		s += fmt.Sprintf("%q ", e.Error())
	}
	return s
}
