package props

import (
	"encoding/binary"
	"encoding/hex"
	"fmt"
	"strings"

	of "github.com/contiv/libOpenflow/openflow13"
	"github.com/contiv/libOpenflow/protocol"

	"vh/fw"
	"vh/gen"
	"vh/prng"
	"vh/rec"
	"vh/spec"
)

// C08 — every packet-header decoder is total on arbitrary packet bytes.

type c08Case struct {
	Mode    string   `json:"mode"` // base | input
	Decoder string   `json:"decoder"`
	Recipe  *rec.Rec `json:"recipe,omitempty"`
	Hex     string   `json:"hex,omitempty"`
	Class   string   `json:"class,omitempty"`
}

// pktDecoders: every decoder entry point, each call on a fresh value (made the way a user makes one).
var pktDecoders = map[string]func(b []byte) error{
	"ethernet":     func(b []byte) error { return protocol.NewEthernet().UnmarshalBinary(b) },
	"ethernet:new": func(b []byte) error { return new(protocol.Ethernet).UnmarshalBinary(b) },
	"vlan":         func(b []byte) error { return protocol.NewVLAN().UnmarshalBinary(b) },
	"arp":          func(b []byte) error { return new(protocol.ARP).UnmarshalBinary(b) },
	"ipv4":         func(b []byte) error { return protocol.NewIPv4().UnmarshalBinary(b) },
	"ipv6":         func(b []byte) error { return new(protocol.IPv6).UnmarshalBinary(b) },
	"hbh":          func(b []byte) error { return protocol.NewHopByHopHeader().UnmarshalBinary(b) },
	"routing":      func(b []byte) error { return protocol.NewRoutingHeader().UnmarshalBinary(b) },
	"fragment":     func(b []byte) error { return protocol.NewFragmentHeader().UnmarshalBinary(b) },
	"ip6opt":       func(b []byte) error { return new(protocol.Option).UnmarshalBinary(b) },
	"icmp":         func(b []byte) error { return protocol.NewICMP().UnmarshalBinary(b) },
	"udp":          func(b []byte) error { return protocol.NewUDP().UnmarshalBinary(b) },
	"tcp":          func(b []byte) error { return protocol.NewTCP().UnmarshalBinary(b) },
	"igmp12":       func(b []byte) error { return new(protocol.IGMPv1or2).UnmarshalBinary(b) },
	"igmp3_query":  func(b []byte) error { return new(protocol.IGMPv3Query).UnmarshalBinary(b) },
	"igmp3_record": func(b []byte) error { return new(protocol.IGMPv3GroupRecord).UnmarshalBinary(b) },
	"igmp3_report": func(b []byte) error { return new(protocol.IGMPv3MembershipReport).UnmarshalBinary(b) },
	"dhcp":         func(b []byte) error { _, err := new(protocol.DHCP).Write(b); return err },
	"dhcp_options": func(b []byte) error { _, err := protocol.DHCPParseOptions(b); return err },
	"lldp":         func(b []byte) error { _, err := new(protocol.LLDP).Write(b); return err },
	"lldp_chassis": func(b []byte) error { _, err := new(protocol.ChassisTLV).Write(b); return err },
	"lldp_port":    func(b []byte) error { _, err := new(protocol.PortTLV).Write(b); return err },
	"lldp_ttl":     func(b []byte) error { _, err := new(protocol.TTLTLV).Write(b); return err },
	"packet_in": func(b []byte) error {
		m, err := of.Parse(b)
		if err == nil && isNil(m) {
			return fmt.Errorf("verif: neither message nor error")
		}
		return err
	},
}

var pktDecoderNames = []string{"ethernet", "ethernet:new", "vlan", "arp", "ipv4", "ipv6", "hbh", "routing", "fragment", "ip6opt", "icmp", "udp", "tcp",
	"igmp12", "igmp3_query", "igmp3_record", "igmp3_report", "dhcp", "dhcp_options", "lldp", "lldp_chassis", "lldp_port", "lldp_ttl", "packet_in"}

// the structurally rich decoders get more of the case list
var c08Schedule = []string{"ethernet", "ipv6", "ipv4", "packet_in", "hbh", "dhcp", "igmp3_report", "ethernet", "ipv6", "packet_in", "routing", "dhcp_options", "igmp3_query", "igmp3_record", "lldp", "ip6opt"}

var c08Calls int    // calls made by this worker process
var c08Recorded int // inputs whose hash this worker process has recorded

func init() {
	fw.Register(&fw.Prop{
		ID:       "C08",
		Rule:     "for each of the 24 decoder entry points (Ethernet via constructor and via new(), VLAN, ARP, IPv4, IPv6, hop-by-hop, routing, fragment, IPv6 option, ICMP, UDP, TCP, IGMPv1/2, IGMPv3 query / group record / report, DHCP, DHCP option list, LLDP and its three TLVs, and the packet-in path through the parser entry point) base packets are written by the reference packet encoder from generated well-formed headers (all payload chains, extension-header chains, option/source/record counts, sizes to 9 KiB); the decoder is run on the base and on its hostile variants: every truncation, every byte set to 18 boundary values (incl. 0x1f/0x20/0xfe/0xff that wrap 8-bit size arithmetic) and 6 relative ones, every 16-bit word at every offset set to 28 values (incl. 0x2000/0x3fff/0x4000/0x4001 that wrap 16-bit size arithmetic), 32-bit words, span deletions/duplications, extensions, random corruption and random tails, second-generation variants of accepted variants, plus pure random inputs of 0..9216 bytes. Each call runs under the monitor (panic / 4 CPU-seconds / 4 MiB + 1024 x len allocated). distinct = hash(decoder, input); non-trivial = differs from its base (first 150000 inputs of each worker recorded: lower bound)",
		NumCases: func(tier string, seed uint64) int { return nCases(tier, 2800, 300000) },
		Gen:      c08Gen,
		NewCase:  func() any { return new(c08Case) },
		Eval:     c08Eval,
		Minimum: func(a *fw.Agg) error {
			if a.Evals < 100000 || a.SetSize("decoders") < len(pktDecoderNames) || a.Counters["accepted_variants"] < 1000 || a.Counters["rejected_variants"] < 1000 {
				return fmt.Errorf("too little observed: evals=%d decoders=%d accepted=%d rejected=%d", a.Evals, a.SetSize("decoders"), a.Counters["accepted_variants"], a.Counters["rejected_variants"])
			}
			return nil
		},
		Assumptions: []string{
			"budgets: 4 CPU-seconds (process CPU time) and 4 MiB + 1024 bytes per input byte of cumulative allocation per call",
			"inputs are at most 65535 bytes; base packets up to jumbo-frame size (9 KiB)",
		},
	})
}

func c08Gen(tier string, seed uint64, i int) any {
	var d string
	if i%3 == 0 {
		d = c08Schedule[(i/3)%len(c08Schedule)]
	} else {
		d = pktDecoderNames[(i-i/3)%len(pktDecoderNames)]
	}
	if i%41 == 40 {
		return &c08Case{Mode: "random", Decoder: d}
	}
	r := prng.Derive(seed, 8, uint64(i))
	kind := d
	switch d {
	case "ethernet:new", "packet_in":
		kind = "ethernet"
	case "dhcp_options":
		kind = "dhcp"
	}
	return &c08Case{Mode: "base", Decoder: d, Recipe: gen.PacketOfKind(r, kind, gen.FrameOpt{})}
}

// packetInWire wraps packet bytes in a conformant packet-in (OpenFlow 1.3.5 section 7.4.1) with a one-field match.
func packetInWire(frame []byte) []byte {
	b := make([]byte, 0, 42+len(frame))
	b = append(b, 4, 10, 0, 0, 0, 0, 0, 7) // header (length patched below)
	b = append(b, 0xff, 0xff, 0xff, 0xff)  // buffer id: none
	b = binary.BigEndian.AppendUint16(b, uint16(len(frame)))
	b = append(b, 1, 0)                                               // reason, table
	b = append(b, 0, 0, 0, 0, 0, 0, 0, 1)                             // cookie
	b = append(b, 0, 1, 0, 12, 0x80, 0, 0, 4, 0, 0, 0, 3, 0, 0, 0, 0) // match: in_port=3, padded to 16
	b = append(b, 0, 0)                                               // pad
	b = append(b, frame...)
	if len(b) <= 65535 {
		binary.BigEndian.PutUint16(b[2:], uint16(len(b)))
	}
	return b
}

type c08Run struct {
	c           *fw.Ctx
	dec         string
	f           func([]byte) error
	recorded    int
	stop        bool
	hasBase     bool
	surv        [][]byte
	survSpecial int
	seenClass   map[string]int
}

func (t *c08Run) run(class string, in []byte) bool {
	c := t.c
	var err error
	// like the contents of a pooled receive buffer, every third input is a window of a larger array with stale
	// bytes behind it (cap > len): a decoder that slices past the end of its input then reads them instead of failing
	c08Calls++
	if c08Calls%3 == 1 {
		big := make([]byte, len(in)+40)
		for i := range big {
			big[i] = 0xee
		}
		copy(big, in)
		in = big[:len(in)]
	}
	v := fw.Guard(len(in), func() { err = t.f(in) })
	if c08Recorded < 150000 {
		c08Recorded++
		c.Distinct(prng.Hash64(append([]byte(t.dec+"|"), in...)), t.hasBase && class != "valid")
	} else {
		c.Evaluations(1)
	}
	c.Count("class:"+class, 1)
	report := func(cls, locus, detail string) {
		c.ViolationCase(t.dec, cls, locus, detail+"\ndecoder: "+t.dec+"  mutation class: "+class+"\ninput ("+fmt.Sprint(len(in))+" bytes): "+hexHead(in),
			&c08Case{Mode: "input", Decoder: t.dec, Hex: hex.EncodeToString(in), Class: class})
	}
	switch v.Class {
	case "panic":
		report("panic", fw.LibFrame(v.Stack), v.Panic+"\n"+fw.TrimStack(v.Stack))
		return true
	case "cpu":
		report("hang", "cpu", fmt.Sprintf("the decoder used more than %v of CPU on a %d-byte input (allocated %d bytes so far) and had not returned", fw.CPUBudget, len(in), v.Alloc))
		c.Poison()
		t.stop = true
		return false
	case "alloc":
		report("alloc", "memory", fmt.Sprintf("the decoder allocated %d bytes for a %d-byte input (budget %d)", v.Alloc, len(in), fw.AllocBase+fw.AllocPerByte*len(in)))
		c.Poison()
		t.stop = true
		return false
	}
	c.Max("max_alloc_per_call", int64(v.Alloc))
	if err != nil {
		if err.Error() == "verif: neither message nor error" {
			report("no-result", "nil,nil", "the parser returned neither a message nor an error")
			return true
		}
		c.Count("rejected_variants", 1)
		e := err.Error()
		if len(e) > 80 {
			e = e[:80]
		}
		c.Set("errors", t.dec+": "+e)
	} else {
		c.Count("accepted_variants", 1)
		if t.hasBase && class != "valid" && c.Index%2 == 0 {
			// second-generation bases: the first few accepted variants, and a few more from the dictionary-driven
			// and padding classes (they are the ones that put an input into a state a later check branches on)
			special := strings.HasPrefix(class, "resize") || class == "zerotail" || strings.HasPrefix(class, "dict") || strings.HasPrefix(class, "token")
			if len(t.surv) < 4 && !special {
				t.surv = append(t.surv, append([]byte(nil), in...))
			} else if special && t.survSpecial < 6 && t.seenClass[class] < 2 {
				if t.seenClass == nil {
					t.seenClass = map[string]int{}
				}
				t.seenClass[class]++
				t.survSpecial++
				t.surv = append(t.surv, append([]byte(nil), in...))
			}
		}
	}
	return true
}

func c08Eval(c *fw.Ctx, data any) {
	cs := data.(*c08Case)
	f := pktDecoders[cs.Decoder]
	if f == nil {
		c.Inconclusive("unknown decoder " + cs.Decoder)
		return
	}
	c.Set("decoders", cs.Decoder)
	t := &c08Run{c: c, dec: cs.Decoder, f: f}
	r := prng.Derive(c.Seed, 88, uint64(c.Index))
	switch cs.Mode {
	case "input":
		in, err := hex.DecodeString(cs.Hex)
		if err != nil {
			c.Inconclusive("bad hex in case")
			return
		}
		t.hasBase = true
		t.run(cs.Class, in)
		return
	case "random":
		for _, n := range []int{0, 1, 2, 3, 4, 5, 6, 7, 8, 11, 12, 13, 14, 15, 16, 17, 18, 19, 20, 21, 23, 24, 27, 28, 36, 39, 40, 41, 48, 64, 100, 239, 240, 241, 300, 1500, 9216} {
			for k := 0; k < 6; k++ {
				in := r.Bytes(n)
				switch k {
				case 1:
					for j := range in {
						in[j] = 0
					}
				case 2:
					for j := range in {
						in[j] = 0xff
					}
				}
				if cs.Decoder == "packet_in" {
					in = packetInWire(in)
				}
				if !t.run("random", in) {
					return
				}
			}
		}
		return
	}
	if cs.Recipe == nil {
		return
	}
	base, err := spec.EncodePacket(cs.Recipe)
	if err != nil {
		c.Count("bases_skipped", 1)
		return
	}
	o := gen.HostileOpt{MaxPos: 640, Random: 32, MaxExtend: len(base) + 300}
	switch cs.Decoder {
	case "dhcp_options":
		if len(base) < 240 {
			return
		}
		base = base[240:]
	case "packet_in":
		if len(base) > 60000 {
			return
		}
		base = packetInWire(base)
		o.Fix = ofFix
	}
	c.Count("bases", 1)
	c.Max("max_base_len", int64(len(base)))
	t.hasBase = true
	if !t.run("valid", append([]byte(nil), base...)) {
		return
	}
	if len(base) > 2048 {
		o.MaxPos = 256
	}
	gen.Hostile(base, r, o, func(class string, in []byte) bool { return t.run(class, in) })
	if t.stop {
		return
	}
	surv := t.surv
	t.surv = nil
	for i, s := range surv {
		c.Count("second_generation_bases", 1)
		o2 := gen.HostileOpt{Fix: o.Fix, MaxPos: 96, Random: 8, MaxExtend: len(s) + 64}
		if i >= 4 {
			o2.MaxPos, o2.Random = 40, 4
		}
		gen.Hostile(s, r, o2, func(class string, in []byte) bool { return t.run("2nd:"+class, in) })
		if t.stop {
			return
		}
	}
	if c.WantSample() && len(base) < 160 && c.Index%7 == 0 {
		c.Sample(map[string]any{"decoder": cs.Decoder, "base_recipe": cs.Recipe, "base": hex.EncodeToString(base)})
	}
}
