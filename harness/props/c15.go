package props

import (
	"encoding/binary"
	"fmt"
	"runtime"
	"strings"
	"sync"

	of "github.com/contiv/libOpenflow/openflow13"
	"github.com/contiv/libOpenflow/util"

	"vh/fw"
	"vh/prng"
	"vh/spec"
)

// C15 — match-field registry: (a) names -> class/field/width against the reference table, (b) header word
// pack/unpack bijection, (c) lookups return independent values (concurrent, under the race detector).

type c15Case struct {
	Family string `json:"family"` // table | words-class | words-low | words-rand | words-all | indep
	Lo     uint64 `json:"lo"`
	Hi     uint64 `json:"hi"`
	G      int    `json:"g,omitempty"`
}

func c15Names() (names []string, fromHook bool) {
	if hooksOn {
		return hookRegistryNames(), true
	}
	for i := range spec.OXMTable {
		n := spec.OXMTable[i].Name
		if _, err := of.FindFieldHeaderByName(n, false); err == nil {
			names = append(names, n)
		}
	}
	return names, false
}

func init() {
	fw.Register(&fw.Prop{
		ID:   "C15",
		Race: true,
		Rule: "table: every registered name (enumerated from the real registry through the verif hook) x {upper, lower, mixed case} x mask on/off compared with the OF1.3.5/OVS width table, plus unregistered names that must give an error; words: MarshalHeader(UnmarshalHeader(w)) == w and UnmarshalHeader(MarshalHeader(h)) == h over header words (quick: all 65536 classes x 64 low halves, all 65536 low halves x 64 classes, 2^22 PRNG words; thorough: all 2^32 words); indep: G goroutines look up names concurrently, check the result against the pristine entry at return, overwrite every field of their result, then the registry is compared with its snapshot - under the race detector. Header words are counted in evaluations; being a plain enumeration of distinct integers only one hash per 65536-word chunk enters the distinct set, table and indep items are hashed individually. Non-trivial: every item",
		NumCases: func(tier string, seed uint64) int {
			if tier == "thorough" {
				return 1 + 4096 + 24 + 64
			}
			return 1 + 64 + 64 + 64 + 8 + 8
		},
		Gen: func(tier string, seed uint64, i int) any {
			if i == 0 {
				return &c15Case{Family: "table"}
			}
			i--
			if tier == "thorough" {
				if i < 4096 {
					return &c15Case{Family: "words-all", Lo: uint64(i) << 20, Hi: uint64(i+1) << 20}
				}
				i -= 4096
				if i >= 24 {
					return &c15Case{Family: "after-use", Lo: uint64(i - 24)}
				}
				return &c15Case{Family: "indep", Lo: uint64(i), G: []int{2, 4, 16, 64}[i%4]}
			}
			if i < 64 {
				return &c15Case{Family: "words-class", Lo: uint64(i)}
			}
			i -= 64
			if i < 64 {
				return &c15Case{Family: "words-low", Lo: uint64(i)}
			}
			i -= 64
			if i < 64 {
				return &c15Case{Family: "words-rand", Lo: uint64(i)}
			}
			i -= 64
			if i >= 8 {
				return &c15Case{Family: "after-use", Lo: uint64(i - 8)}
			}
			return &c15Case{Family: "indep", Lo: uint64(i), G: []int{2, 4, 16, 64}[i%4]}
		},
		NewCase: func() any { return new(c15Case) },
		Eval:    c15Eval,
		Exhaustive: func(tier string) bool {
			return false // the words family is exhaustive in the thorough tier (see counters), the indep family is sampled
		},
		Minimum: func(a *fw.Agg) error {
			if a.Counters["names"] < 100 {
				return fmt.Errorf("only %d registered names observed", a.Counters["names"])
			}
			if a.Counters["words"] < 1<<22 {
				return fmt.Errorf("only %d header words observed", a.Counters["words"])
			}
			if a.Counters["indep_lookups"] < 1000 || a.Maxes["indep_goroutines"] < 2 {
				return fmt.Errorf("independence workload too small: %v", a.Counters)
			}
			return nil
		},
		Assumptions: []string{
			"reference widths: SPEC_NOTES.md section D (OF1.3.5 7.2.3.7, OVS meta-flow.h); a registered name absent from the reference is reported inconclusive, not judged",
			"tunnel metadata is variable-width in OVS (1..124 bytes): the registry's width for it is accepted when it is in 1..124 so that the doubled width still fits the 8-bit length",
			"race detector (go build -race) observes the independence workload; a report with a library frame is a violation",
		},
	})
}

var c15Cold sync.Once

func c15Eval(c *fw.Ctx, data any) {
	cs := data.(*c15Case)
	// the first thing every worker process does with the library: concurrent first use (C14's storm, which begins
	// with name lookups in non-canonical spellings) under the race detector
	c15Cold.Do(func() { coldStorm(c, c.Seed) })
	switch cs.Family {
	case "table":
		c15Table(c)
	case "after-use":
		// the whole table once more after a few hundred other uses of the library (match fields through every
		// constructor, tunnel metadata of every size, ranges, builders; returned values edited): lookups give what
		// they gave in a fresh process
		apiNoise(prng.Derive(c.Seed, 1515, cs.Lo), 300)
		c.Count("tables_after_other_use", 1)
		c15Table(c)
	case "words-class":
		// all 65536 classes for the low half chosen by index
		low := c15Low(cs.Lo)
		for cl := uint32(0); cl < 65536; cl++ {
			c15Word(c, cl<<16|uint32(low))
		}
		c.Count("words", 65536)
		c.Evaluations(65535)
		c.Distinct(prng.Hash64([]byte(fmt.Sprintf("wc/%d", cs.Lo))), true)
	case "words-low":
		cl := c15Class(cs.Lo)
		for low := uint32(0); low < 65536; low++ {
			c15Word(c, uint32(cl)<<16|low)
		}
		c.Count("words", 65536)
		c.Evaluations(65535)
		c.Distinct(prng.Hash64([]byte(fmt.Sprintf("wl/%d", cs.Lo))), true)
	case "words-rand":
		r := prng.Derive(c.Seed, 15, cs.Lo)
		for i := 0; i < 65536; i++ {
			c15Word(c, r.U32())
		}
		c.Count("words", 65536)
		c.Evaluations(65535)
		c.Distinct(prng.Hash64([]byte(fmt.Sprintf("wr/%d/%d", c.Seed, cs.Lo))), true)
	case "words-all":
		for w := cs.Lo; w < cs.Hi; w++ {
			c15Word(c, uint32(w))
		}
		n := int64(cs.Hi - cs.Lo)
		c.Count("words", n)
		c.Count("words_exhaustive_chunks", 1)
		c.Evaluations(n - 16)
		for k := uint64(0); k < 16; k++ {
			c.Distinct(prng.Hash64([]byte(fmt.Sprintf("wa/%d/%d", cs.Lo, k))), true)
		}
	case "indep":
		c15Indep(c, cs)
	}
}

func c15Low(i uint64) uint16 {
	tbl := []uint16{0x0000, 0x0001, 0x00ff, 0x0100, 0x0101, 0x01ff, 0x0200, 0xfe00, 0xfeff, 0xff00, 0xffff, 0x8000, 0x7fff, 0xd308, 0x0004, 0x0108}
	if int(i) < len(tbl) {
		return tbl[i]
	}
	return uint16(prng.Derive(77, i).U16())
}

func c15Class(i uint64) uint16 {
	tbl := []uint16{0x0000, 0x0001, 0x8000, 0xffff, 0x0002, 0x7fff, 0xfffe, 0x00ff, 0xff00, 0x8001}
	if int(i) < len(tbl) {
		return tbl[i]
	}
	return uint16(prng.Derive(78, i).U16())
}

func c15Word(c *fw.Ctx, w uint32) {
	var b [4]byte
	binary.BigEndian.PutUint32(b[:], w)
	var f of.MatchField
	if err := f.UnmarshalHeader(b[:]); err != nil {
		c.Violation("header-word", "error", "UnmarshalHeader", fmt.Sprintf("word %#08x: %v", w, err))
		return
	}
	if got := f.MarshalHeader(); got != w {
		c.Violation("header-word", "roundtrip", "Marshal(Unmarshal(w))", fmt.Sprintf("word %#08x unpacked to class=%#x field=%d mask=%v len=%d and packed back to %#08x", w, f.Class, f.Field, f.HasMask, f.Length, got))
		return
	}
	// independent unpacking
	if f.Class != uint16(w>>16) || f.Field != uint8(w>>9)&0x7f || f.HasMask != (w>>8&1 == 1) || f.Length != uint8(w) {
		c.Violation("header-word", "field", "UnmarshalHeader", fmt.Sprintf("word %#08x unpacked to class=%#x field=%d mask=%v len=%d", w, f.Class, f.Field, f.HasMask, f.Length))
		return
	}
	// unpacking into a value that already holds another header (here: the complement word, so every field and the
	// mask flag differ) must give the same result as unpacking into a fresh one
	var used of.MatchField
	var nb [4]byte
	binary.BigEndian.PutUint32(nb[:], ^w)
	if used.UnmarshalHeader(nb[:]) == nil {
		if err := used.UnmarshalHeader(b[:]); err != nil || used.MarshalHeader() != w || used.HasMask != f.HasMask || used.Class != f.Class || used.Field != f.Field || used.Length != f.Length {
			c.Violation("header-word", "roundtrip", "Unmarshal-into-used-value", fmt.Sprintf("word %#08x unpacked into a value that previously held %#08x gives class=%#x field=%d mask=%v len=%d, packing back to %#08x", w, ^w, used.Class, used.Field, used.HasMask, used.Length, used.MarshalHeader()))
			return
		}
	}
	// a field decoded from an experimenter-class OXM carries the experimenter id next to its header: the header word
	// is still the same four bytes
	withID := of.MatchField{Class: f.Class, Field: f.Field, HasMask: f.HasMask, Length: f.Length, ExperimenterID: 0x4f4e4600}
	if got := withID.MarshalHeader(); got != w {
		c.Violation("header-word", "roundtrip", "Marshal-with-experimenter-id", fmt.Sprintf("header class=%#x field=%d mask=%v len=%d packs to %#08x once the value carries an experimenter id, to %#08x without", f.Class, f.Field, f.HasMask, f.Length, got, w))
		return
	}
	// the other direction: a header value packs and unpacks to itself
	h := of.MatchField{Class: f.Class, Field: f.Field, HasMask: f.HasMask, Length: f.Length}
	binary.BigEndian.PutUint32(b[:], h.MarshalHeader())
	var g of.MatchField
	if err := g.UnmarshalHeader(b[:]); err != nil || g.Class != h.Class || g.Field != h.Field || g.HasMask != h.HasMask || g.Length != h.Length {
		c.Violation("header-word", "roundtrip", "Unmarshal(Marshal(h))", fmt.Sprintf("header %+v came back as %+v (err %v)", h, g, err))
	}
}

// randomCase returns name with a random letter-case pattern.
func randomCase(name string, r *prng.R) string {
	b := []byte(strings.ToLower(name))
	bits := r.U64()
	for i := range b {
		if b[i] >= 'a' && b[i] <= 'z' && bits>>(uint(i)%64)&1 == 1 {
			b[i] -= 32
		}
		if i%64 == 63 {
			bits = r.U64()
		}
	}
	return string(b)
}

func c15Variants(name string) []string {
	mixed := []byte(strings.ToLower(name))
	for i := 0; i < len(mixed); i += 2 {
		if mixed[i] >= 'a' && mixed[i] <= 'z' {
			mixed[i] -= 32
		}
	}
	out := []string{strings.ToUpper(name), strings.ToLower(name), string(mixed)}
	// every single letter in the other case: one lower-case letter in an upper-case name and the reverse
	up, lo := []byte(strings.ToUpper(name)), []byte(strings.ToLower(name))
	for i := range up {
		if up[i] >= 'A' && up[i] <= 'Z' {
			a := append([]byte(nil), up...)
			a[i] += 32
			b := append([]byte(nil), lo...)
			b[i] -= 32
			out = append(out, string(a), string(b))
		}
	}
	return out
}

func c15Expect(ref *spec.OXMField, gotWidth int) (width int, ok bool) {
	if ref.Width == 0 { // variable width (tunnel metadata): any width 1..124 is what OVS defines
		return gotWidth, gotWidth >= 1 && gotWidth <= spec.TunMetadataMaxWidth
	}
	return ref.Width, gotWidth == ref.Width
}

func c15RefWidth(ref *spec.OXMField, w int) string {
	if ref.Width == 0 {
		return "variable, 1..124"
	}
	return fmt.Sprint(w)
}

func c15Table(c *fw.Ctx) {
	names, fromHook := c15Names()
	if fromHook {
		c.Count("names_from_hook", int64(len(names)))
	}
	registered := map[string]bool{}
	for _, name := range names {
		registered[strings.ToUpper(name)] = true
		c.Count("names", 1)
		ref := spec.OXMByName(strings.ToUpper(name))
		if ref == nil {
			c.Inconclusive("registered name " + name + " is not in the reference table")
			continue
		}
		if fromHook {
			cl, fld, ln, hm, ok := hookRegistryRaw(name)
			if _, wok := c15Expect(ref, int(ln)); !ok || cl != ref.Class || fld != ref.Field || hm || !wok {
				c.Violation(name, "stored-entry", "registry", fmt.Sprintf("stored entry class=%#x field=%d length=%d hasMask=%v, reference class=%#x field=%d width=%d", cl, fld, ln, hm, ref.Class, ref.Field, ref.Width))
			}
		}
		for vi, v := range c15Variants(name) {
			for _, mask := range []bool{false, true} {
				c.Distinct(prng.Hash64([]byte(fmt.Sprintf("tbl/%s/%v", v, mask))), true)
				locus := fmt.Sprintf("mask=%v", mask)
				var f *of.MatchField
				var err error
				p, pv, st := fw.Recover(func() { f, err = of.FindFieldHeaderByName(v, mask) })
				if p {
					c.Violation(name, "panic", fw.LibFrame(st), pv)
					continue
				}
				if err != nil || f == nil {
					c.Violation(name, "lookup-error", locus, fmt.Sprintf("lookup of %q (case variant %d) failed: %v", v, vi, err))
					continue
				}
				if f.Class != ref.Class || f.Field != ref.Field {
					c.Violation(name, "code", locus, fmt.Sprintf("lookup %q gives class=%#x field=%d, reference class=%#x field=%d", v, f.Class, f.Field, ref.Class, ref.Field))
				}
				if f.HasMask != mask {
					c.Violation(name, "hasmask", locus, fmt.Sprintf("lookup %q mask=%v gives HasMask=%v", v, mask, f.HasMask))
				}
				got := int(f.Length)
				if !mask {
					if w, ok := c15Expect(ref, got); !ok {
						c.Violation(name, "width", locus, fmt.Sprintf("lookup %q gives length %d, reference width %s", v, got, c15RefWidth(ref, w)))
					}
				} else {
					// doubled width: compare with twice the unmasked lookup and with the reference
					base, _ := of.FindFieldHeaderByName(v, false)
					w := ref.Width
					if w == 0 && base != nil {
						w = int(base.Length)
					}
					if got != 2*w {
						c.Violation(name, "width", locus, fmt.Sprintf("lookup %q with mask gives length %d, want %d (2 x %d)", v, got, 2*w, w))
					}
				}
				if f.Value != nil || f.Mask != nil || f.ExperimenterID != 0 {
					c.Violation(name, "dirty", locus, fmt.Sprintf("lookup %q returns a field that already carries value/mask/experimenter: %+v", v, f))
				}
			}
		}
		if c.WantSample() && (strings.HasSuffix(name, "REG3") || strings.HasSuffix(name, "IPV6_LABEL") || strings.HasSuffix(name, "ETH_DST")) {
			f, _ := of.FindFieldHeaderByName(strings.ToLower(name), true)
			if f != nil {
				c.Sample(map[string]any{"family": "table", "lookup": strings.ToLower(name), "mask": true, "class": f.Class, "field": f.Field, "length": f.Length, "reference_width": ref.Width})
			}
		}
	}
	// unregistered names must give an error
	bogus := []string{"", " ", "NXM_NX_REG16", "NXM_NX_REG", "NXM_NX_REG0 ", " NXM_NX_REG0", "nxm-nx-reg0", "OXM_OF_", "REG0", "NXM_NX_REG0\x00", "OXM_OF_IN_PORTX", "NXM_NX_TUN_METADATA8", "OXM_FIELD_METADATA", "ǸXM_NX_REG0"}
	if fromHook {
		for i := range spec.OXMTable { // reference names the registry does not carry
			if !registered[spec.OXMTable[i].Name] {
				bogus = append(bogus, spec.OXMTable[i].Name)
			}
		}
	}
	for _, b := range bogus {
		if registered[strings.ToUpper(b)] {
			continue
		}
		if !fromHook && spec.OXMByName(strings.ToUpper(b)) != nil {
			continue
		}
		c.Count("unregistered_names", 1)
		c.Distinct(prng.Hash64([]byte("bogus/"+b)), true)
		for _, mask := range []bool{false, true} {
			var f *of.MatchField
			var err error
			p, pv, st := fw.Recover(func() { f, err = of.FindFieldHeaderByName(b, mask) })
			if p {
				c.Violation("unregistered", "panic", fw.LibFrame(st), fmt.Sprintf("%q: %s", b, pv))
			} else if err == nil {
				c.Violation("unregistered", "no-error", fmt.Sprintf("mask=%v", mask), fmt.Sprintf("lookup of unregistered name %q returned %+v without error", b, f))
			}
		}
	}
}

type c15Pristine struct {
	class uint16
	field uint8
	width uint8
}

func c15Indep(c *fw.Ctx, cs *c15Case) {
	names, fromHook := c15Names()
	if len(names) == 0 {
		c.Inconclusive("no registered names")
		return
	}
	// pristine view taken before the workload
	pr := map[string]c15Pristine{}
	for _, n := range names {
		f, err := of.FindFieldHeaderByName(n, false)
		if err != nil {
			continue
		}
		pr[n] = c15Pristine{f.Class, f.Field, f.Length}
		if fromHook {
			cl, fld, ln, _, _ := hookRegistryRaw(n)
			pr[n] = c15Pristine{cl, fld, ln}
		}
	}
	G := cs.G
	if G < 2 {
		G = 2
	}
	iters := 2000 / G
	if c.Tier == "thorough" {
		iters = 20000 / G
	}
	old := runtime.GOMAXPROCS(0)
	if cs.Lo%3 == 1 {
		runtime.GOMAXPROCS(2)
	}
	defer runtime.GOMAXPROCS(old)
	var wg sync.WaitGroup
	var mu sync.Mutex
	type bad struct{ name, what string }
	var bads []bad
	startGate := make(chan struct{})
	hot := names[int(cs.Lo)%len(names)] // every goroutine hammers this one as well as its own
	for g := 0; g < G; g++ {
		wg.Add(1)
		go func(g int) {
			defer wg.Done()
			r := prng.Derive(c.Seed, 1515, cs.Lo, uint64(g))
			<-startGate
			for it := 0; it < iters; it++ {
				name := hot
				if it%2 == 1 {
					name = names[r.Intn(len(names))]
				}
				mask := r.Bool()
				spelled := name
				if it%3 != 0 { // a spelling (random letter case) most likely never looked up before in this process
					spelled = randomCase(name, r)
				}
				f, err := of.FindFieldHeaderByName(spelled, mask)
				if err != nil || f == nil {
					mu.Lock()
					bads = append(bads, bad{name, fmt.Sprintf("lookup failed during the workload: %v", err)})
					mu.Unlock()
					continue
				}
				p := pr[name]
				wl := p.width
				if mask {
					wl *= 2
				}
				if f.Class != p.class || f.Field != p.field || f.Length != wl || f.HasMask != mask || f.Value != nil || f.Mask != nil {
					mu.Lock()
					bads = append(bads, bad{name, fmt.Sprintf("lookup(mask=%v) returned class=%#x field=%d length=%d hasMask=%v value=%v mask=%v; pristine class=%#x field=%d width=%d", mask, f.Class, f.Field, f.Length, f.HasMask, f.Value, f.Mask, p.class, p.field, p.width)})
					mu.Unlock()
				}
				// overwrite every field of the result
				f.Class = 0xdead
				f.Field = 0x55
				f.HasMask = !mask
				f.Length = 0xee
				f.ExperimenterID = 0xabcdef01
				f.Value = util.NewBuffer([]byte{1, 2, 3})
				f.Mask = util.NewBuffer([]byte{4, 5, 6})
			}
		}(g)
	}
	close(startGate)
	wg.Wait()
	c.Count("indep_lookups", int64(G*iters))
	c.Max("indep_goroutines", int64(G))
	c.Distinct(prng.Hash64([]byte(fmt.Sprintf("indep/%d/%d/%d", c.Seed, cs.Lo, G))), true)
	seen := map[string]bool{}
	for _, b := range bads {
		if !seen[b.name] {
			seen[b.name] = true
			c.Violation(b.name, "alias", "concurrent-lookup", b.what)
		}
	}
	// afterwards: registry equals the snapshot, fresh lookups are pristine
	if fromHook {
		if after := hookRegistryNames(); len(after) != len(names) {
			c.Violation("registry", "alias", "registry-grew", fmt.Sprintf("the registry had %d entries before the lookups and has %d after them: lookups write the shared table", len(names), len(after)))
		}
	}
	for _, n := range names {
		p := pr[n]
		if fromHook {
			cl, fld, ln, hm, ok := hookRegistryRaw(n)
			if !ok || cl != p.class || fld != p.field || ln != p.width || hm {
				c.Violation(n, "alias", "registry-after", fmt.Sprintf("stored entry changed to class=%#x field=%d length=%d hasMask=%v (was class=%#x field=%d width=%d)", cl, fld, ln, hm, p.class, p.field, p.width))
			}
		}
		f, err := of.FindFieldHeaderByName(n, false)
		if err != nil || f.Class != p.class || f.Field != p.field || f.Length != p.width || f.HasMask || f.Value != nil || f.Mask != nil || f.ExperimenterID != 0 {
			c.Violation(n, "alias", "lookup-after", fmt.Sprintf("fresh lookup after the workload: %+v err %v (pristine class=%#x field=%d width=%d)", f, err, p.class, p.field, p.width))
		}
	}
	if c.WantSample() {
		c.Sample(map[string]any{"family": "indep", "goroutines": G, "lookups_each": iters, "hot_name": hot})
	}
}
