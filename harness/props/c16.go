package props

import (
	"encoding/binary"
	"fmt"

	of "github.com/contiv/libOpenflow/openflow13"

	"vh/fw"
	"vh/prng"
)

// C16 — bit-range helpers: exhaustive sweep with a closed-form oracle.

type c16Case struct {
	Family string `json:"family"` // "range" (first fixed, all last) or "pairs" (offsets lo..hi-1, all widths)
	Lo     int    `json:"lo"`
	Hi     int    `json:"hi"`
}

func init() {
	fw.Register(&fw.Prop{
		ID:   "C16",
		Rule: "exhaustive: all 528 ranges 0<=first<=last<=31 (both constructors, mask, offset/width word, accessors, register match-field mask bytes for all 16 registers) and all 65536 (offset<1024, 1<=width<=64) pairs (both range constructors' word; encode/decode helpers through the verif hook); every item is distinct and non-trivial; distinct = hash(family, first/offset, last/width)",
		NumCases: func(tier string, seed uint64) int {
			return 32 + 64
		},
		Gen: func(tier string, seed uint64, i int) any {
			if i < 32 {
				return &c16Case{Family: "range", Lo: i, Hi: i + 1}
			}
			j := i - 32
			return &c16Case{Family: "pairs", Lo: j * 16, Hi: j*16 + 16}
		},
		NewCase:    func() any { return new(c16Case) },
		Eval:       c16Eval,
		Exhaustive: func(string) bool { return true },
		Minimum: func(a *fw.Agg) error {
			if a.Counters["ranges"] != 528 || a.Counters["pairs"] != 65536 {
				return fmt.Errorf("expected 528 ranges and 65536 pairs, observed %d and %d", a.Counters["ranges"], a.Counters["pairs"])
			}
			return nil
		},
		Assumptions: []string{
			"oracle: mask = ((1<<(last-first+1))-1)<<first computed in 64-bit arithmetic; word = offset<<6 | (width-1)",
			"encode/decode helper functions are unexported and observed through the verif build-tag hook; without the hook only the exported range type is observed",
		},
	})
}

func c16Eval(c *fw.Ctx, data any) {
	cs := data.(*c16Case)
	// other use of the library first (ranges outside the 32-bit domain through both constructors among it)
	apiNoise(prng.Derive(c.Seed, 1616, uint64(c.Index)), 60)
	switch cs.Family {
	case "range":
		for first := cs.Lo; first < cs.Hi && first < 32; first++ {
			for last := first; last < 32; last++ {
				c16Range(c, first, last)
			}
		}
	case "pairs":
		for ofs := cs.Lo; ofs < cs.Hi && ofs < 1024; ofs++ {
			for n := 1; n <= 64; n++ {
				c16Pair(c, ofs, n)
			}
		}
	}
}

func c16Range(c *fw.Ctx, first, last int) {
	c.Count("ranges", 1)
	c.Distinct(prng.Hash64([]byte(fmt.Sprintf("r/%d/%d", first, last))), true)
	kind := fmt.Sprintf("range(first=%d,last=%d)", first, last)
	n := last - first + 1
	wantMask := uint32(((uint64(1) << uint(n)) - 1) << uint(first))
	wantWord := uint16(first<<6 | (n - 1))
	p, v, st := fw.Recover(func() {
		if first >= 1 {
			// a range outside the domain whose 16-bit offset/width word is the same number (width - 1 >= 64 carries
			// into the offset bits) is created first: it is a different range
			fw.Recover(func() { of.NewNXRange(first-1, first+n+62).ToOfsBits() })
			fw.Recover(func() { of.NewNXRangeByOfsNBits(first-1, n+64).ToUint32Mask() })
		}
		r1 := of.NewNXRange(first, last)
		r2 := of.NewNXRangeByOfsNBits(first, n)
		for i, r := range []*of.NXRange{r1, r2} {
			ctor := []string{"NewNXRange", "NewNXRangeByOfsNBits"}[i]
			if m := r.ToUint32Mask(); m != wantMask {
				c.Violation(kind, "mask", ctor+".ToUint32Mask", fmt.Sprintf("mask %#08x, want %#08x", m, wantMask))
			}
			if w := r.ToOfsBits(); w != wantWord {
				c.Violation(kind, "word", ctor+".ToOfsBits", fmt.Sprintf("word %#04x, want %#04x", w, wantWord))
			}
			if o := r.GetOfs(); o != uint16(first) {
				c.Violation(kind, "offset", ctor+".GetOfs", fmt.Sprintf("offset %d, want %d", o, first))
			}
			if nb := r.GetNbits(); nb != uint16(n) {
				c.Violation(kind, "width", ctor+".GetNbits", fmt.Sprintf("width %d, want %d", nb, n))
			}
		}
		// register match fields built from the range: header(4) value(4) mask(4)
		for idx := 0; idx < 16; idx++ {
			val := uint32(0xdeadbeef) & wantMask
			f := of.NewRegMatchField(idx, val, of.NewNXRange(first, last))
			b, err := f.MarshalBinary()
			if err != nil || len(b) != 12 {
				c.Violation(kind, "regfield", "NewRegMatchField", fmt.Sprintf("reg%d: encoding %x err %v (want 12 bytes)", idx, b, err))
				continue
			}
			if got := binary.BigEndian.Uint32(b[8:12]); got != wantMask {
				c.Violation(kind, "regfield-mask", "NewRegMatchField", fmt.Sprintf("reg%d: mask bytes %#08x, want %#08x (encoding %x)", idx, got, wantMask, b))
			}
			if got := binary.BigEndian.Uint32(b[4:8]); got != val {
				c.Violation(kind, "regfield-value", "NewRegMatchField", fmt.Sprintf("reg%d: value bytes %#08x, want %#08x", idx, got, val))
			}
			wantHdr := uint32(0x0001)<<16 | uint32(idx)<<9 | 1<<8 | 8
			if got := binary.BigEndian.Uint32(b[0:4]); got != wantHdr {
				c.Violation(kind, "regfield-header", "NewRegMatchField", fmt.Sprintf("reg%d: header %#08x, want %#08x", idx, got, wantHdr))
			}
			c.Count("regfields", 1)
		}
		// one range object used for two fields, the first of which its owner edits in between: the second field
		// and the range itself are unaffected
		rng := of.NewNXRange(first, last)
		f1 := of.NewRegMatchField(first%16, 0x5a5a5a5a&wantMask, rng)
		if m, ok := f1.Mask.(*of.Uint32Message); ok && m != nil {
			m.Data = ^m.Data
		}
		if vv, ok := f1.Value.(*of.Uint32Message); ok && vv != nil {
			vv.Data = ^vv.Data
		}
		f2 := of.NewRegMatchField(first%16, 0x5a5a5a5a&wantMask, rng)
		if b, err := f2.MarshalBinary(); err != nil || len(b) != 12 || binary.BigEndian.Uint32(b[8:12]) != wantMask || binary.BigEndian.Uint32(b[4:8]) != 0x5a5a5a5a&wantMask {
			c.Violation(kind, "regfield-mask", "second-field-from-the-same-range", fmt.Sprintf("a second register field built from the same range object after the first one was edited encodes to %x (err %v), want value %#08x mask %#08x", b, err, 0x5a5a5a5a&wantMask, wantMask))
		}
		if m := rng.ToUint32Mask(); m != wantMask {
			c.Violation(kind, "mask", "range-after-use", fmt.Sprintf("after two fields were built from it the range answers mask %#08x, want %#08x", m, wantMask))
		}
	})
	if p {
		c.Violation(kind, "panic", fw.LibFrame(st), v+"\n"+fw.TrimStack(st))
	}
	if c.WantSample() && first == 3 && last >= 5 {
		c.Sample(map[string]any{"first": first, "last": last, "mask": fmt.Sprintf("%#08x", wantMask), "word": fmt.Sprintf("%#04x", wantWord)})
	}
}

func c16Pair(c *fw.Ctx, ofs, n int) {
	c.Count("pairs", 1)
	c.Distinct(prng.Hash64([]byte(fmt.Sprintf("p/%d/%d", ofs, n))), true)
	kind := fmt.Sprintf("pair(offset=%d,width=%d)", ofs, n)
	want := uint16(ofs<<6 | (n - 1))
	p, v, st := fw.Recover(func() {
		if w := of.NewNXRangeByOfsNBits(ofs, n).ToOfsBits(); w != want {
			c.Violation(kind, "word", "NewNXRangeByOfsNBits.ToOfsBits", fmt.Sprintf("word %#04x, want %#04x", w, want))
		}
		r := of.NewNXRange(ofs, ofs+n-1)
		if w := r.ToOfsBits(); w != want {
			c.Violation(kind, "word", "NewNXRange.ToOfsBits", fmt.Sprintf("word %#04x, want %#04x", w, want))
		}
		if o := r.GetOfs(); o != uint16(ofs) {
			c.Violation(kind, "offset", "NewNXRange.GetOfs", fmt.Sprintf("offset %d, want %d", o, ofs))
		}
		if nb := r.GetNbits(); nb != uint16(n) {
			c.Violation(kind, "width", "NewNXRange.GetNbits", fmt.Sprintf("width %d, want %d", nb, n))
		}
		// asking a range for its 32-bit mask (whatever that means for a range beyond bit 31) must not change the range
		fw.Recover(func() { r.ToUint32Mask() })
		if w, o, nb := r.ToOfsBits(), r.GetOfs(), r.GetNbits(); w != want || o != uint16(ofs) || nb != uint16(n) {
			c.Violation(kind, "word", "after-ToUint32Mask", fmt.Sprintf("after ToUint32Mask the same range answers word %#04x offset %d width %d, want %#04x / %d / %d", w, o, nb, want, ofs, n))
		}
		if hooksOn {
			c.Count("hook_pairs", 1)
			if w := hookEncodeOfsNbits(uint16(ofs), uint16(n)); w != want {
				c.Violation(kind, "word", "encodeOfsNbits", fmt.Sprintf("word %#04x, want %#04x", w, want))
			}
			if w := hookEncodeOfsNbitsStartEnd(uint16(ofs), uint16(ofs+n-1)); w != want {
				c.Violation(kind, "word", "encodeOfsNbitsStartEnd", fmt.Sprintf("word %#04x, want %#04x", w, want))
			}
			if o := hookDecodeOfs(want); o != uint16(ofs) {
				c.Violation(kind, "offset", "decodeOfs", fmt.Sprintf("decoded offset %d from %#04x, want %d", o, want, ofs))
			}
			if nb := hookDecodeNbits(want); nb != uint16(n) {
				c.Violation(kind, "width", "decodeNbits", fmt.Sprintf("decoded width %d from %#04x, want %d", nb, want, n))
			}
		}
	})
	if p {
		c.Violation(kind, "panic", fw.LibFrame(st), v+"\n"+fw.TrimStack(st))
	}
	if c.WantSample() && ofs == 16 && n == 16 {
		c.Sample(map[string]any{"offset": ofs, "width": n, "word": fmt.Sprintf("%#04x", want)})
	}
}
