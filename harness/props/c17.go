package props

import (
	"bytes"
	"fmt"
	"math/big"
	"net"
	"strings"

	of "github.com/contiv/libOpenflow/openflow13"

	"golang.org/x/exp/constraints"

	"vh/fw"
	"vh/prng"
	"vh/spec"
)

// C17 — generic match-field builder: value/mask placement against an independent big-integer model;
// unrepresentable inputs must be errors (never panics, never silently different matches); arguments unmodified.

type c17Case struct {
	Family string `json:"family"` // reg | field | single
	Name   string `json:"name"`
	Lo     int    `json:"lo"`
	Hi     int    `json:"hi"`
	// single item (replay / witnesses)
	VType string `json:"vtype,omitempty"`
	Value string `json:"value,omitempty"` // decimal big integer (may be negative)
	Conv  string `json:"conv,omitempty"`  // nomask | 1arg | 2arg | 3arg1 | 3arg0
	Ofs   int    `json:"ofs,omitempty"`
	N     int    `json:"n,omitempty"`
}

func c17FixedNames() []string {
	names, _ := c15Names()
	var out []string
	for _, n := range names {
		if c17Width(strings.ToUpper(n)) == 0 {
			continue
		}
		out = append(out, strings.ToUpper(n))
	}
	return out
}

// c17Width is the payload width of a registered name: the reference table's, or for the variable-width tunnel
// metadata fields (1..124 bytes in OVS) the width the registry itself gives them, which is what the builder works with.
func c17Width(name string) int {
	ref := spec.OXMByName(name)
	if ref == nil {
		return 0
	}
	if ref.Width != 0 {
		return ref.Width
	}
	if strings.HasPrefix(name, "NXM_NX_TUN_METADATA") {
		if f, err := of.FindFieldHeaderByName(name, false); err == nil && f.Length >= 1 && f.Length <= 124 {
			return int(f.Length)
		}
	}
	return 0
}

func c17Others() []string {
	var out []string
	for _, n := range c17FixedNames() {
		if !strings.HasPrefix(n, "NXM_NX_REG") {
			out = append(out, n)
		}
	}
	return out
}

func init() {
	fw.Register(&fw.Prop{
		ID:   "C17",
		Rule: "reg: for each of the 16 32-bit registers, all 528 windows x values {0, 1, 2^n-1, 2^n-2, alternating, PRNG} and out-of-range {2^n, 2^n+1, -1} x calling conventions (offset,width), (offset,width,1), (offset,width,0), compared with the big-integer model and with NewRegMatchField; field: every other registered fixed-width name x edge windows, PRNG windows and windows beyond the field (incl. negative offset/width) x the same values, x no-mask and one-argument conventions, value types int8..uint64, *big.Int, []byte, net.IP, net.HardwareAddr chosen by PRNG. distinct = hash(name, type, value, convention, window); non-trivial = value != 0 or a window given",
		NumCases: func(tier string, seed uint64) int {
			return 16*32 + len(c17Others())*c17Rounds(tier)
		},
		Gen: func(tier string, seed uint64, i int) any {
			if i < 512 {
				return &c17Case{Family: "reg", Name: fmt.Sprintf("NXM_NX_REG%d", i/32), Lo: i % 32, Hi: i%32 + 1}
			}
			i -= 512
			o := c17Others()
			return &c17Case{Family: "field", Name: o[i%len(o)], Lo: i / len(o)}
		},
		NewCase: func() any { return new(c17Case) },
		Eval:    c17Eval,
		Minimum: func(a *fw.Agg) error {
			if a.Counters["reg_windows"] != 16*528 {
				return fmt.Errorf("expected %d register windows, observed %d", 16*528, a.Counters["reg_windows"])
			}
			if a.SetSize("window_types") < len(c17WinTypes) {
				return fmt.Errorf("window arguments were passed in %d of %d integer types", a.SetSize("window_types"), len(c17WinTypes))
			}
			if a.SetSize("fields") < 100 || a.Counters["unrepresentable"] < 1000 || a.Counters["representable"] < 10000 {
				return fmt.Errorf("too few observations: fields=%d %v", a.SetSize("fields"), a.Counters)
			}
			return nil
		},
		Assumptions: []string{
			"model: representable <=> v >= 0 and v < 2^n and offset+n <= 8W (no window: v < 2^(8W)); for the (offset,width,0) convention representable <=> v has no bit outside the window; value bytes = W-byte big-endian of v<<offset (v unshifted for ...,0), mask bytes = (2^n-1)<<offset",
			"the one-argument convention's window is not defined by the property: only no-panic, value within mask, sizes = W and value = v<<offset are checked for it",
			"field widths W come from the reference table (SPEC_NOTES.md section D); variable-width tunnel metadata is excluded",
		},
	})
}

func c17Rounds(tier string) int {
	if tier == "thorough" {
		return 40
	}
	return 3
}

// c17Call instantiates the generic builder for the dynamic value type.
func c17Call(name string, v any, win []int) (f *of.MatchField, err error) {
	mt := c17WinType(name, v, win)
	c17LastWinType = mt
	switch x := v.(type) {
	case int8:
		return c17CallV(name, x, win, mt)
	case int16:
		return c17CallV(name, x, win, mt)
	case int32:
		return c17CallV(name, x, win, mt)
	case int64:
		return c17CallV(name, x, win, mt)
	case int:
		return c17CallV(name, x, win, mt)
	case uint8:
		return c17CallV(name, x, win, mt)
	case uint16:
		return c17CallV(name, x, win, mt)
	case uint32:
		return c17CallV(name, x, win, mt)
	case uint64:
		return c17CallV(name, x, win, mt)
	case uint:
		return c17CallV(name, x, win, mt)
	case uintptr:
		return c17CallV(name, x, win, mt)
	case c17Int16:
		return c17CallV(name, x, win, mt)
	case c17Bytes:
		return c17CallV(name, x, win, mt)
	case *big.Int:
		return c17CallV(name, x, win, mt)
	case []byte:
		return c17CallV(name, x, win, mt)
	case net.IP:
		return c17CallV(name, x, win, mt)
	case net.HardwareAddr:
		return c17CallV(name, x, win, mt)
	}
	return nil, fmt.Errorf("harness: unsupported value type %T", v)
}

// c17WinTypes are the integer types a caller may pass the window arguments in (the builder is generic in them).
var c17WinTypes = []string{"int", "int64", "int8", "uint8", "int16", "uint16", "int32", "uint32", "uint64", "uint"}

// c17LastWinType is the window-argument type the last c17Call used (for evidence and violation texts).
var c17LastWinType string

// c17WinType picks, as a pure function of the call, one of the integer types that can hold every window argument.
func c17WinType(name string, v any, win []int) string {
	fits := func(t string) bool {
		for _, w := range win {
			switch t {
			case "int8":
				if w < -128 || w > 127 {
					return false
				}
			case "uint8":
				if w < 0 || w > 255 {
					return false
				}
			case "int16":
				if w < -32768 || w > 32767 {
					return false
				}
			case "uint16":
				if w < 0 || w > 65535 {
					return false
				}
			case "int32":
				if w < -1<<31 || w > 1<<31-1 {
					return false
				}
			case "uint32":
				if w < 0 || w > 1<<32-1 {
					return false
				}
			case "uint64", "uint":
				if w < 0 {
					return false
				}
			}
		}
		return true
	}
	h := prng.Hash64([]byte(fmt.Sprintf("%s/%T/%s/%v", name, v, c17Snapshot(v), win)))
	for i := 0; i < len(c17WinTypes); i++ {
		t := c17WinTypes[(int(h%uint64(len(c17WinTypes)))+i)%len(c17WinTypes)]
		if fits(t) {
			return t
		}
	}
	return "int"
}

func c17CallV[V constraints.Integer | *big.Int | ~[]byte](name string, x V, win []int, mt string) (*of.MatchField, error) {
	switch mt {
	case "int64":
		return c17CallVM[V, int64](name, x, win)
	case "int8":
		return c17CallVM[V, int8](name, x, win)
	case "uint8":
		return c17CallVM[V, uint8](name, x, win)
	case "int16":
		return c17CallVM[V, int16](name, x, win)
	case "uint16":
		return c17CallVM[V, uint16](name, x, win)
	case "int32":
		return c17CallVM[V, int32](name, x, win)
	case "uint32":
		return c17CallVM[V, uint32](name, x, win)
	case "uint64":
		return c17CallVM[V, uint64](name, x, win)
	case "uint":
		return c17CallVM[V, uint](name, x, win)
	}
	return c17CallVM[V, int](name, x, win)
}

// c17CallVM instantiates the generic builder for value type V and window-argument type M. The caller spreads a
// sub-slice of a longer slice: the builder must not write behind the arguments it was given (c17Spare sits there).
func c17CallVM[V constraints.Integer | *big.Int | ~[]byte, M constraints.Integer](name string, x V, win []int) (f *of.MatchField, err error) {
	var spare M = 77
	backing := make([]M, len(win), len(win)+3)
	for i := range win {
		backing[i] = M(win[i])
	}
	full := backing[:len(win)+3]
	full[len(win)], full[len(win)+1], full[len(win)+2] = spare, spare, spare
	before := append([]M(nil), backing...)
	defer func() {
		if full[len(win)] != spare || full[len(win)+1] != spare || full[len(win)+2] != spare {
			c17SpareDamage = fmt.Sprintf("window arguments %v were spread from a slice with spare capacity; afterwards the elements behind them read %v", win, full[len(win):])
		}
		for i := range before {
			if backing[i] != before[i] {
				c17SpareDamage = fmt.Sprintf("window arguments %v read %v after the call", before, backing)
			}
		}
	}()
	return of.NewMatchField[V, M](name, x, backing...)
}

type c17KeptArg struct {
	val  any
	snap string
	vt   string
	call string
}

var c17Kept = func() []*c17KeptArg {
	k := make([]*c17KeptArg, 12)
	for i := range k {
		k[i] = &c17KeptArg{val: 0, snap: "0"}
	}
	return k
}()
var c17KeptNext int

// c17SpareDamage is set by c17Call when the builder wrote behind its window arguments.
var c17SpareDamage string

var c17Types = []string{"int8", "int16", "int32", "int64", "int", "uint8", "uint16", "uint32", "uint64", "big", "bytes", "ip", "mac", "uint", "uintptr", "named-int16", "named-bytes"}

// types of the caller's own that satisfy the builder's constraints (~int16, ~[]byte)
type c17Int16 int16
type c17Bytes []byte

// c17Make builds a value of type vt holding v, or ok=false if the type cannot hold it.
func c17Make(vt string, v *big.Int) (val any, ok bool) {
	fitsS := func(bits uint) bool {
		lim := new(big.Int).Lsh(big.NewInt(1), bits-1)
		return v.Cmp(lim) < 0 && v.Cmp(new(big.Int).Neg(lim)) >= 0
	}
	fitsU := func(bits uint) bool {
		return v.Sign() >= 0 && v.BitLen() <= int(bits)
	}
	switch vt {
	case "int8":
		if fitsS(8) {
			return int8(v.Int64()), true
		}
	case "int16":
		if fitsS(16) {
			return int16(v.Int64()), true
		}
	case "int32":
		if fitsS(32) {
			return int32(v.Int64()), true
		}
	case "int64":
		if fitsS(64) {
			return v.Int64(), true
		}
	case "int":
		if fitsS(64) {
			return int(v.Int64()), true
		}
	case "uint8":
		if fitsU(8) {
			return uint8(v.Uint64()), true
		}
	case "uint16":
		if fitsU(16) {
			return uint16(v.Uint64()), true
		}
	case "uint32":
		if fitsU(32) {
			return uint32(v.Uint64()), true
		}
	case "uint64":
		if fitsU(64) {
			return v.Uint64(), true
		}
	case "uint":
		if fitsU(64) {
			return uint(v.Uint64()), true
		}
	case "uintptr":
		if fitsU(64) {
			return uintptr(v.Uint64()), true
		}
	case "named-int16":
		if fitsS(16) {
			return c17Int16(v.Int64()), true
		}
	case "named-bytes":
		if v.Sign() >= 0 {
			return c17Bytes(v.Bytes()), true
		}
	case "big":
		return new(big.Int).Set(v), true
	case "bytes":
		if v.Sign() >= 0 {
			b := v.Bytes()
			if v.BitLen()%16 < 8 { // sometimes with a leading zero byte
				b = append([]byte{0}, b...)
			}
			return b, true
		}
	case "ip":
		if v.Sign() >= 0 && v.BitLen() <= 128 {
			n := 4
			if v.BitLen() > 32 {
				n = 16
			}
			b := make([]byte, n)
			v.FillBytes(b)
			return net.IP(b), true
		}
	case "mac":
		if v.Sign() >= 0 && v.BitLen() <= 48 {
			b := make([]byte, 6)
			v.FillBytes(b)
			return net.HardwareAddr(b), true
		}
	}
	return nil, false
}

// c17Text: decimal for ordinary values, hexadecimal for very wide ones (decimal conversion of a 64 KiB number is slow).
func c17Text(v *big.Int) string {
	if v.BitLen() > 512 {
		return "0x" + v.Text(16)
	}
	return v.String()
}

func c17Snapshot(v any) string {
	switch x := v.(type) {
	case *big.Int:
		if x.BitLen() > 512 { // cheap fingerprint of very wide values
			return fmt.Sprintf("big:%d:%d:%016x", x.Sign(), x.BitLen(), prng.Hash64(x.Bytes()))
		}
		return x.String()
	case []byte:
		if len(x) > 64 {
			return fmt.Sprintf("bytes:%d:%016x", len(x), prng.Hash64(x))
		}
		return fmt.Sprintf("%x", x)
	case c17Bytes:
		if len(x) > 64 {
			return fmt.Sprintf("bytes:%d:%016x", len(x), prng.Hash64(x))
		}
		return fmt.Sprintf("%x", []byte(x))
	case net.IP:
		return fmt.Sprintf("%x", []byte(x))
	case net.HardwareAddr:
		return fmt.Sprintf("%x", []byte(x))
	}
	return fmt.Sprint(v)
}

// c17One evaluates one call against the model.
func c17One(c *fw.Ctx, name string, W int, vt string, v *big.Int, conv string, ofs, n int) {
	val, ok := c17Make(vt, v)
	if !ok {
		// pick a type that can hold it
		vt = "big"
		val, _ = c17Make(vt, v)
	}
	var win []int
	switch conv {
	case "nomask":
	case "1arg":
		win = []int{ofs}
	case "2arg":
		win = []int{ofs, n}
	case "3arg1":
		win = []int{ofs, n, 1}
	case "3arg0":
		win = []int{ofs, n, 0}
	}
	c.Distinct(prng.Hash64([]byte(fmt.Sprintf("%s/%s/%s/%s/%d/%d", name, vt, c17Text(v), conv, ofs, n))), v.Sign() != 0 || conv != "nomask")
	c.Set("fields", name)
	c.Set("value_types", vt)
	c.Set("conventions", conv)
	locus := fmt.Sprintf("W=%d/%s", W, vt)
	detail := func(s string) string {
		return fmt.Sprintf("NewMatchField(%q, %s(%s), %s%v): %s", name, vt, c17Text(v), c17LastWinType, win, s)
	}
	before := c17Snapshot(val)
	var f *of.MatchField
	var err error
	c17SpareDamage = ""
	p, pv, st := fw.Recover(func() { f, err = c17Call(name, val, win) })
	if len(win) > 0 {
		c.Set("window_types", c17LastWinType)
	}
	if c17SpareDamage != "" {
		c.Violation(conv, "argument-modified", "window-arguments", detail(c17SpareDamage))
	}
	if p {
		c.Violation(conv, "panic", locus, detail("panic: "+pv+"\n"+fw.TrimStack(st)))
		return
	}
	if after := c17Snapshot(val); after != before {
		c.Violation(conv, "argument-modified", locus, detail(fmt.Sprintf("caller's value changed from %s to %s", before, after)))
	}
	// the caller keeps its arguments: what it passed to earlier calls must still read the same after later, unrelated calls
	for _, k := range c17Kept {
		if now := c17Snapshot(k.val); now != k.snap {
			c.Violation(conv, "argument-modified", "earlier-argument", detail(fmt.Sprintf("the %s the caller had passed to an earlier call (%s) read %s then and reads %s after this call", k.vt, k.call, k.snap, now)))
			k.snap = now
		}
	}
	switch val.(type) {
	case *big.Int, []byte, c17Bytes, net.IP, net.HardwareAddr:
		c17Kept[c17KeptNext%len(c17Kept)] = &c17KeptArg{val: val, snap: before, vt: vt, call: fmt.Sprintf("NewMatchField(%q, ..., %v)", name, win)}
		c17KeptNext++
	}
	bits := 8 * W
	fieldMax := new(big.Int).Lsh(big.NewInt(1), uint(bits))
	// model
	var rep bool
	var wantVal, wantMask *big.Int
	switch conv {
	case "nomask":
		rep = v.Sign() >= 0 && v.Cmp(fieldMax) < 0
		wantVal = v
	case "2arg", "3arg1":
		if ofs >= 0 && n >= 1 && ofs+n <= bits && v.Sign() >= 0 && v.BitLen() <= n {
			rep = true
			wantVal = new(big.Int).Lsh(v, uint(ofs))
			wantMask = new(big.Int).Lsh(new(big.Int).Sub(new(big.Int).Lsh(big.NewInt(1), uint(n)), big.NewInt(1)), uint(ofs))
		}
	case "3arg0":
		if ofs >= 0 && n >= 1 && ofs+n <= bits && v.Sign() >= 0 {
			m := new(big.Int).Lsh(new(big.Int).Sub(new(big.Int).Lsh(big.NewInt(1), uint(n)), big.NewInt(1)), uint(ofs))
			if new(big.Int).AndNot(v, m).Sign() == 0 {
				rep = true
				wantVal = v
				wantMask = m
			}
		}
	case "1arg":
		// safety clauses only
		if err != nil {
			c.Count("onearg_errors", 1)
			return
		}
		c.Count("onearg_ok", 1)
		vb, mb, okb := c17Parts(f, W, true)
		if !okb {
			c.Violation(conv, "size", locus, detail(fmt.Sprintf("value/mask sizes are not %d bytes each: %+v", W, f)))
			return
		}
		gv, gm := new(big.Int).SetBytes(vb), new(big.Int).SetBytes(mb)
		if new(big.Int).AndNot(gv, gm).Sign() != 0 {
			c.Violation(conv, "value-outside-mask", locus, detail(fmt.Sprintf("value %x has bits outside mask %x", vb, mb)))
		}
		if ofs >= 0 && v.Sign() >= 0 {
			if want := new(big.Int).Lsh(v, uint(ofs)); gv.Cmp(want) != 0 {
				c.Violation(conv, "value", locus, detail(fmt.Sprintf("value bytes %x, want v<<offset = %x", vb, want)))
			}
		}
		return
	}
	if !rep {
		c.Count("unrepresentable", 1)
		if err == nil {
			c.Violation(conv, "no-error", locus, detail(fmt.Sprintf("unrepresentable input accepted: field %s", c17Show(f))))
		}
		return
	}
	c.Count("representable", 1)
	if err != nil || f == nil {
		c.Violation(conv, "unexpected-error", locus, detail(fmt.Sprintf("representable input rejected: %v", err)))
		return
	}
	masked := conv != "nomask"
	vb, mb, okb := c17Parts(f, W, masked)
	if !okb {
		c.Violation(conv, "size", locus, detail(fmt.Sprintf("value/mask sizes are not %d bytes: %s", W, c17Show(f))))
		return
	}
	wantLen := W
	if masked {
		wantLen = 2 * W
	}
	if f.HasMask != masked || int(f.Length) != wantLen {
		c.Violation(conv, "header", locus, detail(fmt.Sprintf("HasMask=%v Length=%d, want %v and %d", f.HasMask, f.Length, masked, wantLen)))
	}
	wv := make([]byte, W)
	wantVal.FillBytes(wv)
	if !bytes.Equal(vb, wv) {
		c.Violation(conv, "value", locus, detail(fmt.Sprintf("value bytes %x, want %x", vb, wv)))
	}
	if masked {
		wm := make([]byte, W)
		wantMask.FillBytes(wm)
		if !bytes.Equal(mb, wm) {
			c.Violation(conv, "mask", locus, detail(fmt.Sprintf("mask bytes %x, want %x", mb, wm)))
		}
	}
	// whole encoding: header word + value (+ mask)
	enc, eerr := f.MarshalBinary()
	ref := spec.OXMByName(name)
	if eerr != nil || ref == nil || len(enc) != 4+wantLen {
		c.Violation(conv, "encoding", locus, detail(fmt.Sprintf("encoding %x err %v, want %d bytes", enc, eerr, 4+wantLen)))
		return
	}
	hm := byte(0)
	if masked {
		hm = 1
	}
	wantHdr := []byte{byte(ref.Class >> 8), byte(ref.Class), ref.Field<<1 | hm, byte(wantLen)}
	if !bytes.Equal(enc[:4], wantHdr) {
		c.Violation(conv, "header", locus, detail(fmt.Sprintf("encoded header %x, want %x", enc[:4], wantHdr)))
	}
	// registers: same bytes as the dedicated constructor
	if masked && strings.HasPrefix(name, "NXM_NX_REG") && (conv == "2arg" || conv == "3arg1") {
		var idx int
		fmt.Sscanf(name, "NXM_NX_REG%d", &idx)
		rf := of.NewRegMatchField(idx, uint32(wantVal.Uint64()), of.NewNXRangeByOfsNBits(ofs, n))
		renc, _ := rf.MarshalBinary()
		if !bytes.Equal(renc, enc) {
			c.Violation(conv, "reg-mismatch", locus, detail(fmt.Sprintf("encodes to %x but NewRegMatchField(%d, %#x, range(%d,%d)) encodes to %x", enc, idx, wantVal.Uint64(), ofs, n, renc)))
		}
		c.Count("reg_compared", 1)
	}
	if c.WantSample() && masked && v.BitLen() > 3 {
		c.Sample(map[string]any{"name": name, "type": vt, "value": v.String(), "window": win, "encoding": fmt.Sprintf("%x", enc)})
	}
}

func c17Show(f *of.MatchField) string {
	if f == nil {
		return "<nil>"
	}
	b, err := f.MarshalBinary()
	return fmt.Sprintf("encoding %x (err %v) HasMask=%v Length=%d", b, err, f.HasMask, f.Length)
}

// c17Parts returns the value and mask bytes as encoded by the field's own Value/Mask encoders.
func c17Parts(f *of.MatchField, W int, masked bool) (vb, mb []byte, ok bool) {
	if f == nil || f.Value == nil {
		return nil, nil, false
	}
	vb, err := f.Value.MarshalBinary()
	if err != nil || len(vb) != W || int(f.Value.Len()) != W {
		return vb, nil, false
	}
	if masked {
		if f.Mask == nil {
			return vb, nil, false
		}
		mb, err = f.Mask.MarshalBinary()
		if err != nil || len(mb) != W || int(f.Mask.Len()) != W {
			return vb, mb, false
		}
	}
	return vb, mb, true
}

func c17Values(r *prng.R, n int) []*big.Int {
	if n < 1 {
		n = 1
	}
	one := big.NewInt(1)
	pow := new(big.Int).Lsh(one, uint(n))
	alt := new(big.Int)
	for i := 0; i < n; i += 2 {
		alt.SetBit(alt, i, 1)
	}
	rnd := new(big.Int).SetBytes(r.Bytes((n + 7) / 8))
	rnd.And(rnd, new(big.Int).Sub(pow, one))
	vals := []*big.Int{
		big.NewInt(0), big.NewInt(1),
		new(big.Int).Sub(pow, one),
		alt, rnd,
		// out of range
		new(big.Int).Set(pow), new(big.Int).Add(pow, one), big.NewInt(-1),
	}
	if n >= 2 {
		vals = append(vals, new(big.Int).Sub(pow, big.NewInt(2)))
	}
	return vals
}

func c17Eval(c *fw.Ctx, data any) {
	cs := data.(*c17Case)
	if cs.Conv == "" {
		apiNoise(prng.Derive(c.Seed, 1718, uint64(c.Index)), 20) // other use of the library first
	}
	W := c17Width(cs.Name)
	if W == 0 {
		c.Inconclusive("field " + cs.Name + " not in the reference table")
		return
	}
	if cs.Conv != "" { // single item
		v, ok := new(big.Int).SetString(cs.Value, 10)
		if !ok {
			v = big.NewInt(0)
		}
		c17One(c, cs.Name, W, cs.VType, v, cs.Conv, cs.Ofs, cs.N)
		return
	}
	switch cs.Family {
	case "reg":
		for first := cs.Lo; first < cs.Hi; first++ {
			for last := first; last < 32; last++ {
				n := last - first + 1
				c.Count("reg_windows", 1)
				r := prng.Derive(c.Seed, 17, uint64(first), uint64(last), prng.Hash64([]byte(cs.Name)))
				for vi, v := range c17Values(r, n) {
					for ci, conv := range []string{"2arg", "3arg1", "3arg0"} {
						vt := c17Types[(first+last+vi+ci)%len(c17Types)]
						vv := v
						if conv == "3arg0" && v.Sign() >= 0 && vi%2 == 0 {
							vv = new(big.Int).Lsh(v, uint(first)) // already placed: representable iff it fits the window
						}
						c17One(c, cs.Name, W, vt, vv, conv, first, n)
					}
				}
			}
		}
	case "field":
		r := prng.Derive(c.Seed, 1717, uint64(cs.Lo), prng.Hash64([]byte(cs.Name)))
		bits := 8 * W
		type win struct{ ofs, n int }
		wins := []win{{0, 1}, {0, bits}, {bits - 1, 1}, {0, bits - 1}, {1, bits - 1}, {bits / 2, bits / 2}}
		for i := 0; i < 8; i++ {
			o := r.Intn(bits)
			wins = append(wins, win{o, r.Range(1, bits-o)})
		}
		// windows beyond the field
		wins = append(wins, win{0, bits + 1}, win{bits, 1}, win{1, bits}, win{bits + 8, 8}, win{bits - 1, 2}, win{-1, 4}, win{4, -1}, win{r.Range(bits, 600), r.Range(1, 64)})
		for _, w := range wins {
			if w.n == 0 {
				continue
			}
			nv := w.n
			if nv < 1 || nv > 130 {
				nv = 8
			}
			for vi, v := range c17Values(r, nv) {
				for ci, conv := range []string{"2arg", "3arg1", "3arg0"} {
					if (vi+ci+cs.Lo)%3 != 0 && w.ofs+w.n <= bits && w.ofs >= 0 && w.n > 0 {
						continue // thin out in-range combinations, keep all beyond-field ones
					}
					vt := c17Types[r.Intn(len(c17Types))]
					c17One(c, cs.Name, W, vt, v, conv, w.ofs, w.n)
				}
			}
		}
		// no window
		for vi, v := range c17Values(r, bits) {
			c17One(c, cs.Name, W, c17Types[(vi+cs.Lo)%len(c17Types)], v, "nomask", 0, 0)
		}
		// one-argument convention: safety only
		for _, o := range []int{0, 1, bits / 2, bits - 1, bits, bits + 3, -1} {
			for _, v := range c17Values(r, 5) {
				c17One(c, cs.Name, W, c17Types[r.Intn(len(c17Types))], v, "1arg", o, 0)
			}
		}
		// very wide values: byte counts around the multiples of 256 (where an 8-bit byte count wraps) and beyond 64 KiB
		rw := prng.Derive(c.Seed, 1719, uint64(cs.Lo), prng.Hash64([]byte(cs.Name)))
		for _, L := range []int{255, 256, 257, 256 + W - 1, 256 + W, 256 + W + 1, 511, 512, 512 + W, 1024 + rw.Intn(W+2), 65536 + rw.Intn(W+2)} {
			b := rw.Bytes(L)
			b[0] |= 1
			if rw.Bool() { // all zero behind the first byte: the bytes that remain after a wrapped count look harmless
				for i := 1; i < len(b); i++ {
					b[i] = 0
				}
			}
			v := new(big.Int).SetBytes(b)
			vt := []string{"bytes", "big", "named-bytes"}[rw.Intn(3)]
			switch rw.Intn(4) {
			case 0:
				c17One(c, cs.Name, W, vt, v, "nomask", 0, 0)
			case 1:
				c17One(c, cs.Name, W, vt, v, "1arg", 0, 0)
			case 2:
				c17One(c, cs.Name, W, vt, v, "2arg", 0, bits)
			default:
				c17One(c, cs.Name, W, vt, v, "3arg0", 0, bits)
			}
			c.Count("very_wide_values", 1)
		}
	}
}
