package props

import (
	"bytes"
	"fmt"

	"github.com/contiv/libOpenflow/common"
	of "github.com/contiv/libOpenflow/openflow13"
	"github.com/contiv/libOpenflow/util"

	"vh/fw"
	"vh/gen"
	"vh/lib"
	"vh/prng"
	"vh/rec"
	"vh/spec"
)

// C05 — library round trip: dec(enc(v)) has the same kind and field values, enc(dec(enc(v))) == enc(v), and the
// decoded value reports the extent it occupied; alone, inside mixed lists, and through the parser entry point.

type c05Case struct {
	Mode   string   `json:"mode"` // ctrl | switch | action | instruction | bucket | match | field | mpbody
	Recipe *rec.Rec `json:"recipe"`
	Tail   string   `json:"tail,omitempty"` // hex bytes appended after an element (it must decode the same)
}

func init() {
	fw.Register(&fw.Prop{
		ID:       "C05",
		Rule:     "two-way kinds only (fields and actions the library has a decoder case for). ctrl/switch: whole messages built through the API, encoded, decoded through the parser entry point (kinds the parser does not dispatch are decoded into a constructor-made value), re-encoded; element modes: every action kind, instruction kind, bucket, match, match field (every constructor, with/without mask) and multipart request body encoded alone and also followed by trailing bytes of other elements, decoded by the dispatcher the library uses for that kind. Oracle: same dynamic kind and exported field values (extractor trees equal), byte-equal re-encoding, decoded value's Len() == bytes occupied. distinct = hash(mode, recipe without xid); non-trivial = every case with at least one non-default field (all generated cases)",
		NumCases: func(tier string, seed uint64) int { return nCases(tier, 300000, 16000000) },
		Gen:      c05Gen,
		NewCase:  func() any { return new(c05Case) },
		Eval:     c05Eval,
		Minimum: func(a *fw.Agg) error {
			if a.Counters["roundtrip_ok"] < 1000 || a.SetSize("kinds") < 60 {
				return fmt.Errorf("too few observations: ok=%d kinds=%d", a.Counters["roundtrip_ok"], a.SetSize("kinds"))
			}
			return needKinds(a, "kinds", "switch", "ctrl")
		},
		Assumptions: []string{
			"field values are compared through the extractor trees (exported fields, unexported ones by reflection); representation-only differences are normalised: 4- vs 16-byte net.IP, nil vs empty slice, note padded with zeros to the encoded size",
			"decoding runs under the totality guard (a hang or runaway allocation is reported, the worker restarted)",
		},
	})
}

func c05Gen(tier string, seed uint64, i int) any {
	r := prng.Derive(seed, 5, uint64(i))
	ao := gen.ActOpt{DecodableOnly: true}
	tail := func() string {
		if r.Bool() {
			return ""
		}
		// trailing bytes that look like the start of another action
		return fmt.Sprintf("%x", append([]byte{0, 0, 0, 16}, r.Bytes(r.Pick(4, 12, 20))...))
	}
	if i%satEvery == satEvery-1 { // a list filled up to the frame limit
		if k := i / satEvery; k%2 == 0 {
			return &c05Case{Mode: "ctrl", Recipe: gen.SaturatedController(r, k/2)}
		} else {
			return &c05Case{Mode: "switch", Recipe: gen.SaturatedSwitch(r, k/2)}
		}
	}
	switch i % 10 {
	case 0, 1:
		kind := gen.ControllerKinds[(i/10)%len(gen.ControllerKinds)]
		if i%20 == 1 {
			kind = []string{"flow_mod", "group_mod", "packet_out", "bundle_add"}[(i/20)%4]
		}
		return &c05Case{Mode: "ctrl", Recipe: gen.ControllerMessage(r, kind, gen.MsgOpt{DecodableOnly: true, NoTyped: true})}
	case 2, 3:
		m := gen.SwitchMessage(r, gen.SwitchKinds[(i/10)%len(gen.SwitchKinds)])
		if m.K == "features_reply" { // the library's SwitchFeatures carries a trailing port list (not on an OpenFlow 1.3 wire): round trip it too
			for n := r.Pick(0, 1, 2, 3, 5); n > 0; n-- {
				m.Add("ports", gen.Port(r))
			}
		}
		return &c05Case{Mode: "switch", Recipe: m}
	case 4, 5:
		ks := gen.ActionKinds()
		return &c05Case{Mode: "action", Recipe: gen.ActionOfKind(r, ks[(i/10)%len(ks)], ao), Tail: tail()}
	case 6:
		return &c05Case{Mode: "instruction", Recipe: gen.Instruction(r, ao, 8), Tail: tail()}
	case 7:
		if r.Bool() {
			return &c05Case{Mode: "bucket", Recipe: gen.Bucket(r, ao, 6), Tail: tail()}
		}
		return &c05Case{Mode: "match", Recipe: gen.Match(r, 12, gen.MFOpt{DecodableOnly: true}), Tail: tail()}
	case 8:
		return &c05Case{Mode: "field", Recipe: gen.MatchField(r, gen.MFOpt{DecodableOnly: true}), Tail: tail()}
	default:
		m := gen.ControllerMessage(r, "mp_request", gen.MsgOpt{DecodableOnly: true})
		b := m.Sub("body")
		if b == nil {
			b = rec.New("port_stats_request").Set("port_no", r.Bits(16))
		}
		return &c05Case{Mode: "mpbody", Recipe: b}
	}
}

// decodeTop decodes a whole message the way a user would: through Parse, or for kinds Parse does not dispatch into a
// constructor-made value.
func decodeTop(kind string, b []byte) (util.Message, error) {
	switch kind {
	case "packet_out":
		p := of.NewPacketOut()
		return p, p.UnmarshalBinary(b)
	case "group_mod":
		g := of.NewGroupMod()
		return g, g.UnmarshalBinary(b)
	case "port_mod":
		p := of.NewPortMod(0)
		return p, p.UnmarshalBinary(b)
	}
	return of.Parse(b)
}

func c05Eval(c *fw.Ctx, data any) {
	cs := data.(*c05Case)
	m := cs.Recipe
	if m == nil {
		return
	}
	c.Distinct(prng.Hash64(append([]byte(cs.Mode+cs.Tail), fmt.Sprint(hashNoXid(m))...)), true)
	kind := cs.Mode + ":" + kindOf(m)
	if cs.Mode == "field" || cs.Mode == "action" || cs.Mode == "instruction" {
		kind = cs.Mode + ":" + elemName(m)
	}
	c.Set("kinds", kind)
	_, nested := countNested(m)
	for k := range nested {
		c.Set("kinds", "nested:"+k)
	}
	var tail []byte
	fmt.Sscanf(cs.Tail, "%x", &tail)

	var v util.Message
	var enc []byte
	var extract func(util.Message) (*rec.Rec, error)
	var decode func([]byte) (util.Message, error)
	var berr error
	p, pv, st := fw.Recover(func() {
		switch cs.Mode {
		case "ctrl":
			v, berr = lib.BuildMessage(m)
			extract = lib.ExtractMessage
			decode = func(b []byte) (util.Message, error) { return decodeTop(m.K, b) }
		case "switch":
			mm := m
			if m.K == "packet_in" && m.Sub("packet") == nil {
				berr = fmt.Errorf("skip")
				return
			}
			v, berr = lib.BuildSwitchMessage(mm)
			extract = lib.ExtractMessage
			decode = func(b []byte) (util.Message, error) { return of.Parse(b) }
		case "action":
			var a of.Action
			a, berr = lib.BuildAction(m)
			v = a
			extract = func(x util.Message) (*rec.Rec, error) {
				a, ok := x.(of.Action)
				if !ok {
					return nil, fmt.Errorf("%T is not an action", x)
				}
				return lib.ExtractAction(a)
			}
			decode = func(b []byte) (util.Message, error) { return of.DecodeAction(b) }
		case "instruction":
			var in of.Instruction
			in, berr = lib.BuildInstruction(m)
			v = in
			extract = func(x util.Message) (*rec.Rec, error) {
				in, ok := x.(of.Instruction)
				if !ok {
					return nil, fmt.Errorf("%T is not an instruction", x)
				}
				return lib.ExtractInstruction(in)
			}
			decode = func(b []byte) (util.Message, error) { return of.DecodeInstr(b), nil }
		case "bucket":
			var bk *of.Bucket
			bk, berr = lib.BuildBucket(m)
			v = bk
			extract = func(x util.Message) (*rec.Rec, error) { return lib.ExtractBucket(x.(*of.Bucket)) }
			decode = func(b []byte) (util.Message, error) { n := new(of.Bucket); return n, n.UnmarshalBinary(b) }
		case "match":
			mt := of.NewMatch()
			berr = lib.BuildMatch(m, mt)
			v = mt
			extract = func(x util.Message) (*rec.Rec, error) { return lib.ExtractMatch(x.(*of.Match)) }
			decode = func(b []byte) (util.Message, error) { n := new(of.Match); return n, n.UnmarshalBinary(b) }
		case "field":
			var f *of.MatchField
			f, berr = lib.BuildMatchField(m)
			v = f
			extract = func(x util.Message) (*rec.Rec, error) { return lib.ExtractMatchField(x.(*of.MatchField)) }
			decode = func(b []byte) (util.Message, error) { n := new(of.MatchField); return n, n.UnmarshalBinary(b) }
		case "mpbody":
			mm := rec.New("mp_request").Set("type", map[string]uint64{"flow_stats_request": 1, "aggregate_stats_request": 2, "port_stats_request": 4, "queue_stats_request": 5}[m.K]).SetS("body", m)
			var msg util.Message
			msg, berr = lib.BuildMessage(mm)
			if berr == nil {
				v = msg.(*of.MultipartRequest).Body
			}
			extract = lib.ExtractMPBody
			decode = func(b []byte) (util.Message, error) {
				var n util.Message
				switch m.K {
				case "flow_stats_request":
					n = of.NewFlowStatsRequest()
				case "aggregate_stats_request":
					n = of.NewAggregateStatsRequest()
				case "port_stats_request":
					n = of.NewPortStatsRequest()
				default:
					n = of.NewQueueStatsRequest()
				}
				return n, n.UnmarshalBinary(b)
			}
		}
		if berr == nil {
			enc, berr = v.MarshalBinary()
		}
	})
	if p {
		c.Violation(kind, "panic", "encode:"+fw.LibFrame(st), pv+"\n"+fw.TrimStack(st))
		return
	}
	if berr != nil {
		if berr.Error() != "skip" {
			c.Violation(kind, "build-error", "builder", berr.Error())
		}
		return
	}
	enc = append([]byte(nil), enc...)
	input := append(append([]byte(nil), enc...), tail...)
	var v2 util.Message
	var derr error
	verdict := fw.Guard(len(input), func() { v2, derr = decode(input) })
	switch verdict.Class {
	case "panic":
		c.Violation(kind, "panic", "decode:"+fw.LibFrame(verdict.Stack), fmt.Sprintf("%s\n%s\ninput: %s", verdict.Panic, fw.TrimStack(verdict.Stack), hexHead(input)))
		return
	case "cpu", "alloc":
		c.Violation(kind, "hang", "decode:"+verdict.Class, fmt.Sprintf("decoder exceeded its %s budget (cpu %v, allocated %d bytes) on %s", verdict.Class, verdict.CPU, verdict.Alloc, hexHead(input)))
		c.Poison()
		return
	}
	if derr != nil {
		c.Violation(kind, "decode-error", "error", fmt.Sprintf("decoding the library's own encoding failed: %v\ninput: %s", derr, hexHead(input)))
		return
	}
	if isNil(v2) {
		c.Violation(kind, "no-value", "nil", "decoder returned neither a value nor an error for "+hexHead(input))
		return
	}
	ok := true
	var r1, r2 *rec.Rec
	var e1, e2 error
	var enc2 []byte
	var len2 int
	p, pv, st = fw.Recover(func() {
		r1, e1 = extract(v)
		r2, e2 = extract(v2)
		if e2 == nil {
			len2 = int(v2.Len())
			enc2, _ = v2.MarshalBinary()
		}
	})
	if p {
		c.Violation(kind, "panic", "reencode:"+fw.LibFrame(st), pv+"\n"+fw.TrimStack(st))
		return
	}
	if e1 != nil {
		c.Inconclusive("extractor on the built value: " + e1.Error())
		return
	}
	if e2 != nil {
		c.Violation(kind, "wrong-kind", "extract", fmt.Sprintf("decoded value of type %T cannot be read as %s: %v", v2, m.K, e2))
		return
	}
	for _, d := range rec.DiffAll(spec.Canon(r1), spec.Canon(r2), 8) {
		ok = false
		c.Violation(kind, "roundtrip", locusOf(r1, d.Path), fmt.Sprintf("field %s: built vs decoded: %s\nencoding: %s", d.Path, d.Detail, hexHead(enc)))
	}
	if !bytes.Equal(enc2, enc) {
		ok = false
		off := 0
		for off < len(enc) && off < len(enc2) && enc[off] == enc2[off] {
			off++
		}
		c.Violation(kind, "reencode", "bytes", fmt.Sprintf("re-encoding (%d bytes) differs from the original encoding (%d bytes) at offset %d\nre-encoded: %s\noriginal:   %s", len(enc2), len(enc), off, window(enc2, off), window(enc, off)))
	}
	if len2 != len(enc) {
		ok = false
		c.Violation(kind, "extent", "Len", fmt.Sprintf("decoded value reports Len() = %d, its encoding occupies %d bytes (a container would skip the wrong amount)", len2, len(enc)))
	}
	// whole messages once more into the value their constructor hands out (a decode target a user may well pick):
	// the result must be the same message, whatever the constructor pre-filled
	if cs.Mode == "ctrl" || cs.Mode == "switch" {
		if tgt := ctorTarget(m.K); tgt != nil {
			var r3 *rec.Rec
			var e3, d3 error
			p, pv, st = fw.Recover(func() {
				if d3 = tgt.UnmarshalBinary(append([]byte(nil), enc...)); d3 == nil {
					r3, e3 = extract(tgt)
				}
			})
			c.Count("decodes_into_constructor_made_values", 1)
			switch {
			case p:
				ok = false
				c.Violation(kind, "panic", "decode-into-constructor-value:"+fw.LibFrame(st), pv+"\n"+fw.TrimStack(st))
			case d3 != nil:
				ok = false
				c.Violation(kind, "decode-error", "decode-into-constructor-value", fmt.Sprintf("decoding the library's own encoding into a constructor-made %T failed: %v", tgt, d3))
			case e3 == nil:
				for _, d := range rec.DiffAll(spec.Canon(r1), spec.Canon(r3), 4) {
					ok = false
					c.Violation(kind, "roundtrip", "decode-into-constructor-value:"+locusOf(r1, d.Path), fmt.Sprintf("field %s: built vs decoded into a constructor-made %T: %s", d.Path, tgt, d.Detail))
				}
			}
		}
	}
	if ok {
		c.Count("roundtrip_ok", 1)
		if c.WantSample() && len(enc) < 200 && len(nested) >= 1 {
			c.Sample(map[string]any{"mode": cs.Mode, "recipe": m, "bytes": fmt.Sprintf("%x", enc), "tail": cs.Tail})
		}
	}
}

var _ = common.Header{}

// ctorTarget returns a constructor-made value of the message kind (nil if the kind has no constructor).
func ctorTarget(kind string) util.Message {
	switch kind {
	case "hello":
		h, _ := common.NewHello(4)
		return h
	case "flow_mod":
		return of.NewFlowMod()
	case "group_mod":
		return of.NewGroupMod()
	case "packet_out":
		return of.NewPacketOut()
	case "port_mod":
		return of.NewPortMod(7)
	case "set_config", "get_config_reply":
		return of.NewSetConfig()
	case "features_reply":
		return of.NewFeaturesReply()
	case "packet_in":
		return of.NewPacketIn()
	case "flow_removed":
		return of.NewFlowRemoved()
	case "port_status":
		return of.NewPortStatus()
	case "error":
		return of.NewErrorMsg()
	}
	return nil
}
