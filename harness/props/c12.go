package props

import (
	"bytes"
	"encoding/binary"
	"fmt"
	"unsafe"

	of "github.com/contiv/libOpenflow/openflow13"
	"github.com/contiv/libOpenflow/util"

	"vh/fw"
	"vh/gen"
	"vh/lib"
	"vh/prng"
	"vh/rec"
	"vh/spec"
)

// C12 — a parsed message shares no memory with the buffer it was parsed from.

type c12Case struct {
	Side   string   `json:"side"`
	Recipe *rec.Rec `json:"recipe"`
	Slack  int      `json:"slack"` // the input is a window of a larger array with this many bytes before and after
}

func init() {
	fw.Register(&fw.Prop{
		ID:       "C12",
		Rule:     "conformant frames of every kind the parser entry point accepts (switch-originated: hello, error, experimenter error, echo, features/get-config replies, packet-in with every payload chain, flow-removed, port-status, every multipart reply with nested matches/instructions/actions, vendor replies; controller-originated: flow-mod, group-mod, packet-out, port-mod, multipart requests, Nicira messages, bundle control and bundle add with nested messages) are parsed from a buffer that is a window of a larger array. Monitor A walks the whole object graph of the result by reflection (exported and unexported fields, pointers, interfaces, slices, maps, bytes.Buffer internals) and reports any slice whose backing array overlaps the input array. Monitor B takes the deep dump and the re-encoding, overwrites the whole input array (complement, then 0xAA), and requires dump and re-encoding to be unchanged. The same monitors run on whatever else the parser accepts: bundle adds around message kinds the library has no decoder for, and a PRNG-chosen handful of hostile variants (the mutation classes of C07) of every fourth frame. distinct = hash(recipe without xid); non-trivial = the message has at least one variable-size part (nested element, payload or data)",
		NumCases: func(tier string, seed uint64) int { return nCases(tier, 300000, 12000000) },
		Gen: func(tier string, seed uint64, i int) any {
			r := prng.Derive(seed, 1212, uint64(i))
			if i%2 == 0 {
				return &c12Case{Side: "switch", Recipe: switchRecipe(12, seed, i/2), Slack: r.Pick(0, 1, 8, 64)}
			}
			return &c12Case{Side: "ctrl", Recipe: withBundleProps(r, ctrlRecipe(12, tier, seed, i/2)), Slack: r.Pick(0, 1, 8, 64)}
		},
		NewCase: func() any { return new(c12Case) },
		Eval:    c12Eval,
		Minimum: func(a *fw.Agg) error {
			if a.Counters["parsed"] < 10000 || a.SetSize("kinds") < 40 || a.Counters["slices_checked"] < 100000 {
				return fmt.Errorf("too little observed: parsed=%d kinds=%d slices=%d", a.Counters["parsed"], a.SetSize("kinds"), a.Counters["slices_checked"])
			}
			return needKinds(a, "kinds", "switch", "ctrl")
		},
		Assumptions: []string{
			"frames the parser rejects are skipped (C04's business); decoders not reachable from the parser entry point (IGMP, DHCP, LLDP, TCP) are outside this property",
			"the object-graph walk follows every pointer, interface, slice, array and map it can reach by reflection; strings are immutable and not followed",
		},
	})
}

func c12Eval(c *fw.Ctx, data any) {
	cs := data.(*c12Case)
	m := cs.Recipe
	if m == nil {
		return
	}
	wire, err := spec.EncodeMessage(m)
	if err != nil || len(wire) > 65535 {
		return
	}
	kind := cs.Side + ":" + kindOf(m)
	n, nested := countNested(m)
	nt := n > 0 || len(wire) > 16
	c.Distinct(hashNoXid(m), nt)
	if !c12Observe(c, cs, kind, wire, true) {
		return
	}
	c.Set("kinds", kind)
	for k := range nested {
		c.Set("nested_kinds", k)
	}
	if m.K == "packet_in" {
		c.Set("payload_chains", payloadChain(m.Sub("packet")))
	}
	// Whatever the parser accepts is in scope, conformant or not ("for all parseable frames"): (a) a bundle add
	// around each message kind the library has no decoder for, should the parser take it; (b) hostile variants of
	// the frame (the mutation classes of C07), a PRNG-chosen handful per case.
	r := prng.Derive(c.Seed, 1213, uint64(c.Index))
	if m.K == "bundle_add" && len(wire) >= 32 {
		il := int(binary.BigEndian.Uint16(wire[26:28]))
		if il >= 8 && 24+il <= len(wire) {
			inner := undecodableFrame(r, r.U32())
			v := append(append(append([]byte(nil), wire[:24]...), inner...), wire[24+il:]...)
			if len(v) <= 65535 {
				binary.BigEndian.PutUint16(v[2:], uint16(len(v)))
				c.Count("bundles_around_undecoded_kinds", 1)
				if c12Observe(c, cs, kind+"+undecoded-inner", v, false) {
					c.Count("bundles_around_undecoded_kinds_parsed", 1)
				}
			}
		}
	}
	if c.Index%4 == 0 && len(wire) <= 4096 {
		want := map[int]bool{}
		for k := 0; k < 6; k++ {
			want[r.Intn(40+8*len(wire))] = true
		}
		i := 0
		stop := false
		gen.Hostile(wire, r, gen.HostileOpt{Fix: ofFix, MaxPos: 64, Random: 8, MaxExtend: len(wire) + 64}, func(class string, in []byte) bool {
			if want[i] {
				c.Count("hostile_variants_tried", 1)
				if len(in) >= 8 && c12Observe(c, cs, kind+"~"+class, in, false) {
					c.Count("hostile_variants_parsed", 1)
				} else if c.Poisoned() {
					stop = true
				}
			}
			i++
			return !stop && i < 40+8*len(wire)
		})
	}
	if c.WantSample() && nt && len(wire) < 200 && c.Index%13 == 0 {
		c.Sample(map[string]any{"kind": kind, "wire": fmt.Sprintf("%x", wire), "slack": cs.Slack})
	}
}

// c12Observe parses one frame from a window of a larger array and runs both monitors on the result. It returns false
// when the parser did not produce a message (or a violation ended the observation).
func c12Observe(c *fw.Ctx, cs *c12Case, kind string, wire []byte, conformant bool) bool {
	// the input is a window of a larger array, like the contents of a pooled bytes.Buffer
	arr := make([]byte, cs.Slack+len(wire)+cs.Slack)
	for i := range arr {
		arr[i] = 0x5a
	}
	buf := arr[cs.Slack : cs.Slack+len(wire) : cs.Slack+len(wire)+cs.Slack/2]
	copy(buf, wire)
	if conformant && c.Index%3 == 0 {
		// the buffer is a recycled one: the same frame (a retransmission, a periodic message) was received into it
		// and parsed once before, and the buffer was used for something else in between
		fw.Recover(func() { of.Parse(buf) })
		for i := range arr {
			arr[i] = 0xc3
		}
		copy(buf, wire)
		c.Count("frames_parsed_a_second_time_from_the_recycled_buffer", 1)
	}
	var msg util.Message
	var perr error
	vd := fw.Guard(len(buf), func() { msg, perr = of.Parse(buf) })
	switch vd.Class {
	case "panic":
		if conformant {
			c.Violation(kind, "panic", fw.LibFrame(vd.Stack), vd.Panic+"\n"+fw.TrimStack(vd.Stack))
		}
		return false
	case "cpu", "alloc":
		c.Count("parser_over_budget_skipped", 1) // C07's business; the call may still be running: leave this process
		c.Poison()
		return false
	}
	var p bool
	var pv, st string
	if perr != nil || isNil(msg) {
		if conformant {
			c.Count("rejected_by_parser", 1)
		}
		return false
	}
	if conformant {
		c.Count("parsed", 1)
	}
	// Monitor A: no slice reachable from the message may live inside the input array
	lo := uintptr(unsafe.Pointer(&arr[0]))
	hi := lo + uintptr(len(arr))
	var regs []lib.Region
	p, pv, st = fw.Recover(func() { regs = lib.Regions(msg) })
	if p {
		c.Inconclusive("object-graph walk failed: " + pv)
	}
	c.Count("slices_checked", int64(len(regs)))
	for _, r := range regs {
		if r.Size > 0 && r.Ptr < hi && r.Ptr+r.Size > lo {
			c.Violation(kind, "alias", c12Path(r.Path), fmt.Sprintf("the slice at %s of the parsed %T (backing array %d bytes) lies inside the input buffer (offset %d of the %d-byte input array)\ninput: %s", r.Path, msg, r.Size, int64(r.Ptr)-int64(lo), len(arr), hexHead(wire)))
		}
	}
	// Monitor B: overwriting the input must not change the message
	var d1, d2 string
	var e1, e2 []byte
	p, pv, st = fw.Recover(func() {
		msg.MarshalBinary() // encoders may normalise the value once (idempotent write-backs, C13); observe after that
		d1 = lib.Dump(msg)
		b, _ := msg.MarshalBinary()
		e1 = append([]byte(nil), b...)
	})
	if p {
		if conformant {
			c.Violation(kind, "panic", "reencode:"+fw.LibFrame(st), pv+"\n"+fw.TrimStack(st))
		}
		return false // (a hostile frame whose parsed value cannot be encoded again is not this property's business)
	}
	for round := 0; round < 2; round++ {
		for i := range arr {
			if round == 0 {
				arr[i] = ^arr[i]
			} else {
				arr[i] = 0xaa
			}
		}
		p, pv, st = fw.Recover(func() {
			d2 = lib.Dump(msg)
			b, _ := msg.MarshalBinary()
			e2 = append([]byte(nil), b...)
		})
		if p {
			c.Violation(kind, "changed", "panic-after-overwrite:"+fw.LibFrame(st), pv+"\ninput: "+hexHead(wire))
			return false
		}
		if d1 != d2 {
			off := 0
			for off < len(d1) && off < len(d2) && d1[off] == d2[off] {
				off++
			}
			a, b := off-60, off+60
			if a < 0 {
				a = 0
			}
			c.Violation(kind, "changed", "fields", fmt.Sprintf("overwriting the input buffer changed the parsed message\nbefore: …%s\nafter:  …%s\ninput: %s", clip(d1, a, b), clip(d2, a, b), hexHead(wire)))
			return false
		}
		if !bytes.Equal(e1, e2) {
			off := 0
			for off < len(e1) && off < len(e2) && e1[off] == e2[off] {
				off++
			}
			c.Violation(kind, "changed", "reencoding", fmt.Sprintf("overwriting the input buffer changed the re-encoding of the parsed message at offset %d\nbefore: %s\nafter:  %s", off, window(e1, off), window(e2, off)))
			return false
		}
	}
	if conformant {
		c.Count("owned", 1)
	}
	return true
}

func clip(s string, a, b int) string {
	if a > len(s) {
		a = len(s)
	}
	if b > len(s) {
		b = len(s)
	}
	return s[a:b]
}

// c12Path strips indices from a graph path so that it can serve as a stable locus.
func c12Path(p string) string { return idxRe.ReplaceAllString(p, "[]") }
