package props

import (
	"fmt"
	"strings"

	of "github.com/contiv/libOpenflow/openflow13"
	"github.com/contiv/libOpenflow/util"

	"vh/fw"
	"vh/gen"
	"vh/lib"
	"vh/prng"
	"vh/rec"
	"vh/spec"
)

// C04 — parsing specification-conformant switch bytes: the reference encoder writes the frame, the library's parser
// entry point reads it, and the exported fields must equal the recipe.

func switchRecipe(salt uint64, seed uint64, i int) *rec.Rec {
	r := prng.Derive(seed, salt, uint64(i))
	if i%satEvery == satEvery-1 { // a list filled up to the frame limit
		return gen.SaturatedSwitch(r, i/satEvery)
	}
	kind := gen.SwitchKinds[i%len(gen.SwitchKinds)]
	if i%3 == 1 {
		kind = []string{"packet_in", "mp_reply:flow", "flow_removed", "packet_in", "mp_reply:flow", "port_status"}[(i/3)%6]
	}
	return withUnknownHelloElements(r, withExperimenterOXM(r, gen.SwitchMessage(r, kind)))
}

// withUnknownHelloElements inserts hello elements of types OpenFlow 1.3 does not define, of any length, at random
// positions: a receiver must skip them (by their padded length) and still find the version bitmaps.
func withUnknownHelloElements(r *prng.R, m *rec.Rec) *rec.Rec {
	if m.K != "hello" || !r.Chance(1, 2) {
		return m
	}
	es := m.List("elements")
	for n := r.Pick(1, 1, 2); n > 0; n-- {
		u := rec.New("hello_unknown").Set("type", uint64(r.Pick(0, 2, 3, 0x7fff, 0xffff))).SetB("data", r.Bytes(r.Pick(0, 1, 2, 4, 5, 9, r.Range(0, 20))))
		at := r.Intn(len(es) + 1)
		es = append(es[:at], append([]*rec.Rec{u}, es[at:]...)...)
	}
	m.SetL("elements", es)
	return m
}

// dropUnknownHello removes from an expectation the hello elements a receiver is required to skip.
func dropUnknownHello(m *rec.Rec) *rec.Rec {
	if m.K == "hello" {
		var keep []*rec.Rec
		for _, e := range m.List("elements") {
			if e.K != "hello_unknown" {
				keep = append(keep, e)
			}
		}
		m.SetL("elements", keep)
	}
	return m
}

// withExperimenterOXM inserts, at random positions of the match lists of a switch message, the ONF experimenter-class
// fields an OpenFlow 1.3 switch uses for TCP flags and action-set output (the library decodes both). Wire-first
// checks only: the library's constructors build these fields in the basic class.
func withExperimenterOXM(r *prng.R, m *rec.Rec) *rec.Rec {
	if !r.Chance(1, 3) {
		return m
	}
	m.Walk(func(x *rec.Rec) {
		if x.K != "match" || !r.Chance(2, 3) {
			return
		}
		fs := x.List("fields")
		for n := r.Pick(1, 1, 2); n > 0; n-- {
			var f *rec.Rec
			if r.Bool() {
				f = rec.New("mf").Set("class", spec.ClassExp).Set("field", 42).Set("experimenter", spec.ONFVendor).SetB("value", r.Bytes(2))
				if r.Bool() {
					f.SetBool("hasmask", true).SetB("mask", r.Bytes(2))
				}
			} else {
				f = rec.New("mf").Set("class", spec.ClassExp).Set("field", 43).Set("experimenter", spec.ONFVendor).SetB("value", r.Bytes(4))
			}
			at := r.Intn(len(fs) + 1)
			if len(fs) > 1 && r.Chance(3, 4) {
				at = r.Intn(len(fs) - 1) // mostly not last: later fields must still decode at the right offsets
			}
			fs = append(fs[:at], append([]*rec.Rec{f}, fs[at:]...)...)
		}
		x.SetL("fields", fs)
	})
	return m
}

func init() {
	fw.Register(&fw.Prop{
		ID:       "C04",
		Rule:     "switch-originated messages of every kind (hello with 0..2 elements and 1..3 bitmaps, error x 14 types with 0..64KiB data, experimenter error, echo with/without body, features reply, get-config reply, packet-in with 0..20 match fields of every supported kind and generated frames or no data, flow-removed, port-status, multipart replies desc/flow/aggregate/table/port-stats/queue/port-desc with 0..n records x instructions x actions incl. the standard actions a switch reports, barrier reply, TLV-table reply, bundle control replies) are written by the reference encoder and parsed through the library's parser entry point; the extracted tree must equal the recipe. distinct = hash(recipe without xid); non-trivial = a list of length >= 2 somewhere, a payload, or a masked field",
		NumCases: func(tier string, seed uint64) int { return nCases(tier, 300000, 12000000) },
		Gen:      func(tier string, seed uint64, i int) any { return switchRecipe(4, seed, i) },
		NewCase:  func() any { return new(rec.Rec) },
		Eval:     c04Eval,
		Minimum: func(a *fw.Agg) error {
			if a.SetSize("kinds") < 18 || a.Counters["parsed_equal"] < 1000 {
				return fmt.Errorf("coverage too small: kinds=%d equal=%d", a.SetSize("kinds"), a.Counters["parsed_equal"])
			}
			return needKinds(a, "kinds", "switch")
		},
		Assumptions: []string{
			"the reference encoder is the trusted description of what a conforming switch sends (SPEC_NOTES.md sections A-E)",
			"match fields are drawn from the (class, field) pairs the library has a decoder case for; the packet payload is compared as bytes through re-encoding of the parsed packet",
		},
	})
}

// c04Recv is this worker's receive buffer (see c04Eval).
var c04Recv = make([]byte, 1<<16)

func payloadChain(p *rec.Rec) string {
	if p == nil {
		return "none"
	}
	var ks []string
	for cur := p; cur != nil; cur = cur.Sub("payload") {
		k := cur.K
		if cur.K == "ethernet" && cur.Bool("has_vlan") {
			if cur.U("vid") == 0 {
				k += "+vlan0"
			} else {
				k += "+vlan"
			}
		}
		if cur.K == "ipv6" {
			for _, e := range cur.List("ext") {
				k += "+" + e.K
			}
		}
		ks = append(ks, k)
	}
	return strings.Join(ks, "/")
}

func nontrivialSwitch(m *rec.Rec) bool {
	nt := false
	m.Walk(func(r *rec.Rec) {
		for _, l := range r.L {
			if len(l) >= 2 {
				nt = true
			}
		}
		if r.K == "mf" && r.Bool("hasmask") {
			nt = true
		}
		if r.Sub("packet") != nil || len(r.Bytes("data")) > 0 {
			nt = true
		}
	})
	return nt
}

func c04Eval(c *fw.Ctx, data any) {
	m := data.(*rec.Rec)
	kind := kindOf(m)
	c.Distinct(hashNoXid(m), nontrivialSwitch(m))
	c.Set("kinds", kind)
	_, kinds := countNested(m)
	for k := range kinds {
		c.Set("nested_kinds", k)
	}
	wire, err := spec.EncodeMessage(m)
	if err != nil {
		c.Inconclusive("reference encoder: " + err.Error())
		return
	}
	chain := payloadChain(m.Sub("packet"))
	if m.K == "packet_in" {
		c.Set("payload_chains", chain)
	}
	var msg util.Message
	var perr error
	in := append([]byte(nil), wire...)
	if c.Index%2 == 1 {
		// every other frame is received into the same buffer as the one before it (as a connection's read buffer or
		// a pooled one is): what the parser returns must be this frame's contents, whatever it remembers of the last
		in = c04Recv[:len(wire)]
		copy(in, wire)
		c.Count("frames_parsed_from_a_reused_receive_buffer", 1)
	}
	vd := fw.Guard(len(in), func() { msg, perr = of.Parse(in) })
	switch vd.Class {
	case "panic":
		c.Violation(kind, "panic", fw.LibFrame(vd.Stack), fmt.Sprintf("%s\n%s\ninput: %s", vd.Panic, fw.TrimStack(vd.Stack), hexHead(wire)))
		return
	case "cpu", "alloc":
		c.Violation(kind, "hang", "parse:"+vd.Class, fmt.Sprintf("the parser exceeded its %s budget on a conformant message (cpu %v, %d bytes allocated): %s", vd.Class, vd.CPU, vd.Alloc, hexHead(wire)))
		c.Poison()
		return
	}
	var p bool
	var pv, st string
	if perr != nil {
		c.Violation(kind, "parse-error", c04ErrLocus(m, chain), fmt.Sprintf("parser returned error %q for conformant bytes %s", perr.Error(), hexHead(wire)))
		return
	}
	if isNil(msg) {
		c.Violation(kind, "no-message", "nil", "parser returned neither a message nor an error for "+hexHead(wire))
		return
	}
	var got *rec.Rec
	var xerr error
	p, pv, st = fw.Recover(func() { got, xerr = lib.ExtractMessage(msg) })
	if p {
		c.Violation(kind, "panic", "extract:"+fw.LibFrame(st), pv+"\n"+fw.TrimStack(st))
		return
	}
	if xerr != nil {
		c.Violation(kind, "wrong-kind", "extract", fmt.Sprintf("parsed value of type %T cannot be read as a %s: %v", msg, m.K, xerr))
		return
	}
	want := spec.Canon(dropUnknownHello(normPayloadRec(m.Clone())))
	ds := rec.DiffAll(want, spec.Canon(got), 8)
	if len(ds) == 0 {
		c.Count("parsed_equal", 1)
		c04OtherVersions(c, kind, m, wire, got)
		if c.WantSample() && nontrivialSwitch(m) && len(wire) < 600 {
			c.Sample(map[string]any{"recipe": m, "wire": fmt.Sprintf("%x", wire)})
		}
		return
	}
	for _, d := range ds {
		locus := locusOf(want, d.Path)
		if m.K == "packet_in" && d.Path == ".data" {
			locus = "data(" + chain + ")"
		}
		c.Violation(kind, "field", locus, fmt.Sprintf("field %s: on the wire vs parsed: %s\nwire (%d bytes): %s", d.Path, d.Detail, len(wire), hexHead(wire)))
	}
}

// c04ErrLocus makes the locus of a parse error specific to the shape that triggers it.
func c04ErrLocus(m *rec.Rec, chain string) string {
	if m.K == "packet_in" {
		return "payload(" + chain + ")"
	}
	return "error"
}

// c04OtherVersions: version negotiation (OpenFlow 1.3.5 section 6.3.1). A switch puts the highest version it supports
// into the header of its hello, and answers a failed negotiation with an OFPET_HELLO_FAILED error that carries its own
// version; both are conformant with a version byte other than 4 and must parse to the same fields.
func c04OtherVersions(c *fw.Ctx, kind string, m *rec.Rec, wire []byte, base *rec.Rec) {
	if !(m.K == "hello" || (m.K == "error" && m.U("type") == 0)) || len(wire) < 8 {
		return
	}
	for _, ver := range []byte{1, 2, 3, 5, 6} {
		in := append([]byte(nil), wire...)
		in[0] = ver
		var msg util.Message
		var perr error
		var got *rec.Rec
		p, pv, st := fw.Recover(func() {
			msg, perr = of.Parse(in)
			if perr == nil && !isNil(msg) {
				got, perr = lib.ExtractMessage(msg)
			}
		})
		c.Count("other_version_parses", 1)
		switch {
		case p:
			c.Violation(kind, "panic", "version:"+fw.LibFrame(st), pv+"\n"+fw.TrimStack(st))
		case perr != nil || got == nil:
			c.Violation(kind, "parse-error", fmt.Sprintf("header-version-%d", ver), fmt.Sprintf("a %s with version byte %d (version negotiation) was not parsed: %v\nwire: %s", m.K, ver, perr, hexHead(in)))
		default:
			w := spec.Canon(base.Clone()).Set("_version", uint64(ver))
			for _, d := range rec.DiffAll(w, spec.Canon(got), 4) {
				c.Violation(kind, "field", fmt.Sprintf("header-version-%d%s", ver, d.Path), fmt.Sprintf("a %s with version byte %d parses differently from the same message with version 4: %s", m.K, ver, d.Detail))
			}
		}
	}
}
