package props

import (
	"bytes"
	"fmt"
	"strings"

	"github.com/contiv/libOpenflow/protocol"
	"github.com/contiv/libOpenflow/util"

	"vh/fw"
	"vh/gen"
	"vh/lib"
	"vh/prng"
	"vh/rec"
	"vh/spec"
)

// C09 — packet headers round-trip, packed bit-fields stay in their lanes (judged against the RFC layouts of the
// reference encoder), and payload decoders are chosen by ethertype / protocol / next-header chain.

type c09Case struct {
	Mode   string   `json:"mode"` // rt | packed
	Recipe *rec.Rec `json:"recipe,omitempty"`
	Group  string   `json:"group,omitempty"`
	Chunk  int      `json:"chunk,omitempty"`
	Ones   bool     `json:"ones,omitempty"` // packed: neighbours all-ones instead of zero
}

type packedGroup struct {
	name   string
	values int // size of the value space
	chunk  int
	make   func(v uint32, ones bool) *rec.Rec
}

func fill(n int, ones bool) []byte {
	b := make([]byte, n)
	if ones {
		for i := range b {
			b[i] = 0xff
		}
	}
	return b
}

func nb(ones bool, width int) uint64 {
	if !ones {
		return 0
	}
	if width >= 64 {
		return ^uint64(0)
	}
	return (uint64(1) << uint(width)) - 1
}

func ipv4Rec(ones bool) *rec.Rec {
	return rec.New("ipv4").Set("version", nb(ones, 4)).Set("ihl", 5).Set("dscp", nb(ones, 6)).Set("ecn", nb(ones, 2)).Set("length", nb(ones, 16)).Set("id", nb(ones, 16)).
		Set("flags", nb(ones, 3)).Set("frag_off", nb(ones, 13)).Set("ttl", nb(ones, 8)).Set("protocol", 253).Set("checksum", nb(ones, 16)).SetB("src", fill(4, ones)).SetB("dst", fill(4, ones)).SetB("data", fill(3, !ones))
}

func ipv6Rec(ones bool) *rec.Rec {
	return rec.New("ipv6").Set("version", nb(ones, 4)).Set("tclass", nb(ones, 8)).Set("flow_label", nb(ones, 20)).Set("length", nb(ones, 16)).Set("next_header", 59).Set("hop_limit", nb(ones, 8)).
		SetB("src", fill(16, ones)).SetB("dst", fill(16, ones)).SetL("ext", nil).SetB("data", fill(2, !ones))
}

var packedGroups = []packedGroup{
	{"vlan_tci", 1 << 16, 4096, func(v uint32, ones bool) *rec.Rec {
		return rec.New("vlan").Set("tpid", 0x8100).Set("pcp", uint64(v>>13)).Set("dei", uint64(v>>12&1)).Set("vid", uint64(v&0xfff))
	}},
	{"ethernet_tci", 1 << 16, 4096, func(v uint32, ones bool) *rec.Rec {
		et := uint64(0x0001)
		if ones {
			et = 0xffff
		}
		return rec.New("ethernet").SetB("dst", fill(6, ones)).SetB("src", fill(6, ones)).SetBool("has_vlan", true).Set("pcp", uint64(v>>13)).Set("dei", uint64(v>>12&1)).Set("vid", uint64(v&0xfff)).
			Set("ethertype", et).SetB("data", fill(4, !ones))
	}},
	{"ipv4_version_ihl", 16 * 11, 176, func(v uint32, ones bool) *rec.Rec {
		ihl := 5 + int(v%11)
		r := ipv4Rec(ones).Set("version", uint64(v/11)).Set("ihl", uint64(ihl))
		if ihl > 5 {
			r.SetB("options", fill(4*(ihl-5), !ones))
		}
		return r
	}},
	{"ipv4_dscp_ecn", 256, 256, func(v uint32, ones bool) *rec.Rec {
		return ipv4Rec(ones).Set("dscp", uint64(v>>2)).Set("ecn", uint64(v&3))
	}},
	{"ipv4_flags_fragoff", 1 << 16, 4096, func(v uint32, ones bool) *rec.Rec {
		return ipv4Rec(ones).Set("flags", uint64(v>>13)).Set("frag_off", uint64(v&0x1fff))
	}},
	{"ipv6_version_class", 1 << 12, 4096, func(v uint32, ones bool) *rec.Rec {
		return ipv6Rec(ones).Set("version", uint64(v>>8)).Set("tclass", uint64(v&0xff))
	}},
	{"ipv6_flow_label", 1 << 20, 8192, func(v uint32, ones bool) *rec.Rec {
		return ipv6Rec(ones).Set("flow_label", uint64(v))
	}},
	{"ipv6_class_x_label_edges", 256 * 64, 4096, func(v uint32, ones bool) *rec.Rec {
		// every class value against labels with each of the top/bottom bits set (the bits adjacent to the class lane)
		lab := []uint32{0, 0xfffff, 0x80000, 0x7ffff, 1, 0xffffe, 0xaaaaa, 0x55555}[v>>8&7]
		ver := []uint32{6, 0, 15, 9, 6, 6, 6, 6}[v>>11&7]
		return ipv6Rec(ones).Set("version", uint64(ver)).Set("tclass", uint64(v&0xff)).Set("flow_label", uint64(lab))
	}},
	{"tcp_offset_flags", 16 * 64, 1024, func(v uint32, ones bool) *rec.Rec {
		return rec.New("tcp").Set("sport", nb(ones, 16)).Set("dport", nb(ones, 16)).Set("seq", nb(ones, 32)).Set("ack", nb(ones, 32)).Set("data_off", uint64(v>>6)).Set("flags", uint64(v&0x3f)).
			Set("window", nb(ones, 16)).Set("checksum", nb(ones, 16)).Set("urgent", nb(ones, 16)).SetB("data", fill(3, !ones))
	}},
	{"fragment_offset_more", 1 << 14, 4096, func(v uint32, ones bool) *rec.Rec {
		return rec.New("fragment").Set("next_header", nb(ones, 8)).Set("reserved", nb(ones, 8)).Set("frag_off", uint64(v>>1)).SetBool("more", v&1 == 1).Set("id", nb(ones, 32))
	}},
	{"igmp3_s_qrv", 16, 16, func(v uint32, ones bool) *rec.Rec {
		return rec.New("igmp3_query").Set("type", 0x11).Set("max_resp", nb(ones, 8)).Set("checksum", nb(ones, 16)).SetB("group", fill(4, ones)).SetBool("s", v&8 != 0).Set("qrv", uint64(v&7)).Set("qqic", nb(ones, 8)).SetB("sources", fill(8, ones))
	}},
}

type c09Packed struct {
	g     int
	chunk int
	ones  bool
}

var c09PackedList []c09Packed

func init() {
	for gi, g := range packedGroups {
		for ch := 0; ch*g.chunk < g.values; ch++ {
			c09PackedList = append(c09PackedList, c09Packed{gi, ch, false}, c09Packed{gi, ch, true})
		}
	}
	fw.Register(&fw.Prop{
		ID:         "C09",
		Rule:       "(a) packed groups, exhaustively, each with all neighbouring fields at zero and at all-ones: VLAN TCI 2^16 (standalone and inside an Ethernet frame, including VID 0), IPv4 version x IHL 5..15 with matching options, DSCP/ECN 2^8, flags/fragment offset 2^16, IPv6 version x class 2^12, flow label 2^20, class x label edge patterns, TCP offset x flags 2^10, fragment offset/M 2^14, IGMPv3 S/QRV 2^4; (b) generated well-formed headers of every kind (Ethernet with/without tag over IPv4/IPv6/ARP/opaque; IPv4 with options over ICMP/UDP/opaque protocols; IPv6 with every chain of hop-by-hop/routing/fragment headers in any order over ICMP/UDP/opaque; TCP; IGMPv1/2, IGMPv3 query/record/report with 0..40 sources and records; DHCP with 0..12 options incl. pads; LLDP). For each: the library's encoding must equal the reference (RFC) encoding, Len() = bytes, decoding the reference bytes must give the recipe's fields and the payload kind of the demultiplexing table, decode(encode(v)) = v, re-encoding reproduces the bytes and the decoded value's Len() is the bytes consumed. distinct = hash(recipe); non-trivial = a packed-group member, or a header with a payload or a non-empty list",
		NumCases:   func(tier string, seed uint64) int { return len(c09PackedList) + nCases(tier, 200000, 24000000) },
		Gen:        c09Gen,
		NewCase:    func() any { return new(c09Case) },
		Eval:       c09Eval,
		Exhaustive: func(string) bool { return false },
		Minimum: func(a *fw.Agg) error {
			if a.SetSize("kinds") < 20 || a.Counters["roundtrip_ok"] < 100000 || a.SetSize("packed_groups") < len(packedGroups) || a.SetSize("chains") < 10 {
				return fmt.Errorf("too little observed: kinds=%d ok=%d groups=%d chains=%d", a.SetSize("kinds"), a.Counters["roundtrip_ok"], a.SetSize("packed_groups"), a.SetSize("chains"))
			}
			for _, k := range gen.PacketKinds {
				if !a.Sets["kinds"][k] && !strings.HasPrefix(k, "lldp_") {
					return fmt.Errorf("packet kind %s never observed", k)
				}
			}
			return nil
		},
		Extra: func(a *fw.Agg) map[string]any {
			return map[string]any{"packed_groups_swept_completely": a.Counters["packed_chunks"] == int64(len(c09PackedList)), "packed_values": a.Counters["packed_values"]}
		},
		Assumptions: []string{
			"the reference packet encoder (harness/spec/pkt.go, written from 802.1Q, RFC 791/2460/793/768/792/826/1112/2236/3376/2131 and 802.1AB) is the trusted description of the wire layouts",
			"well-formed headers only: every field within its width, IHL/HEL/counts/lengths consistent with the parts present",
			"protocols the library has a decoder type for but does not dispatch (TCP, IGMP) may come back typed or as an opaque buffer holding exactly the payload",
		},
	})
}

func c09Gen(tier string, seed uint64, i int) any {
	if i < len(c09PackedList) {
		p := c09PackedList[i]
		return &c09Case{Mode: "packed", Group: packedGroups[p.g].name, Chunk: p.chunk, Ones: p.ones}
	}
	i -= len(c09PackedList)
	r := prng.Derive(seed, 9, uint64(i))
	kind := gen.PacketKinds[(i-i/3)%len(gen.PacketKinds)] // i - i/3 counts up by one over the indices that are not multiples of 3
	if i%3 == 0 {
		kind = []string{"ethernet", "ipv6", "ipv4", "ethernet", "igmp3_report", "dhcp", "hbh", "ethernet"}[(i/3)%8]
	}
	return &c09Case{Mode: "rt", Recipe: gen.PacketOfKind(r, kind, gen.FrameOpt{MaxData: 1500})}
}

// c09Want adds to a recipe the derived fields the extractor reports (counts, TLV headers), so trees can be compared.
func c09Want(m *rec.Rec) *rec.Rec {
	w := m.Clone()
	w.Walk(func(r *rec.Rec) {
		switch r.K {
		case "ip6opt":
			r.Set("length", uint64(len(r.Bytes("data"))))
		case "igmp3_query":
			r.Set("nsrc", uint64(len(r.Bytes("sources"))/4))
		case "igmp3_record":
			r.Set("nsrc", uint64(len(r.Bytes("sources"))/4)).Set("auxlen", uint64(len(r.Bytes("aux"))/4))
		case "igmp3_report":
			r.Set("type", 0x22).Set("ngroups", uint64(len(r.List("records"))))
		case "lldp_chassis":
			r.Set("tlv_type", 1).Set("tlv_length", uint64(1+len(r.Bytes("id"))))
		case "lldp_port":
			r.Set("tlv_type", 2).Set("tlv_length", uint64(1+len(r.Bytes("id"))))
		case "lldp_ttl":
			r.Set("tlv_type", 3).Set("tlv_length", 2)
		}
	})
	return w
}

var opaqueOK = map[string]bool{"tcp": true, "igmp12": true, "igmp3_query": true, "igmp3_report": true}

// tolerateTyped: where the recipe has an opaque payload and the library produced a typed value of a protocol it is
// free to dispatch or not (TCP, IGMP), compare through the typed value's own encoding.
func tolerateTyped(want, got *rec.Rec, v util.Message) {
	// walk down the payload chain in parallel with the value
	for want != nil && got != nil {
		ws, gs := want.Sub("payload"), got.Sub("payload")
		var child util.Message
		switch x := v.(type) {
		case *protocol.Ethernet:
			child = x.Data
		case *protocol.IPv4:
			child = x.Data
		case *protocol.IPv6:
			child = x.Data
		}
		if ws == nil && gs != nil && opaqueOK[gs.K] && child != nil {
			if b, err := child.MarshalBinary(); err == nil {
				delete(got.S, "payload")
				got.SetB("data", b)
			}
			return
		}
		want, got, v = ws, gs, child
	}
}

func pktKindKey(m *rec.Rec) string {
	if m.K == "ethernet" && m.Bool("has_vlan") && m.U("vid") == 0 {
		return "ethernet+vlan0"
	}
	return m.K
}

type pktCodec struct {
	enc func() ([]byte, int, error)                               // the built value's encoding and Len()
	dec func([]byte) (*rec.Rec, util.Message, []byte, int, error) // decode into a fresh value: extracted tree, value, re-encoding, Len()
	// decode first into a value that already holds another header of the same kind (nil: not offered for this kind)
	decUsed func(first, b []byte) (*rec.Rec, util.Message, []byte, int, error)
}

func codecFor(m *rec.Rec) (*pktCodec, error) {
	switch m.K {
	case "dhcp":
		d, err := lib.BuildDHCP(m)
		if err != nil {
			return nil, err
		}
		read := func(d *protocol.DHCP) ([]byte, int, error) {
			// first an encode of ANOTHER message into a destination that is too short (a caller's mistake that must
			// stay without consequence for later encodes: whatever the encoder keeps between calls, nothing of the
			// other message may show up), then the real one
			other := m.Clone().Set("xid", m.U("xid")^0x5a5a5a5a).Set("secs", m.U("secs")^0xffff).SetB("sname", bytes.Repeat([]byte{0xd7}, 64))
			if twin, terr := lib.BuildDHCP(other); terr == nil {
				twin.Read(make([]byte, 100+int(m.U("xid")%150)))
			}
			buf := make([]byte, 4096)
			n, err := d.Read(buf)
			return buf[:n], int(d.Len()), err
		}
		return &pktCodec{
			enc: func() ([]byte, int, error) { return read(d) },
			dec: func(b []byte) (*rec.Rec, util.Message, []byte, int, error) {
				d2 := new(protocol.DHCP)
				if n, err := d2.Write(b); err != nil {
					return nil, nil, nil, 0, err
				} else if n != len(b) {
					return nil, nil, nil, 0, fmt.Errorf("Write reports %d bytes consumed of a %d-byte message", n, len(b))
				}
				e, l, err := read(d2)
				c09Earlier("dhcp", func() ([]byte, error) { b, _, err := read(d2); return b, err }, e, err)
				return lib.ExtractDHCP(d2), nil, e, l, err
			}}, nil
	case "lldp":
		l := lib.BuildLLDP(m)
		read := func(l *protocol.LLDP) ([]byte, int, error) {
			buf := make([]byte, 1024)
			n, err := l.Read(buf)
			return buf[:n], int(l.Len()), err
		}
		return &pktCodec{
			enc: func() ([]byte, int, error) { return read(l) },
			dec: func(b []byte) (*rec.Rec, util.Message, []byte, int, error) {
				l2 := new(protocol.LLDP)
				if n, err := l2.Write(b); err != nil {
					return nil, nil, nil, 0, err
				} else if n != len(b) {
					return nil, nil, nil, 0, fmt.Errorf("Write reports %d bytes consumed of a %d-byte message", n, len(b))
				}
				e, n, err := read(l2)
				return lib.ExtractLLDP(l2), nil, e, n, err
			}}, nil
	case "lldp_chassis", "lldp_port", "lldp_ttl":
		return nil, nil // covered through the composite
	}
	v, err := lib.BuildPacket(m)
	if err != nil {
		return nil, err
	}
	return &pktCodec{
		enc: func() ([]byte, int, error) {
			l := int(v.Len())
			b, err := v.MarshalBinary()
			return b, l, err
		},
		dec: func(b []byte) (*rec.Rec, util.Message, []byte, int, error) {
			v2 := lib.NewPacketValue(m.K)
			if v2 == nil {
				return nil, nil, nil, 0, fmt.Errorf("no decoder value for %s", m.K)
			}
			if err := v2.UnmarshalBinary(b); err != nil {
				return nil, nil, nil, 0, err
			}
			scribble(b) // the caller's buffer is reused (a pooled receive buffer): the decoded header must not change
			x, err := lib.ExtractPacket(v2)
			if err != nil {
				return nil, nil, nil, 0, err
			}
			e, err := v2.MarshalBinary()
			c09Earlier(m.K, func() ([]byte, error) { return v2.MarshalBinary() }, e, err)
			return x, v2, e, int(v2.Len()), err
		},
		decUsed: func(first, b []byte) (*rec.Rec, util.Message, []byte, int, error) {
			v2 := lib.NewPacketValue(m.K)
			if v2 == nil {
				return nil, nil, nil, 0, fmt.Errorf("no decoder value for %s", m.K)
			}
			if err := v2.UnmarshalBinary(first); err != nil {
				return nil, nil, nil, 0, errSkip
			}
			if h := prng.Hash64(b); h%3 != 0 && len(b) > 1 {
				// in between, the same value is offered bytes the decoder rejects (a receive loop that meets a bad
				// packet): a refused decode must not leave the value in a state that shows in the next good one
				bad := append([]byte(nil), b...)
				if h%3 == 1 {
					bad[0] = bad[0]&0xf0 | 1 // a header-length nibble below any minimum
				} else {
					bad = bad[:len(bad)/2]
				}
				fw.Recover(func() { v2.UnmarshalBinary(bad) })
			}
			if err := v2.UnmarshalBinary(b); err != nil {
				return nil, nil, nil, 0, err
			}
			scribble(b) // the caller's buffer is reused (a pooled receive buffer): the decoded header must not change
			x, err := lib.ExtractPacket(v2)
			if err != nil {
				return nil, nil, nil, 0, err
			}
			e, err := v2.MarshalBinary()
			return x, v2, e, int(v2.Len()), err
		}}, nil
}

var errSkip = fmt.Errorf("skip")

// c09Earlier: the value decoded by the previous decode of this worker (another header, another input) is re-encoded
// after the current decode: it must still give the bytes it gave then (decoders that keep their results in shared or
// pooled scratch memory change earlier results). The finding is parked and reported by the next case evaluation.
var c09Prev struct {
	kind string
	re   func() ([]byte, error)
	was  []byte
}
var c09EarlierFinding string
var c09EarlierChecks int64

func c09Earlier(kind string, re func() ([]byte, error), enc []byte, err error) {
	if c09Prev.re != nil {
		c09EarlierChecks++
		var now []byte
		var nerr error
		p, _, _ := fw.Recover(func() { now, nerr = c09Prev.re() })
		if !p && nerr == nil && !bytes.Equal(now, c09Prev.was) && c09EarlierFinding == "" {
			c09EarlierFinding = fmt.Sprintf("a %s header decoded earlier re-encoded to %s then; after a later, unrelated decode (of a %s header) it re-encodes to %s", c09Prev.kind, hexHead(c09Prev.was), kind, hexHead(now))
		}
	}
	c09Prev.re = nil
	if err == nil && enc != nil {
		c09Prev.kind, c09Prev.re, c09Prev.was = kind, re, append([]byte(nil), enc...)
	}
}

func scribble(b []byte) {
	for i := range b {
		b[i] = ^b[i]
	}
}

func chainOf(m *rec.Rec) string {
	s := payloadChain(m)
	return s
}

// c09Check runs all clauses on one well-formed header recipe. Returns true if everything held.
func c09Check(c *fw.Ctx, m *rec.Rec, packed string) bool {
	kind := pktKindKey(m)
	if packed != "" {
		kind += "[" + packed + "]"
	}
	ok := true
	fail := func(class, locus, detail string) {
		ok = false
		c.ViolationCase(kind, class, locus, detail, &c09Case{Mode: "rt", Recipe: m})
	}
	wire, err := spec.EncodePacket(m)
	if err != nil {
		c.Inconclusive("reference encoder: " + err.Error())
		return true
	}
	var codec *pktCodec
	var enc []byte
	var l0 int
	var berr, eerr error
	p, pv, st := fw.Recover(func() {
		codec, berr = codecFor(m)
		if berr == nil && codec != nil {
			enc, l0, eerr = codec.enc()
		}
	})
	if p {
		fail("panic", "encode:"+fw.LibFrame(st), pv+"\n"+fw.TrimStack(st))
		return false
	}
	if berr != nil {
		fail("build-error", "builder", berr.Error())
		return false
	}
	if codec == nil {
		return true
	}
	if eerr != nil {
		fail("encode-error", "error", eerr.Error())
		return false
	}
	want := c09Want(m)
	// 1. lanes: the library's bytes against the RFC layout
	if !bytes.Equal(enc, wire) {
		off := 0
		for off < len(enc) && off < len(wire) && enc[off] == wire[off] {
			off++
		}
		fail("layout", fmt.Sprintf("encode@byte%d", minInt(off, 64)), fmt.Sprintf("the library's encoding (%d bytes) differs from the reference layout (%d bytes) at offset %d\nlibrary:   %s\nreference: %s", len(enc), len(wire), off, window(enc, off), window(wire, off)))
	}
	if l0 != len(enc) {
		fail("size", "Len", fmt.Sprintf("Len() = %d, encoding has %d bytes", l0, len(enc)))
	}
	// 2. wire first: decode the reference bytes, compare fields and payload kinds with the recipe
	decodeAndCompare := func(what string, in []byte, expectBytes []byte, first ...[]byte) {
		var x *rec.Rec
		var v util.Message
		var re []byte
		var l2 int
		var derr error
		vd := fw.Guard(len(in), func() {
			input := append([]byte(nil), in...) // a fresh copy per run (the decoder's input is overwritten afterwards; the guard may run this twice)
			if len(first) > 0 {
				x, v, re, l2, derr = codec.decUsed(append([]byte(nil), first[0]...), input)
			} else {
				x, v, re, l2, derr = codec.dec(input)
			}
		})
		if derr == errSkip {
			return
		}
		switch vd.Class {
		case "panic":
			fail("panic", what+":"+fw.LibFrame(vd.Stack), vd.Panic+"\n"+fw.TrimStack(vd.Stack))
			return
		case "cpu", "alloc":
			fail("hang", what+":"+vd.Class, "decoder exceeded its budget on a well-formed header: "+hexHead(in))
			c.Poison()
			return
		}
		if derr != nil {
			fail("decode-error", what, fmt.Sprintf("decoding a well-formed header failed: %v\nbytes: %s", derr, hexHead(in)))
			return
		}
		if v != nil {
			tolerateTyped(want, x, v)
		}
		for _, d := range rec.DiffAll(want, x, 6) {
			fail("field", what+":"+locusOf(want, d.Path), fmt.Sprintf("field %s: expected vs decoded: %s\nbytes: %s", d.Path, d.Detail, hexHead(in)))
		}
		if !bytes.Equal(re, expectBytes) {
			off := 0
			for off < len(re) && off < len(expectBytes) && re[off] == expectBytes[off] {
				off++
			}
			fail("reencode", what, fmt.Sprintf("re-encoding the decoded header (%d bytes) differs from the bytes it was decoded from (%d bytes) at offset %d\nre-encoded: %s\noriginal:   %s", len(re), len(expectBytes), off, window(re, off), window(expectBytes, off)))
		}
		if l2 != len(expectBytes) {
			fail("extent", what, fmt.Sprintf("decoded value reports Len() = %d, the header occupies %d bytes", l2, len(expectBytes)))
		}
	}
	decodeAndCompare("wire", wire, wire)
	// 2b. the same bytes decoded into a value that was used before (a receive loop that keeps one header value):
	// nothing of the earlier header may show in the result
	if codec.decUsed != nil && ok && c.Index%2 == 0 {
		other := gen.PacketOfKind(prng.Derive(c.Seed, 909, uint64(c.Index)), m.K, gen.FrameOpt{MaxData: 300})
		if ow, oerr := spec.EncodePacket(other); oerr == nil {
			c.Count("decodes_into_used_values", 1)
			decodeAndCompare("used-value", wire, wire, ow)
		}
	}
	// 3. library round trip on its own bytes (independent of clause 1)
	if !bytes.Equal(enc, wire) {
		decodeAndCompare("roundtrip", enc, enc)
	}
	return ok
}

func minInt(a, b int) int {
	if a < b {
		return a
	}
	return b
}

func c09Eval(c *fw.Ctx, data any) {
	cs := data.(*c09Case)
	defer func() {
		c.Count("earlier_decoded_values_re_encoded_after_later_decodes", c09EarlierChecks)
		c09EarlierChecks = 0
		if c09EarlierFinding != "" {
			c.Violation("earlier-value", "changed", "after-a-later-decode", c09EarlierFinding)
			c09EarlierFinding = ""
		}
	}()
	switch cs.Mode {
	case "packed":
		var g *packedGroup
		for i := range packedGroups {
			if packedGroups[i].name == cs.Group {
				g = &packedGroups[i]
			}
		}
		if g == nil {
			c.Inconclusive("unknown packed group " + cs.Group)
			return
		}
		c.Set("packed_groups", g.name)
		lo, hi := cs.Chunk*g.chunk, (cs.Chunk+1)*g.chunk
		if hi > g.values {
			hi = g.values
		}
		okAll := true
		for v := lo; v < hi; v++ {
			m := g.make(uint32(v), cs.Ones)
			c.Distinct(prng.Hash64(m.JSON()), true)
			if c09Check(c, m, g.name) {
				c.Count("roundtrip_ok", 1)
			} else {
				okAll = false
			}
			c.Count("packed_values", 1)
		}
		c.Count("packed_chunks", 1)
		c.Set("kinds", "packed:"+g.name)
		if okAll && c.WantSample() && cs.Chunk == 1 {
			c.Sample(map[string]any{"packed_group": g.name, "values": fmt.Sprintf("%d..%d", lo, hi-1), "neighbours_all_ones": cs.Ones, "example": g.make(uint32(lo+5), cs.Ones)})
		}
		return
	}
	m := cs.Recipe
	if m == nil {
		return
	}
	nt := m.Sub("payload") != nil || len(m.Bytes("data")) > 0
	for _, l := range m.L {
		if len(l) > 0 {
			nt = true
		}
	}
	c.Distinct(prng.Hash64(m.JSON()), nt)
	c.Set("kinds", pktKindKey(m))
	if m.K == "ethernet" || m.K == "ipv4" || m.K == "ipv6" {
		c.Set("chains", chainOf(m))
	}
	// the opaque payload type (what every header falls back to for a protocol it has no decoder for): decoding into
	// a buffer that held other bytes before gives exactly the new bytes, and the input may be reused afterwards
	if c.Index%5 == 0 {
		r := prng.Derive(c.Seed, 910, uint64(c.Index))
		a, b := r.Bytes(r.Pick(0, 1, 7, 60, 300)), r.Bytes(r.Pick(0, 1, 8, 61, 200))
		want := append([]byte(nil), b...)
		var ub util.Buffer
		p, pv, st := fw.Recover(func() {
			ub.UnmarshalBinary(a)
			ub.UnmarshalBinary(b)
			scribble(b)
		})
		c.Count("opaque_payloads_decoded_into_used_buffers", 1)
		if p {
			c.Violation("raw", "panic", "used-value:"+fw.LibFrame(st), pv)
		} else if got, _ := ub.MarshalBinary(); !bytes.Equal(got, want) || int(ub.Len()) != len(want) {
			c.Violation("raw", "field", "used-value:data", fmt.Sprintf("%d bytes decoded into a util.Buffer that held %d other bytes before: it now holds %d bytes (Len() %d): %s, want %s", len(want), len(a), len(got), ub.Len(), hexHead(got), hexHead(want)))
		}
	}
	if c09Check(c, m, "") {
		c.Count("roundtrip_ok", 1)
		if c.WantSample() && nt && c.Index%11 == 0 {
			if w, err := spec.EncodePacket(m); err == nil && len(w) < 200 {
				c.Sample(map[string]any{"recipe": m, "bytes": fmt.Sprintf("%x", w)})
			}
		}
	}
}
