package props

import (
	"fmt"

	"github.com/contiv/libOpenflow/common"
	of "github.com/contiv/libOpenflow/openflow13"
	"github.com/contiv/libOpenflow/protocol"

	"vh/fw"
	"vh/gen"
	"vh/lib"
	"vh/prng"
)

// apiNoise is other use of the library happening between the steps a check judges: n PRNG-chosen operations over the
// public API - match fields through every constructor (with and without masks), bit ranges inside and outside the
// 32-bit domain through both constructors, merged register matches, connection-tracking builders, registry lookups
// in any letter case, generic match-field building, actions - each followed by edits of the returned value through
// its exported fields. Whatever a caller does with values it was handed must not change what unrelated later calls
// return (no shared singletons, memo tables keyed too coarsely, or registry entries handed out for editing).
func apiNoise(r *prng.R, n int) {
	names := []string{"NXM_NX_REG0", "NXM_NX_REG5", "NXM_NX_TUN_METADATA0", "NXM_NX_TUN_METADATA3", "NXM_NX_TUN_METADATA7", "NXM_NX_CT_STATE", "NXM_NX_XXREG0", "OXM_OF_VLAN_VID", "NXM_NX_CT_LABEL", "OXM_OF_IPV6_SRC"}
	for i := 0; i < n; i++ {
		k := r.Intn(9)
		seed := r.U64()
		fw.Recover(func() {
			rr := prng.New(seed)
			switch k {
			case 0, 1:
				if f, err := lib.BuildMatchField(gen.MatchField(rr, gen.MFOpt{})); err == nil && f != nil {
					f.MarshalBinary()
					flipFields(f, seed)
				}
			case 2:
				a, b := rr.Pick(0, 0, 1, 5, 31, 32, 63, 64, 79, 127, 128, 255, 1023), rr.Pick(0, 1, 15, 16, 31, 32, 63, 64, 79, 127, 128, 1023, -1)
				var g *of.NXRange
				if rr.Bool() {
					g = of.NewNXRange(a, b)
				} else {
					g = of.NewNXRangeByOfsNBits(a, b)
				}
				g.ToUint32Mask()
				g.ToOfsBits()
				g.GetOfs()
				g.GetNbits()
				f := of.NewRegMatchField(rr.Intn(16), uint32(rr.U32()), g)
				f.MarshalBinary()
				flipFields(f, seed)
			case 3:
				var fs []*of.MatchField
				for j := rr.Pick(1, 2, 3, 4); j > 0; j-- {
					lo := rr.Intn(32)
					hi := rr.Range(lo, 31)
					v := uint32(0)
					if rr.Bool() {
						v = uint32(rr.U32()) & (uint32(1)<<uint(hi-lo+1) - 1)
					}
					fs = append(fs, of.NewRegMatchField(rr.Pick(0, 0, 1, 7), v, of.NewNXRange(lo, hi)))
				}
				for _, f := range of.NewMulitiRegMatch(fs...) {
					f.MarshalBinary()
					flipFields(f, seed)
				}
			case 4:
				st := of.NewCTStates()
				for j := rr.Intn(6); j > 0; j-- {
					ctOps[rr.Intn(len(ctOps))].f(st)
				}
				f := of.NewCTStateMatchField(st)
				f.MarshalBinary()
				if rr.Bool() {
					flipFields(f, seed)
				}
			case 5:
				name := randomCase(names[rr.Intn(len(names))], rr)
				if h, err := of.FindFieldHeaderByName(name, rr.Bool()); err == nil && h != nil {
					h.MarshalHeader()
				}
			case 6:
				name := names[rr.Intn(len(names))]
				if f, err := of.NewMatchField[uint64, int](name, rr.U64(), rr.Pick(0, 4, 31, 100), rr.Pick(1, 8, 32, 200)); err == nil && f != nil {
					f.MarshalBinary()
					flipFields(f, seed)
				}
			case 7:
				idx := rr.Intn(8)
				data := rr.Bytes(rr.Pick(1, 4, 8, 64, 124))
				var mask []byte
				if rr.Bool() {
					mask = rr.Bytes(len(data))
				}
				f := of.NewTunMetadataField(idx, data, mask)
				f.MarshalBinary()
				flipFields(f, seed)
			default:
				if a, err := lib.BuildAction(gen.Action(rr, gen.ActOpt{})); err == nil && a != nil {
					a.MarshalBinary()
					flipFields(a, seed)
				}
			}
		})
	}
}

// errorNoise is other use of the library that legitimately FAILS: n PRNG-chosen calls that return errors - a DHCP
// message with an option too long to marshal, encodes into destinations that are too short, decoders on truncated or
// inconsistent bytes, the parser on frames it must reject, unknown names and unrepresentable values. Error paths are
// where pooled or cached resources are released twice or left half-updated; what unrelated later (or concurrent) calls
// compute must not depend on them.
func errorNoise(r *prng.R, n int) {
	for i := 0; i < n; i++ {
		k := r.Intn(10)
		seed := r.U64()
		fw.Recover(func() {
			rr := prng.New(seed)
			switch k {
			case 0:
				// an option of 254..400 data bytes cannot be marshalled: Read fails half-way
				if d, err := protocol.NewDHCPOffer(uint32(rr.U32()), []byte{2, 8, 8, byte(seed), 3, 3}); err == nil {
					opts := []protocol.DHCPOption{protocol.DHCPNewOption(byte(rr.Range(1, 200)), rr.Bytes(rr.Range(254, 400)))}
					if rr.Bool() {
						d.Options = append(opts, d.Options...)
					} else {
						d.Options = append(d.Options, opts...)
					}
					d.Read(make([]byte, 2048))
					d.Len()
				}
			case 1:
				if d, err := protocol.NewDHCPRequest(uint32(rr.U32()), []byte{2, 7, 7, byte(seed), 4, 4}); err == nil {
					d.Read(make([]byte, rr.Pick(0, 1, 60, 235, 239, 240, 243)))
				}
			case 2:
				if d, err := protocol.NewDHCPAck(uint32(rr.U32()), []byte{2, 6, 6, byte(seed), 5, 5}); err == nil {
					buf := make([]byte, 1024)
					if m, err := d.Read(buf); err == nil && m > 10 {
						cut := buf[:rr.Range(0, m-1)]
						new(protocol.DHCP).Write(cut)
						if len(cut) > 241 {
							cut[len(cut)-1] = 0xfe // an option length running past the end
							protocol.DHCPParseOptions(cut[240:])
						}
					}
				}
			case 3:
				// the parser on frames it must reject
				frames := [][]byte{
					{4, 0}, {4, 0, 0, 8}, {4, 99, 0, 8, 0, 0, 0, 1}, {4, 14, 0, 56, 0, 0, 0, 2, 1, 2, 3},
					{4, 10, 0, 20, 0, 0, 0, 3, 0, 0, 0, 1, 0, 40, 0, 0, 0, 0, 0, 0}, {4, 19, 0, 17, 0, 0, 0, 4, 0, 1, 0, 0, 0, 0, 0, 0, 9},
					{4, 4, 0, 16, 0, 0, 0, 5, 0, 0, 0x23, 0x20, 0, 0, 0, 99}, {4, 0, 0, 16, 0, 0, 0, 6, 0, 1, 0, 3, 0, 0, 0, 0},
				}
				of.Parse(append([]byte(nil), frames[rr.Intn(len(frames))]...))
				// a well-framed bundle-add (and an experimenter error) around a message the parser rejects
				inner := [][]byte{
					{4, 99, 0, 8, 0, 0, 0, 9}, {4, 17, 0, 16, 0, 0, 0, 9, 1, 0, 0, 0, 0, 0, 0, 3},
					{4, 14, 0, 16, 0, 0, 0, 9, 1, 2, 3, 4, 5, 6, 7, 8}, {4, 10, 0, 12, 0, 0, 0, 9, 0, 0, 0, 1},
					{1, 0, 0, 8, 0, 0, 0, 9}, {4, 4, 0, 16, 0, 0, 0, 9, 0, 0, 0x23, 0x20, 0, 0, 0, 77},
				}[rr.Intn(6)]
				ba := append([]byte{4, 4, 0, 0, 0, 0, 0, 8, 0x4f, 0x4e, 0x46, 0, 0, 0, 8, 0xfd, 0, 0, 0, byte(seed), 0, 0, 0, 1}, inner...)
				ba[2], ba[3] = byte(len(ba)>>8), byte(len(ba))
				of.Parse(ba)
				new(of.VendorHeader).UnmarshalBinary(ba)
			case 4:
				// packet decoders on truncated or inconsistent bytes
				junk := rr.Bytes(rr.Pick(0, 1, 7, 13, 14, 17, 19, 20, 27, 39))
				switch rr.Intn(8) {
				case 0:
					new(protocol.Ethernet).UnmarshalBinary(junk)
				case 1:
					if len(junk) > 0 {
						junk[0] = 0x43 // IHL 3
					}
					new(protocol.IPv4).UnmarshalBinary(junk)
				case 2:
					new(protocol.IPv6).UnmarshalBinary(junk)
				case 3:
					new(protocol.ARP).UnmarshalBinary(junk)
				case 4:
					new(protocol.UDP).UnmarshalBinary(junk[:len(junk)%8])
				case 5:
					new(protocol.TCP).UnmarshalBinary(junk[:len(junk)%20])
				case 6:
					new(protocol.IGMPv3Query).UnmarshalBinary(junk[:len(junk)%12])
				default:
					new(protocol.ICMP).UnmarshalBinary(junk[:len(junk)%4])
				}
			case 5:
				of.FindFieldHeaderByName(fmt.Sprintf("NXM_NX_NOSUCH%d", rr.Intn(1000)), rr.Bool())
				of.NewMatchField[int64, int]("NXM_NX_REG0", -int64(rr.Range(1, 1000)))
				of.NewMatchField[uint64, int]("NXM_NX_REG1", uint64(1)<<40)
				of.NewMatchField[uint64, int]("NXM_NX_REG2", 1, rr.Pick(31, 32, 40), rr.Pick(2, 8, 64))
				of.NewMatchField[uint64, int]("OXM_OF_NOSUCH", 1)
			case 6:
				// element decoders on bytes that end early or name an unknown kind
				junk := rr.Bytes(rr.Pick(0, 1, 3, 4, 7, 8, 12, 15))
				switch rr.Intn(4) {
				case 0:
					of.DecodeAction(junk)
				case 1:
					of.DecodeInstr(junk)
				case 2:
					new(of.MatchField).UnmarshalBinary(junk)
				default:
					new(of.Match).UnmarshalBinary(junk)
				}
			case 7:
				// messages decoded from bytes cut inside them
				if m := of.NewFlowMod(); m != nil {
					m.Match.AddField(*of.NewInPortField(uint32(rr.U32())))
					if b, err := m.MarshalBinary(); err == nil && len(b) > 9 {
						cut := append([]byte(nil), b[:rr.Range(8, len(b)-1)]...)
						of.Parse(cut)
						new(of.FlowMod).UnmarshalBinary(cut)
					}
				}
			case 8:
				h := new(common.Hello)
				h.UnmarshalBinary([]byte{4, 0, 0, 16, 0, 0, 0, 1, 0, 1, 0, 12, 0, 0})
				var hd common.Header
				hd.UnmarshalBinary(rr.Bytes(rr.Intn(8)))
			default:
				// encodes into destinations that are too short
				if o, err := protocol.NewDHCPOffer(uint32(rr.U32())+77, []byte{2, 9, 9, byte(seed), 7, 7}); err == nil {
					o.Read(make([]byte, 60+rr.Intn(100)))
				}
				l := protocol.LLDP{}
				l.Read(make([]byte, rr.Intn(6)))
			}
		})
	}
}

var _ = fmt.Sprint
