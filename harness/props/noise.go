package props

import (
	"fmt"

	of "github.com/contiv/libOpenflow/openflow13"

	"vh/fw"
	"vh/gen"
	"vh/lib"
	"vh/prng"
)

// apiNoise is other use of the library happening between the steps a check judges: n PRNG-chosen operations over the
// public API - match fields through every constructor (with and without masks), bit ranges inside and outside the
// 32-bit domain through both constructors, merged register matches, connection-tracking builders, registry lookups
// in any letter case, generic match-field building, actions - each followed by edits of the returned value through
// its exported fields. Whatever a caller does with values it was handed must not change what unrelated later calls
// return (no shared singletons, memo tables keyed too coarsely, or registry entries handed out for editing).
func apiNoise(r *prng.R, n int) {
	names := []string{"NXM_NX_REG0", "NXM_NX_REG5", "NXM_NX_TUN_METADATA0", "NXM_NX_TUN_METADATA3", "NXM_NX_TUN_METADATA7", "NXM_NX_CT_STATE", "NXM_NX_XXREG0", "OXM_OF_VLAN_VID", "NXM_NX_CT_LABEL", "OXM_OF_IPV6_SRC"}
	for i := 0; i < n; i++ {
		k := r.Intn(9)
		seed := r.U64()
		fw.Recover(func() {
			rr := prng.New(seed)
			switch k {
			case 0, 1:
				if f, err := lib.BuildMatchField(gen.MatchField(rr, gen.MFOpt{})); err == nil && f != nil {
					f.MarshalBinary()
					flipFields(f, seed)
				}
			case 2:
				a, b := rr.Pick(0, 0, 1, 5, 31, 32, 63, 64, 79, 127, 128, 255, 1023), rr.Pick(0, 1, 15, 16, 31, 32, 63, 64, 79, 127, 128, 1023, -1)
				var g *of.NXRange
				if rr.Bool() {
					g = of.NewNXRange(a, b)
				} else {
					g = of.NewNXRangeByOfsNBits(a, b)
				}
				g.ToUint32Mask()
				g.ToOfsBits()
				g.GetOfs()
				g.GetNbits()
				f := of.NewRegMatchField(rr.Intn(16), uint32(rr.U32()), g)
				f.MarshalBinary()
				flipFields(f, seed)
			case 3:
				var fs []*of.MatchField
				for j := rr.Pick(1, 2, 3, 4); j > 0; j-- {
					lo := rr.Intn(32)
					hi := rr.Range(lo, 31)
					v := uint32(0)
					if rr.Bool() {
						v = uint32(rr.U32()) & (uint32(1)<<uint(hi-lo+1) - 1)
					}
					fs = append(fs, of.NewRegMatchField(rr.Pick(0, 0, 1, 7), v, of.NewNXRange(lo, hi)))
				}
				for _, f := range of.NewMulitiRegMatch(fs...) {
					f.MarshalBinary()
					flipFields(f, seed)
				}
			case 4:
				st := of.NewCTStates()
				for j := rr.Intn(6); j > 0; j-- {
					ctOps[rr.Intn(len(ctOps))].f(st)
				}
				f := of.NewCTStateMatchField(st)
				f.MarshalBinary()
				if rr.Bool() {
					flipFields(f, seed)
				}
			case 5:
				name := randomCase(names[rr.Intn(len(names))], rr)
				if h, err := of.FindFieldHeaderByName(name, rr.Bool()); err == nil && h != nil {
					h.MarshalHeader()
				}
			case 6:
				name := names[rr.Intn(len(names))]
				if f, err := of.NewMatchField[uint64, int](name, rr.U64(), rr.Pick(0, 4, 31, 100), rr.Pick(1, 8, 32, 200)); err == nil && f != nil {
					f.MarshalBinary()
					flipFields(f, seed)
				}
			case 7:
				idx := rr.Intn(8)
				data := rr.Bytes(rr.Pick(1, 4, 8, 64, 124))
				var mask []byte
				if rr.Bool() {
					mask = rr.Bytes(len(data))
				}
				f := of.NewTunMetadataField(idx, data, mask)
				f.MarshalBinary()
				flipFields(f, seed)
			default:
				if a, err := lib.BuildAction(gen.Action(rr, gen.ActOpt{})); err == nil && a != nil {
					a.MarshalBinary()
					flipFields(a, seed)
				}
			}
		})
	}
}

var _ = fmt.Sprint
