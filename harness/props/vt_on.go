//go:build vt

package props

import (
	"fmt"
	"testing"
	"testing/synctest"

	"vh/fw"
)

// bubble runs f inside a testing/synctest bubble (Go 1.25+): every goroutine started in it shares a virtual clock that
// advances only when all of them are durably blocked, so a stall of an hour costs nothing and any timer the library
// arms fires in logical order. wait blocks until every other goroutine of the bubble is durably blocked. ran is false
// when no bubble could be entered; leak reports goroutines still blocked when f returned (they stay behind).
func bubble(f func(wait func())) (ran bool, leak string) {
	if fw.T == nil {
		return false, ""
	}
	defer func() {
		if r := recover(); r != nil {
			ran, leak = true, fmt.Sprint(r)
		}
	}()
	synctest.Test(fw.T, func(t *testing.T) { f(synctest.Wait) })
	return true, ""
}

const virtualTimeBuilt = true
