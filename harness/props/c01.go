package props

import (
	"encoding/binary"
	"fmt"

	of "github.com/contiv/libOpenflow/openflow13"
	"github.com/contiv/libOpenflow/util"

	"vh/fw"

	"vh/lib"
	"vh/rec"
	"vh/spec"
)

// C01 — framing: version 1.3, the kind's type code, header length == bytes produced == reported size.

func init() {
	fw.Register(&fw.Prop{
		ID:   "C01",
		Rule: "controller-originated messages of every kind (hello, echo request/reply, features/get-config/barrier requests, set-config, flow-mod x 5 commands, group-mod x 3 commands x 4 types, packet-out with payload absent/empty/raw/typed, port-mod, multipart requests, Nicira vendor messages, bundle control, bundle add wrapping any of them) are generated from a PRNG with boundary-biased field values and nested lists of mixed element kinds, built through the public constructors/adders, and encoded; recipes whose reference size exceeds 65535 are discarded. distinct = hash(recipe without xid); non-trivial = at least one nested element, a non-default command, or a wrapper",
		NumCases: func(tier string, seed uint64) int {
			return nCases(tier, 300000, 16000000)
		},
		Gen:     func(tier string, seed uint64, i int) any { return ctrlRecipe(1, tier, seed, i) },
		NewCase: func() any { return new(rec.Rec) },
		Eval:    c01Eval,
		Minimum: func(a *fw.Agg) error {
			if a.SetSize("kinds") < 30 {
				return fmt.Errorf("only %d message kinds/variants observed", a.SetSize("kinds"))
			}
			if a.Counters["framed_ok"] < 1000 {
				return fmt.Errorf("only %d messages were framed", a.Counters["framed_ok"])
			}
			return needKinds(a, "kinds", "ctrl")
		},
		Assumptions: []string{"type codes from OpenFlow 1.3.5 section 7.1 (ofp_type); Nicira/ONF vendor messages are OFPT_EXPERIMENTER (4)"},
	})
}

func c01Frame(c *fw.Ctx, kind string, m *rec.Rec, b []byte, where string) bool {
	ok := true
	if len(b) < 8 {
		c.Violation(kind, "frame", where+"short", fmt.Sprintf("encoding has %d bytes: %x", len(b), b))
		return false
	}
	if b[0] != 4 {
		c.Violation(kind, "frame", where+"version", fmt.Sprintf("version byte %d, want 4; header %x", b[0], b[:8]))
		ok = false
	}
	if want := spec.MsgType[m.K]; b[1] != want {
		c.Violation(kind, "frame", where+"type", fmt.Sprintf("type byte %d, want %d; header %x", b[1], want, b[:8]))
		ok = false
	}
	if l := int(binary.BigEndian.Uint16(b[2:4])); l != len(b) {
		c.Violation(kind, "frame", where+"header-length", fmt.Sprintf("header length %d, bytes produced %d", l, len(b)))
		ok = false
	}
	return ok
}

func c01Eval(c *fw.Ctx, data any) {
	m := data.(*rec.Rec)
	kind := kindOf(m)
	n, kinds := countNested(m)
	nontrivial := n > 0 || (m.K == "flow_mod" && m.U("command") != 0) || (m.K == "group_mod" && m.U("command") != 0)
	c.Distinct(hashNoXid(m), nontrivial)
	c.Set("kinds", kind)
	for k := range kinds {
		c.Set("nested_kinds", k)
	}
	b := buildEncode(m)
	if reportBuildProblem(c, m, b) {
		return
	}
	ok := c01Frame(c, kind, m, b.bytes, "")
	if b.len0 != len(b.bytes) {
		c.Violation(kind, "size", "len-before-encoding", fmt.Sprintf("Len() = %d before encoding, %d bytes produced", b.len0, len(b.bytes)))
		ok = false
	}
	if b.len1 != len(b.bytes) {
		c.Violation(kind, "size", "len-after-encoding", fmt.Sprintf("Len() = %d after encoding, %d bytes produced", b.len1, len(b.bytes)))
		ok = false
	}
	if len(b.bytes) > 65535 {
		c.Violation(kind, "size", "over-65535", fmt.Sprintf("%d bytes produced for a recipe whose reference size fits", len(b.bytes)))
		ok = false
	}
	// bundle add: the embedded message starts at offset 24 and must be framed the same way
	if m.K == "bundle_add" && len(b.bytes) >= 32 {
		inner := b.bytes[24:]
		il := int(binary.BigEndian.Uint16(inner[2:4]))
		if il <= len(inner) && il >= 8 {
			if !c01Frame(c, kind, m.Sub("message"), inner[:il], "embedded-") {
				ok = false
			}
			// what follows the embedded message must be exactly the bundle's properties (padded to 8 bytes each)
			props := 0
			for _, p := range m.List("properties") {
				props += (4 + len(p.Bytes("body")) + 7) / 8 * 8
			}
			if il+props != len(inner) {
				c.Violation(kind, "frame", "embedded-extent", fmt.Sprintf("embedded message declares %d bytes and %d property bytes are expected, but %d bytes follow the bundle header", il, props, len(inner)))
				ok = false
			}
		} else {
			c.Violation(kind, "frame", "embedded-header-length", fmt.Sprintf("embedded message declares %d bytes, %d available", il, len(inner)))
			ok = false
		}
	}
	if !c01Late(c, kind, m) {
		ok = false
	}
	if (m.K == "flow_mod" || m.K == "bundle_add") && c.Index%4 == 1 && !c01RetypedInstr(c, kind, m) {
		ok = false
	}
	if m.K == "mp_request" && !c01Retyped(c, kind, m) {
		ok = false
	}
	if ok {
		c.Count("framed_ok", 1)
	}
	c.Max("max_message_bytes", int64(len(b.bytes)))
	if len(b.bytes) > 60000 {
		c.Count("near_65535", 1)
	}
	if c.WantSample() && n >= 3 && n <= 6 {
		c.Sample(map[string]any{"recipe": m, "encoded_bytes": len(b.bytes), "header": fmt.Sprintf("%x", b.bytes[:8])})
	}
}

// c01Late repeats the framing check on the same recipe built top-down: variable-size Nicira actions (conntrack, note,
// learn) are attached while empty and grow afterwards. The size a message reports and the header length it writes are
// computed when it is encoded, so they must still agree with the bytes produced.
func c01Late(c *fw.Ctx, kind string, m *rec.Rec) bool {
	switch m.K {
	case "flow_mod", "group_mod", "packet_out", "bundle_add":
	default:
		return true
	}
	var bytes []byte
	var l0, l1, late int
	var err, berr error
	p, pv, st := fw.Recover(func() {
		// every other case also completes NAT actions after they were put into their conntrack action (growth two
		// levels down): whatever the conntrack action then encodes, the frame's length must describe the bytes produced
		msg, n, e := lib.BuildMessageLate(m, c.Index%2 == 1, c.Index%4 >= 2)
		late, berr = n, e
		if e != nil || n == 0 {
			return
		}
		l0 = int(msg.Len())
		bytes, err = msg.MarshalBinary()
		l1 = int(msg.Len())
	})
	if p && c.Index%2 == 1 {
		// completing a NAT action after it went into its conntrack action is not supported by the pinned API (the
		// conntrack action keeps the length it computed at AddAction: it truncates the NAT action or panics when
		// another action follows). Not judged; where the encoder does return, framing is (below).
		c.Count("late_growth_two_levels_down_encoder_panics_not_judged", 1)
		return true
	}
	if p {
		c.Violation(kind, "panic", "late-growth:"+fw.LibFrame(st), pv+"\n"+fw.TrimStack(st))
		return false
	}
	if berr != nil {
		c.Inconclusive("late-growth builder: " + berr.Error())
		return true
	}
	if late == 0 {
		return true
	}
	c.Count("late_growth_histories", 1)
	if err != nil {
		c.Violation(kind, "encode-error", "late-growth", err.Error())
		return false
	}
	ok := c01Frame(c, kind, m, bytes, "late-growth-")
	if l0 != len(bytes) || l1 != len(bytes) {
		c.Violation(kind, "size", "late-growth-len", fmt.Sprintf("%d action(s) grew after being attached: Len() = %d before and %d after encoding, %d bytes produced", late, l0, l1, len(bytes)))
		ok = false
	}
	return ok
}

// c01Retyped: a multipart request value whose Type is switched after it was built (one request value reused for
// several polls) still carries whatever body is attached to it; header length, reported size and bytes must agree.
func c01Retyped(c *fw.Ctx, kind string, m *rec.Rec) bool {
	ok := true
	for _, t := range []uint16{0, 1, 2, 3, 4, 5, 13} {
		var bytes []byte
		var l0, l1 int
		var err, berr error
		p, pv, st := fw.Recover(func() {
			msg, e := lib.BuildMessage(m)
			if e != nil {
				berr = e
				return
			}
			mp, isMP := msg.(*of.MultipartRequest)
			if !isMP {
				berr = fmt.Errorf("not a multipart request")
				return
			}
			mp.Type = t
			l0 = int(mp.Len())
			bytes, err = mp.MarshalBinary()
			l1 = int(mp.Len())
		})
		if berr != nil {
			return ok
		}
		c.Count("retyped_requests", 1)
		if p {
			c.Violation(kind, "panic", "retyped:"+fw.LibFrame(st), fmt.Sprintf("type switched to %d: %s\n%s", t, pv, fw.TrimStack(st)))
			return false
		}
		if err != nil {
			continue
		}
		if len(bytes) < 8 || bytes[0] != 4 || bytes[1] != 18 || int(binary.BigEndian.Uint16(bytes[2:4])) != len(bytes) || l0 != len(bytes) || l1 != len(bytes) {
			c.Violation(kind, "frame", "retyped-header-length", fmt.Sprintf("multipart request built for type %d and then switched to type %d: header %x, Len() %d before / %d after encoding, %d bytes produced", m.U("type"), t, bytes[:minInt(8, len(bytes))], l0, l1, len(bytes)))
			ok = false
		}
	}
	return ok
}

// c01RetypedInstr: action-list instructions switched to another of the three action-list types after they were filled.
func c01RetypedInstr(c *fw.Ctx, kind string, m *rec.Rec) bool {
	ok := true
	var msg util.Message
	var berr error
	if p, _, _ := fw.Recover(func() { msg, berr = lib.BuildMessage(m) }); p || berr != nil {
		return true
	}
	for _, apply := range retypeInstructions(msg) {
		var bytes []byte
		var l0, l1 int
		var err error
		var what string
		p, pv, st := fw.Recover(func() {
			what = apply()
			l0 = int(msg.Len())
			bytes, err = msg.MarshalBinary()
			l1 = int(msg.Len())
		})
		c.Count("retyped_instructions", 1)
		if p {
			c.Violation(kind, "panic", "retyped-instruction:"+fw.LibFrame(st), what+": "+pv+"\n"+fw.TrimStack(st))
			return false
		}
		if err != nil {
			continue
		}
		if len(bytes) < 8 || int(binary.BigEndian.Uint16(bytes[2:4])) != len(bytes) || l0 != len(bytes) || l1 != len(bytes) {
			c.Violation(kind, "frame", "retyped-instruction-header-length", fmt.Sprintf("%s: header %x, Len() %d before / %d after encoding, %d bytes produced", what, bytes[:minInt(8, len(bytes))], l0, l1, len(bytes)))
			ok = false
		}
	}
	return ok
}
