package props

import (
	"encoding/binary"
	"fmt"

	of "github.com/contiv/libOpenflow/openflow13"
	"github.com/contiv/libOpenflow/util"

	"vh/fw"
	"vh/gen"
	"vh/lib"
	"vh/prng"
	"vh/rec"
	"vh/spec"
)

// C02 — nested lengths, alignment and type codes: an independent, strict, length-driven walker must accept every
// encoding and arrive exactly at the end; derived length fields kept by builders must be right after every step.

type c02Case struct {
	Mode   string   `json:"mode"` // msg | element | steps
	Recipe *rec.Rec `json:"recipe"`
}

func init() {
	fw.Register(&fw.Prop{
		ID:       "C02",
		Rule:     "msg: controller-message corpus (as C01) walked by the reference TLV walker; element: every constructible action kind (standard and Nicira, incl. actions nested in conntrack), instruction kind, bucket and match encoded standalone and walked; steps: builder histories (append/prepend on instructions, AddAction on packet-out/bucket/conntrack, AddField on matches) where the derived length field is compared with the walker's recomputation after every call. distinct = hash(mode, recipe without xid); non-trivial = at least 2 nested elements of different kinds or nesting depth >= 3",
		NumCases: func(tier string, seed uint64) int { return nCases(tier, 300000, 16000000) },
		Gen: func(tier string, seed uint64, i int) any {
			switch i % 4 {
			case 0, 1:
				return &c02Case{Mode: "msg", Recipe: ctrlRecipe(2, tier, seed, i)}
			case 2:
				r := prng.Derive(seed, 202, uint64(i))
				var e *rec.Rec
				switch (i / 4) % 4 {
				case 0, 1:
					ks := gen.ActionKinds()
					e = gen.ActionOfKind(r, ks[(i/16)%len(ks)], gen.ActOpt{})
				case 2:
					e = gen.Instruction(r, gen.ActOpt{}, 8)
				default:
					if r.Bool() {
						e = gen.Bucket(r, gen.ActOpt{}, 6)
					} else {
						e = gen.Match(r, 12, gen.MFOpt{})
					}
				}
				return &c02Case{Mode: "element", Recipe: e}
			default:
				r := prng.Derive(seed, 203, uint64(i))
				var e *rec.Rec
				switch (i / 4) % 5 {
				case 0:
					e = gen.InstructionOfKind(r, "apply_actions", gen.ActOpt{}, 12)
				case 1:
					e = gen.ActionOfKind(r, "nx_ct", gen.ActOpt{})
				case 2:
					e = gen.Match(r, 12, gen.MFOpt{})
				case 3:
					e = gen.ControllerMessage(r, "packet_out", gen.MsgOpt{NoTyped: true})
				default:
					e = gen.InstructionOfKind(r, "write_actions", gen.ActOpt{}, 12)
				}
				return &c02Case{Mode: "steps", Recipe: e}
			}
		},
		NewCase: func() any { return new(c02Case) },
		Eval:    c02Eval,
		Minimum: func(a *fw.Agg) error {
			if a.Counters["walked_ok"] < 1000 || a.Counters["steps_checked"] < 1000 || a.SetSize("element_kinds") < 25 {
				return fmt.Errorf("too few observations: %v element kinds %d", a.Counters, a.SetSize("element_kinds"))
			}
			return nil
		},
		Assumptions: []string{
			"the strict walker (harness/spec/ofdec.go) knows the legal type/subtype/class/field codes, per-type fixed sizes, the multiple-of-8 rules and requires padding to be zero; OXM basic fields 41-43 from later OpenFlow versions are accepted (DESIGN.md section 7.4)",
			"builder histories are bottom-up: a child is complete when it is added to its parent",
		},
	})
}

func ruleOf(err error) string {
	if se, ok := err.(*spec.Err); ok {
		return se.Rule
	}
	return "error"
}

func c02Eval(c *fw.Ctx, data any) {
	cs := data.(*c02Case)
	m := cs.Recipe
	if m == nil {
		return
	}
	n, kinds := countNested(m)
	depth := recDepth(m)
	c.Distinct(prng.Hash64(append([]byte(cs.Mode), fmt.Sprint(hashNoXid(m))...)), len(kinds) >= 2 || depth >= 3)
	switch cs.Mode {
	case "msg":
		kind := kindOf(m)
		c.Set("kinds", kind)
		for k := range kinds {
			c.Set("element_kinds", k)
		}
		b := buildEncode(m)
		if reportBuildProblem(c, m, b) {
			return
		}
		if _, err := spec.DecodeMessage(b.bytes); err != nil {
			c.Violation(kind, "grammar", ruleOf(err), fmt.Sprintf("%v\nencoding (%d bytes): %s", err, len(b.bytes), hexHead(b.bytes)))
			return
		}
		c.Count("walked_ok", 1)
		// group-mods (also bundled) once more in a top-down history: buckets recompute their length when they are
		// encoded, and conntrack / note / learn actions keep their own length current, so the grammar must hold
		// when such an action grows after it was put into its bucket (packet-out and instruction containers cache
		// the length at insertion: builder discipline, not judged)
		if inner := m; m.K == "group_mod" || (m.K == "bundle_add" && m.Sub("message") != nil && m.Sub("message").K == "group_mod") {
			_ = inner
			var lb []byte
			var late int
			var lerr error
			p, pv, st := fw.Recover(func() {
				msg, nl, e := lib.BuildMessageLate(m)
				late, lerr = nl, e
				if e == nil && nl > 0 {
					lb, lerr = msg.MarshalBinary()
				}
			})
			if p {
				c.Violation(kind, "panic", "late-growth:"+fw.LibFrame(st), pv+"\n"+fw.TrimStack(st))
			} else if lerr == nil && late > 0 {
				c.Count("late_growth_histories", 1)
				if _, err := spec.DecodeMessage(lb); err != nil {
					c.Violation(kind, "grammar", "late-growth:"+ruleOf(err), fmt.Sprintf("%d action(s) grew after being put into their bucket: %v\nencoding (%d bytes): %s", late, err, len(lb), hexHead(lb)))
				}
			}
		}
		// values that come out of the parser are values too (a relay, a bundle whose properties only a decoder can
		// fill): the reference encoding of the recipe, with experimenter properties on bundle adds, is parsed and the
		// library's re-encoding walked
		if m.K == "bundle_add" || c.Index%8 == 3 {
			// (a recipe of the same kind restricted to what the library decodes: one-way match fields and actions
			// come back from the parser as something else, which is not this property's business)
			r2 := prng.Derive(c.Seed, 2002, uint64(c.Index))
			pm := withBundleProps(r2, gen.ControllerMessage(r2, m.K, gen.MsgOpt{DecodableOnly: true, NoTyped: true}))
			if wire, werr := spec.EncodeMessage(pm); werr == nil && len(wire) <= 65535 {
				var re []byte
				var perr error
				vd := fw.Guard(len(wire), func() {
					var msg util.Message
					if msg, perr = of.Parse(append([]byte(nil), wire...)); perr == nil && !isNil(msg) {
						re, perr = msg.MarshalBinary()
					}
				})
				switch {
				case vd.Class == "panic":
					c.Violation(kind, "panic", "reparsed:"+fw.LibFrame(vd.Stack), vd.Panic+"\n"+fw.TrimStack(vd.Stack))
				case vd.Class != "":
					c.Poison()
				case perr == nil && re != nil:
					c.Count("reparsed_walked", 1)
					if _, err := spec.DecodeMessage(re); err != nil {
						c.Violation(kind, "grammar", "reparsed:"+ruleOf(err), fmt.Sprintf("the re-encoding of a parsed message does not walk: %v\nparsed from (%d bytes): %s\nre-encoded (%d bytes): %s", err, len(wire), hexHead(wire), len(re), hexHead(re)))
					}
				}
			}
		}
		if c.WantSample() && n >= 3 && n <= 6 {
			c.Sample(map[string]any{"mode": "msg", "recipe": m, "walked_bytes": len(b.bytes)})
		}
	case "element":
		c.Set("element_kinds", m.K)
		for k := range kinds {
			c.Set("element_kinds", k)
		}
		var enc []byte
		var err, berr error
		p, pv, st := fw.Recover(func() {
			switch {
			case m.K == "match":
				mt := of.NewMatch()
				if berr = lib.BuildMatch(m, mt); berr == nil {
					enc, err = mt.MarshalBinary()
				}
			case m.K == "bucket":
				var bk *of.Bucket
				if bk, berr = lib.BuildBucket(m); berr == nil {
					enc, err = bk.MarshalBinary()
				}
			case spec.InstrType[m.K] != 0:
				var in of.Instruction
				if in, berr = lib.BuildInstruction(m); berr == nil {
					enc, err = in.MarshalBinary()
				}
			default:
				var a of.Action
				if a, berr = lib.BuildAction(m); berr == nil {
					enc, err = a.MarshalBinary()
				}
			}
		})
		if p {
			c.Violation(m.K, "panic", fw.LibFrame(st), pv+"\n"+fw.TrimStack(st))
			return
		}
		if berr != nil || err != nil {
			c.Violation(m.K, "build-error", "builder", fmt.Sprint(berr, err))
			return
		}
		var werr error
		switch {
		case m.K == "match":
			_, werr = spec.DecodeMatch(enc)
		case m.K == "bucket":
			_, werr = spec.DecodeBucket(enc)
		case spec.InstrType[m.K] != 0:
			var ins []*rec.Rec
			ins, werr = spec.DecodeInstructions(enc)
			if werr == nil && len(ins) != 1 {
				werr = &spec.Err{Rule: "instruction.count", Msg: fmt.Sprintf("%d instructions walked, want 1", len(ins))}
			}
		default:
			_, werr = spec.DecodeAction(enc)
		}
		if werr != nil {
			c.Violation(m.K, "grammar", ruleOf(werr), fmt.Sprintf("%v\nencoding (%d bytes): %s", werr, len(enc), hexHead(enc)))
			return
		}
		c.Count("walked_ok", 1)
		if c.WantSample() && n >= 1 && n <= 3 {
			c.Sample(map[string]any{"mode": "element", "recipe": m, "bytes": fmt.Sprintf("%x", enc)})
		}
	case "steps":
		c02Steps(c, m)
	}
}

func hexHead(b []byte) string {
	if len(b) > 160 {
		return fmt.Sprintf("%x…", b[:160])
	}
	return fmt.Sprintf("%x", b)
}

func recDepth(m *rec.Rec) int {
	d := 0
	for _, s := range m.S {
		if x := recDepth(s); x > d {
			d = x
		}
	}
	for _, l := range m.L {
		for _, e := range l {
			if x := recDepth(e); x > d {
				d = x
			}
		}
	}
	return d + 1
}

// c02Steps replays a builder history and checks the derived length after every call.
func c02Steps(c *fw.Ctx, m *rec.Rec) {
	kind := "steps:" + m.K
	p, pv, st := fw.Recover(func() {
		switch m.K {
		case "apply_actions", "write_actions":
			var in *of.InstrActions
			if m.K == "apply_actions" {
				in = of.NewInstrApplyActions()
			} else {
				in = of.NewInstrWriteActions()
			}
			as, err := lib.BuildActions(m.List("actions"))
			if err != nil {
				c.Violation(kind, "build-error", "builder", err.Error())
				return
			}
			h := m.Bytes("_hist")
			check := func(step int) {
				enc, err := in.MarshalBinary()
				if err != nil {
					c.Violation(kind, "encode-error", "MarshalBinary", err.Error())
					return
				}
				c.Count("steps_checked", 1)
				if int(in.Length) != len(enc) || int(binary.BigEndian.Uint16(enc[2:4])) != len(enc) || int(in.Len()) != len(enc) {
					c.Violation(kind, "derived-length", "instruction.Length", fmt.Sprintf("after step %d: Length field %d, declared %d, Len() %d, bytes %d", step, in.Length, binary.BigEndian.Uint16(enc[2:4]), in.Len(), len(enc)))
				}
				if _, werr := spec.DecodeInstructions(enc); werr != nil {
					c.Violation(kind, "grammar", ruleOf(werr), fmt.Sprintf("after step %d: %v", step, werr))
				}
			}
			check(0)
			if len(h) == 2*len(as) {
				for i := 0; i+1 < len(h); i += 2 {
					in.AddAction(as[h[i]], h[i+1] == 1)
					check(i/2 + 1)
				}
			}
			// a child that grows between two adder calls: the instruction's adder derives the length from the
			// actions it holds, so once it has run again the lengths are in step again (the state in between, after
			// the growth alone, is builder discipline and not judged)
			grown := of.NewNXActionConnTrack()
			in.AddAction(grown, len(h)%4 == 2)
			check(len(as) + 1)
			grown.AddAction(of.NewNXActionCTNAT())
			in.AddAction(of.NewActionOutput(uint32(len(h))), len(h)%3 == 1)
			check(len(as) + 3)
		case "nx_ct":
			empty := m.Clone()
			delete(empty.L, "actions")
			a0, err := lib.BuildAction(empty)
			if err != nil {
				c.Violation(kind, "build-error", "builder", err.Error())
				return
			}
			ct := a0.(*of.NXActionConnTrack)
			nested, err := lib.BuildActions(m.List("actions"))
			if err != nil {
				c.Violation(kind, "build-error", "builder", err.Error())
				return
			}
			check := func(step int) {
				enc, err := ct.MarshalBinary()
				if err != nil {
					c.Violation(kind, "encode-error", "MarshalBinary", err.Error())
					return
				}
				c.Count("steps_checked", 1)
				if int(ct.Length) != len(enc) || int(binary.BigEndian.Uint16(enc[2:4])) != len(enc) || int(ct.Len()) != len(enc) {
					c.Violation(kind, "derived-length", "ct.Length", fmt.Sprintf("after step %d: Length field %d, declared %d, Len() %d, bytes %d", step, ct.Length, binary.BigEndian.Uint16(enc[2:4]), ct.Len(), len(enc)))
				}
				if _, werr := spec.DecodeAction(enc); werr != nil {
					c.Violation(kind, "grammar", ruleOf(werr), fmt.Sprintf("after step %d: %v", step, werr))
				}
			}
			check(0)
			for i, n := range nested {
				ct.AddAction(n)
				check(i + 1)
			}
		case "match":
			mt := of.NewMatch()
			check := func(step int) {
				enc, err := mt.MarshalBinary()
				if err != nil {
					c.Violation(kind, "encode-error", "MarshalBinary", err.Error())
					return
				}
				c.Count("steps_checked", 1)
				d, werr := spec.DecodeMatch(enc)
				if werr != nil {
					c.Violation(kind, "grammar", ruleOf(werr), fmt.Sprintf("after step %d: %v\n%s", step, werr, hexHead(enc)))
					return
				}
				if len(d.List("fields")) != step {
					c.Violation(kind, "grammar", "match.field-count", fmt.Sprintf("after %d AddField calls the walker finds %d fields", step, len(d.List("fields"))))
				}
				if int(mt.Len()) != len(enc) {
					c.Violation(kind, "derived-length", "match.Len", fmt.Sprintf("after step %d: Len() %d, bytes %d", step, mt.Len(), len(enc)))
				}
			}
			check(0)
			for i, fr := range m.List("fields") {
				f, err := lib.BuildMatchField(fr)
				if err != nil {
					c.Violation(kind, "build-error", "builder", err.Error())
					return
				}
				mt.AddField(*f)
				check(i + 1)
			}
		case "packet_out":
			po := of.NewPacketOut()
			po.SetData(m.Bytes("data"))
			as, err := lib.BuildActions(m.List("actions"))
			if err != nil {
				c.Violation(kind, "build-error", "builder", err.Error())
				return
			}
			check := func(step int) {
				enc, err := po.MarshalBinary()
				if err != nil {
					c.Violation(kind, "encode-error", "MarshalBinary", err.Error())
					return
				}
				c.Count("steps_checked", 1)
				d, werr := spec.DecodeMessage(enc)
				if werr != nil {
					c.Violation(kind, "grammar", ruleOf(werr), fmt.Sprintf("after step %d: %v", step, werr))
					return
				}
				if len(d.List("actions")) != step {
					c.Violation(kind, "grammar", "packet_out.action-count", fmt.Sprintf("after %d AddAction calls the walker finds %d actions inside actions_len", step, len(d.List("actions"))))
				}
			}
			check(0)
			for i, a := range as {
				po.AddAction(a)
				check(i + 1)
			}
		}
	})
	if p {
		c.Violation(kind, "panic", fw.LibFrame(st), pv+"\n"+fw.TrimStack(st))
	}
	if c.WantSample() && len(m.List("actions")) == 3 {
		c.Sample(map[string]any{"mode": "steps", "recipe": m})
	}
}
