package props

import (
	"fmt"
	"runtime"
	"sort"
	"strings"
	"sync"
	"sync/atomic"

	"github.com/contiv/libOpenflow/common"
	of "github.com/contiv/libOpenflow/openflow13"
	"github.com/contiv/libOpenflow/protocol"
	"github.com/contiv/libOpenflow/util"

	"vh/fw"
	"vh/gen"
	"vh/lib"
	"vh/prng"
	"vh/rec"
	"vh/spec"
)

// C14 — concurrent use: transaction ids are pairwise distinct across goroutines; independent values built, encoded
// and parsed concurrently give exactly what they give sequentially; no data race on library state.

type c14Case struct {
	Goroutines int    `json:"goroutines"`
	Draws      int    `json:"draws"`   // ids drawn per goroutine
	Recipes    int    `json:"recipes"` // independent values processed sequentially and then concurrently
	Seed       uint64 `json:"seed"`
	Procs      int    `json:"procs"`
	Yield      bool   `json:"yield"`
}

func init() {
	fw.Register(&fw.Prop{
		ID:       "C14",
		Race:     true,
		Rule:     "per case 2..64 goroutines are released together; (a) each draws ids through every route the library offers (the shared OpenFlow 1.3 header generator, generator instances of its own, message constructors NewEchoRequest/NewFlowMod/NewGroupMod/NewPacketOut/NewPortMod/NewSetConfig/NewFeaturesRequest/NewHello, bundle and Nicira vendor constructors, multipart literals) and logs (goroutine, draw, id); all ids of the case must be pairwise distinct, and distinct from every id drawn earlier in the same process; (b) a list of independent recipes (controller messages, switch messages through the parser, packets, DHCP construction, registry lookups and generic match-field building) is processed once sequentially (build, encode, parse, deep dump, re-encode) and then by the goroutines on shuffled partitions; every concurrent result must equal the sequential one; (c) the whole workload runs under the Go race detector and any report with a library frame is a violation. distinct = hash(case parameters); non-trivial = every case (at least 2 goroutines)",
		NumCases: func(tier string, seed uint64) int { return nCases(tier, 480, 40000) },
		Gen:      c14Gen,
		NewCase:  func() any { return new(c14Case) },
		Eval:     c14Eval,
		Minimum: func(a *fw.Agg) error {
			if a.Counters["ids_drawn"] < 100000 || a.Counters["adjacent_ids_from_different_goroutines"] < 1000 || a.Counters["concurrent_results_compared"] < 10000 {
				return fmt.Errorf("too little observed: ids=%d contended=%d compared=%d", a.Counters["ids_drawn"], a.Counters["adjacent_ids_from_different_goroutines"], a.Counters["concurrent_results_compared"])
			}
			return nil
		},
		Assumptions: []string{
			"far fewer than 2^32 ids are drawn per process, so distinctness is required throughout (no wrap)",
			"distinctness is the oracle for ids; monotonicity or absence of gaps is not demanded",
		},
	})
}

func c14Gen(tier string, seed uint64, i int) any {
	r := prng.Derive(seed, 14, uint64(i))
	return &c14Case{Goroutines: r.Pick(2, 3, 4, 8, 16, 32, 64), Draws: r.Pick(50, 200, 1000, 3000), Recipes: r.Pick(40, 120, 300), Seed: r.U64(), Procs: []int{1, 2, 4, 16, 16}[r.Intn(5)], Yield: r.Bool()}
}

// idRoutes: every way the library hands out a transaction id.
var idRoutes = []struct {
	name string
	draw func(own func() common.Header) uint32
}{
	{"NewOfp13Header", func(func() common.Header) uint32 { return of.NewOfp13Header().Xid }},
	{"own-generator", func(own func() common.Header) uint32 { return own().Xid }},
	{"NewEchoRequest", func(func() common.Header) uint32 { return of.NewEchoRequest().Xid }},
	{"NewEchoReply", func(func() common.Header) uint32 { return of.NewEchoReply().Xid }},
	{"NewFeaturesRequest", func(func() common.Header) uint32 { return of.NewFeaturesRequest().Xid }},
	{"NewConfigRequest", func(func() common.Header) uint32 { return of.NewConfigRequest().Xid }},
	{"NewSetConfig", func(func() common.Header) uint32 { return of.NewSetConfig().Xid }},
	{"NewFlowMod", func(func() common.Header) uint32 { return of.NewFlowMod().Xid }},
	{"NewGroupMod", func(func() common.Header) uint32 { return of.NewGroupMod().Xid }},
	{"NewPacketOut", func(func() common.Header) uint32 { return of.NewPacketOut().Xid }},
	{"NewPortMod", func(func() common.Header) uint32 { return of.NewPortMod(1).Xid }},
	{"NewHello", func(func() common.Header) uint32 { h, _ := common.NewHello(4); return h.Xid }},
	{"NewSetControllerID", func(func() common.Header) uint32 { return of.NewSetControllerID(1).Header.Xid }},
	{"NewTLVTableRequest", func(func() common.Header) uint32 { return of.NewTLVTableRequest().Header.Xid }},
	{"NewBundleControl", func(func() common.Header) uint32 {
		return of.NewBundleControl(&of.BundleControl{BundleID: 1}).Header.Xid
	}},
	{"NewBundleAdd", func(func() common.Header) uint32 {
		return of.NewBundleAdd(&of.BundleAdd{BundleID: 1, Message: of.NewEchoRequest()}).Header.Xid
	}},
}

// all ids drawn so far in this worker process (the generator is process-wide)
var c14Seen = map[uint32]bool{}

type c14Work struct {
	kind string
	m    *rec.Rec
	aux  uint64
}

// c14Process runs one independent unit of work and returns a digest of everything it produced.
func c14Process(w c14Work, variant uint64) (digest uint64, perr string) {
	p, pv, st := fw.Recover(func() {
		var parts []byte
		add := func(b []byte) { parts = append(parts, b...); parts = append(parts, 0xfe) }
		switch w.kind {
		case "ctrl":
			msg, err := lib.BuildMessage(w.m)
			if err != nil {
				add([]byte("builderr"))
				break
			}
			b, _ := msg.MarshalBinary()
			add(b)
			if back, err := decodeTop(w.m.K, append([]byte(nil), b...)); err == nil && !isNil(back) {
				add([]byte(lib.Dump(back)))
				b2, _ := back.MarshalBinary()
				add(b2)
			}
		case "switch":
			wire, err := spec.EncodeMessage(w.m)
			if err != nil {
				break
			}
			msg, err := of.Parse(append([]byte(nil), wire...))
			if err != nil || isNil(msg) {
				add([]byte("rejected"))
				break
			}
			add([]byte(lib.Dump(msg)))
			b, _ := msg.MarshalBinary()
			add(b)
		case "packet":
			v, err := lib.BuildPacket(w.m)
			if err != nil {
				break
			}
			b, _ := v.MarshalBinary()
			add(b)
			v2 := lib.NewPacketValue(w.m.K)
			if v2 != nil && v2.UnmarshalBinary(append([]byte(nil), b...)) == nil {
				add([]byte(lib.Dump(v2)))
			}
		case "dhcp":
			d, err := protocol.NewDHCPDiscover(uint32(w.aux), []byte{2, 0, 0, byte(w.aux), 1, 1})
			if err != nil {
				break
			}
			if variant != 0 && w.aux%2 == 0 {
				// in the concurrent pass only: an unrelated message is encoded first, into a destination that is too
				// short (its caller's mistake); what is computed for d must be what the sequential pass computed
				if o, oerr := protocol.NewDHCPOffer(uint32(w.aux)+77, []byte{2, 9, 9, byte(w.aux), 7, 7}); oerr == nil {
					o.Read(make([]byte, 60+int(w.aux%100)))
				}
			}
			buf := make([]byte, 1024)
			n, _ := d.Read(buf)
			add(buf[:n])
		case "dhcp0":
			// "pick a transaction id for me" (xid 0): the id is random, everything else must be as when built alone
			d, err := protocol.NewDHCPRequest(0, []byte{2, 0, 0, byte(w.aux), 1, 1})
			if err != nil {
				break
			}
			buf := make([]byte, 1024)
			n, _ := d.Read(buf)
			if n >= 8 {
				copy(buf[4:8], []byte{0, 0, 0, 0})
			}
			add(buf[:n])
		case "ctor-decode":
			// a constructor-made value is used as the receiver of a decode (of bytes whose padding and reserved parts
			// are not zero), then a fresh value of the same kind is built and encoded: what it encodes to must not
			// depend on what this or any other goroutine decoded
			fill := byte(0x80 | w.aux&0x7f)
			scribble := func(b []byte) []byte {
				o := append([]byte(nil), b...)
				for i := 4; i < len(o); i++ {
					if o[i] == 0 {
						o[i] = fill
					}
				}
				return o
			}
			kinds := gen.ActionKinds()
			k := kinds[int(w.aux>>8)%len(kinds)]
			if a, err := lib.BuildAction(gen.ActionOfKind(prng.New(w.aux), k, gen.ActOpt{})); err == nil {
				if b, err := a.MarshalBinary(); err == nil && len(b) >= 8 {
					if a2, err := lib.BuildAction(gen.ActionOfKind(prng.New(w.aux), k, gen.ActOpt{})); err == nil {
						a2.UnmarshalBinary(scribble(b))
					}
					if a3, err := lib.BuildAction(gen.ActionOfKind(prng.New(w.aux), k, gen.ActOpt{})); err == nil {
						b3, _ := a3.MarshalBinary()
						add(b3)
					}
				}
			}
			e := ctorTable[int(w.aux>>16)%len(ctorTable)]
			mk := ctorByName(e.name)
			if b, err := mk().MarshalBinary(); err == nil && len(b) >= 4 {
				mk().UnmarshalBinary(scribble(b))
				b3, _ := mk().MarshalBinary()
				add(b3)
			}
		case "registry":
			names := []string{"NXM_NX_REG0", "NXM_NX_REG7", "NXM_NX_CT_MARK", "OXM_OF_METADATA", "NXM_NX_TUN_ID", "nxm_nx_reg3", "NXM_NX_XXREG1", "NXM_NX_CT_LABEL", "OXM_OF_ETH_DST"}
			// the letter case of the spelling differs between the sequential and the concurrent pass (and between
			// units): results must not depend on it, and a lookup must not write shared state for a new spelling
			name := randomCase(names[w.aux%uint64(len(names))], prng.Derive(w.aux, variant))
			f, err := of.FindFieldHeaderByName(name, w.aux&1 == 1)
			if err != nil {
				break
			}
			add([]byte(fmt.Sprintf("%d/%d/%d/%v", f.Class, f.Field, f.Length, f.HasMask)))
			mf, err := of.NewMatchField[uint64, int](name, w.aux&0xff, 4, 8)
			if err == nil {
				b, _ := mf.MarshalBinary()
				add(b)
			}
		}
		digest = prng.Hash64(parts)
	})
	if p {
		return 0, pv + "\n" + fw.TrimStack(st)
	}
	return digest, ""
}

var c14ErrNoise atomic.Int64

// c14Cold: has this worker process already used the library? State that is initialised lazily on first use can
// only race on a cold process, so the first case of every process starts with a "first use" storm, and processes
// are recycled often.
var c14Cold = true
var c14CasesInProcess int

// coldStorm lets many goroutines perform the same list of first uses at once - every match-field constructor, every
// tunnel-metadata index, registry lookups, every action kind, packet and DHCP construction - and requires that they
// all produced the same bytes (the race detector watches the initialisation).
func coldStorm(c *fw.Ctx, seed uint64) {
	gen.HoldDefaults.Store(true)
	defer gen.HoldDefaults.Store(false)
	const G = 24
	digests := make([][]uint64, G)
	start := make(chan struct{})
	var wg sync.WaitGroup
	for g := 0; g < G; g++ {
		wg.Add(1)
		go func(g int) {
			defer wg.Done()
			<-start
			var d []uint64
			add := func(b []byte) { d = append(d, prng.Hash64(b)) }
			// the very first thing every goroutine does: name lookups in spellings other than the registry's own
			// (lower case as ovs-ofctl prints them, mixed case), which no earlier call in this process has used
			for _, n := range []string{"nxm_nx_reg0", "Nxm_Nx_Ct_Zone", "oxm_of_metadata", "nxm_nx_xxreg2"} {
				if f, err := of.FindFieldHeaderByName(n, true); err == nil {
					add([]byte(fmt.Sprintf("%d/%d/%d", f.Class, f.Field, f.Length)))
				}
			}
			d = append(d, 0xfeedface+4)
			order := prng.Derive(seed, uint64(g)).Perm(4)
			for _, phase := range order { // each goroutine visits the phases in its own order
				switch phase {
				case 0:
					for i, ct := range lib.MFCtors {
						fw.Recover(func() {
							r := prng.Derive(seed, 99, uint64(i))
							if f, err := lib.BuildMatchField(gen.MatchFieldFor(r, ct, gen.MFOpt{})); err == nil {
								b, _ := f.MarshalBinary()
								add(b)
							}
						})
					}
				case 1:
					for idx := 0; idx < 8; idx++ {
						fw.Recover(func() {
							f := of.NewTunMetadataField(idx, []byte{1, 2, 3, 4}, []byte{0xff, 0, 0xff, 0})
							b, _ := f.MarshalBinary()
							add(b)
						})
					}
					for _, n := range []string{"NXM_NX_REG0", "NXM_NX_TUN_METADATA3", "OXM_OF_METADATA", "NXM_NX_CT_ZONE", "NXM_NX_XXREG2"} {
						if f, err := of.FindFieldHeaderByName(n, true); err == nil {
							add([]byte(fmt.Sprintf("%d/%d/%d", f.Class, f.Field, f.Length)))
						}
					}
				case 2:
					for i, k := range gen.ActionKinds() {
						fw.Recover(func() {
							r := prng.Derive(seed, 98, uint64(i))
							if a, err := lib.BuildAction(gen.ActionOfKind(r, k, gen.ActOpt{})); err == nil {
								b, _ := a.MarshalBinary()
								add(b)
							}
						})
					}
				default:
					for i := 0; i < 6; i++ {
						dg, _ := c14Process(c14Work{kind: []string{"dhcp", "packet", "switch", "ctrl", "registry", "packet"}[i], aux: uint64(i + 1),
							m: map[int]*rec.Rec{1: pktRecipe(prng.Derive(seed, 97), 1), 5: pktRecipe(prng.Derive(seed, 96), 5), 2: switchRecipe(14, seed, 7), 3: ctrlRecipe(14, "quick", seed, 9)}[i]}, 0)
						d = append(d, dg)
					}
				}
				// keep per-phase results at fixed positions regardless of the visiting order
				d = append(d, 0xfeedface+uint64(phase))
			}
			digests[g] = d
		}(g)
	}
	close(start)
	wg.Wait()
	c.Count("cold_start_storms", 1)
	canon := func(d []uint64) string { // group by phase marker so that the visiting order does not matter
		parts := map[uint64][]uint64{}
		var cur []uint64
		for _, x := range d {
			if x >= 0xfeedface && x < 0xfeedface+5 {
				parts[x] = cur
				cur = nil
				continue
			}
			cur = append(cur, x)
		}
		return fmt.Sprint(parts[0xfeedface], parts[0xfeedface+1], parts[0xfeedface+2], parts[0xfeedface+3], parts[0xfeedface+4])
	}
	ref := canon(digests[0])
	for g := 1; g < G; g++ {
		if canon(digests[g]) != ref {
			c.Violation("crosstalk", "result-differs", "cold-start", fmt.Sprintf("goroutine %d of %d performing the same first uses of the library (constructors, lookups, encoders) at process start produced different bytes than goroutine 0", g, G))
			break
		}
	}
}

func c14Eval(c *fw.Ctx, data any) {
	cs := data.(*c14Case)
	old := runtime.GOMAXPROCS(cs.Procs)
	defer runtime.GOMAXPROCS(old)
	if c14Cold {
		c14Cold = false
		if cs.Procs < 4 {
			runtime.GOMAXPROCS(4)
		}
		coldStorm(c, cs.Seed)
		runtime.GOMAXPROCS(cs.Procs)
	}
	c14CasesInProcess++
	if c14CasesInProcess >= 5 {
		c.Recycle()
	}
	G := cs.Goroutines
	c.Distinct(prng.Hash64([]byte(fmt.Sprintf("%+v", *cs))), true)
	c.Set("goroutines", fmt.Sprint(G))
	c.Set("gomaxprocs", fmt.Sprint(cs.Procs))

	// ---- (a) ids ----
	type draw struct {
		xid   uint32
		g, i  int
		route int
	}
	logs := make([][]draw, G)
	start := make(chan struct{})
	var wg sync.WaitGroup
	for g := 0; g < G; g++ {
		wg.Add(1)
		go func(g int) {
			defer wg.Done()
			own := common.NewHeaderGenerator(4)
			r := prng.Derive(cs.Seed, 1, uint64(g))
			l := make([]draw, 0, cs.Draws)
			<-start
			for i := 0; i < cs.Draws; i++ {
				rt := r.Intn(len(idRoutes))
				if i%4 != 0 {
					rt = r.Intn(2) // mostly the bare generators: maximum contention on the counter
				}
				l = append(l, draw{idRoutes[rt].draw(own), g, i, rt})
				if cs.Yield && i%64 == 0 {
					runtime.Gosched()
				}
			}
			logs[g] = l
		}(g)
	}
	close(start)
	wg.Wait()
	var all []draw
	for _, l := range logs {
		all = append(all, l...)
	}
	sort.Slice(all, func(i, j int) bool { return all[i].xid < all[j].xid })
	c.Count("ids_drawn", int64(len(all)))
	for i := range all {
		c.Set("id_routes", idRoutes[all[i].route].name)
		if i > 0 {
			if all[i].xid == all[i-1].xid {
				a, b := all[i-1], all[i]
				c.Violation("ids", "duplicate", "same-case", fmt.Sprintf("transaction id %d was handed out twice: to goroutine %d (draw %d, via %s) and goroutine %d (draw %d, via %s); %d goroutines, GOMAXPROCS %d", a.xid, a.g, a.i, idRoutes[a.route].name, b.g, b.i, idRoutes[b.route].name, G, cs.Procs))
				break
			}
			if all[i].g != all[i-1].g {
				c.Count("adjacent_ids_from_different_goroutines", 1)
			}
		}
	}
	for _, d := range all {
		if c14Seen[d.xid] {
			c.Violation("ids", "duplicate", "across-cases", fmt.Sprintf("transaction id %d had already been handed out earlier in this process", d.xid))
			break
		}
	}
	if len(c14Seen) < 20<<20 {
		for _, d := range all {
			c14Seen[d.xid] = true
		}
	}

	// ---- independence by construction: two values from the same constructor share no caller-visible memory ----
	if c.Index%4 == 0 {
		c14Disjoint(c)
	}
	// ---- a long run of the generator: ids stay distinct well past 2^24 draws in one process ----
	if c.Index == 1 || c.Index%400 == 399 {
		c14Marathon(c)
	}

	// ---- (b) cross-talk ----
	var work []c14Work
	r := prng.Derive(cs.Seed, 2)
	for k := 0; k < cs.Recipes; k++ {
		idx := int(r.U32() >> 4)
		switch k % 8 {
		case 0, 1, 2:
			work = append(work, c14Work{kind: "ctrl", m: ctrlRecipe(14, c.Tier, cs.Seed, idx)})
		case 3, 4:
			work = append(work, c14Work{kind: "switch", m: switchRecipe(14, cs.Seed, idx)})
		case 5:
			work = append(work, c14Work{kind: "packet", m: pktRecipe(prng.Derive(cs.Seed, 3, uint64(k)), k)})
		case 6:
			if k%16 == 6 {
				work = append(work, c14Work{kind: "dhcp0", aux: uint64(k)})
			} else {
				work = append(work, c14Work{kind: "dhcp", aux: uint64(k)})
			}
		default:
			if k%16 == 15 {
				work = append(work, c14Work{kind: "ctor-decode", aux: r.U64()})
			} else {
				work = append(work, c14Work{kind: "registry", aux: r.U64()})
			}
		}
	}
	seq := make([]uint64, len(work))
	alone := make([]bool, len(work)) // units that panic even when run alone (undecodable shapes: other properties' business) are not compared
	for k, w := range work {
		d, perr := c14Process(w, 0)
		if perr != "" {
			alone[k] = true
			c.Count("units_panicking_alone_skipped", 1)
		}
		seq[k] = d
	}
	conc := make([]uint64, len(work))
	perrs := make([]string, len(work))
	perm := r.Perm(len(work))
	start2 := make(chan struct{})
	for g := 0; g < G; g++ {
		wg.Add(1)
		go func(g int) {
			defer wg.Done()
			<-start2
			for j := g; j < len(perm); j += G {
				k := perm[j]
				if k%3 == 0 {
					// other users of the library run into errors meanwhile (a failed encode or decode must not leave
					// anything behind that an unrelated unit of work picks up)
					errorNoise(prng.Derive(cs.Seed, 77, uint64(k)), 2)
					c14ErrNoise.Add(1)
				}
				conc[k], perrs[k] = c14Process(work[k], 1)
			}
		}(g)
	}
	close(start2)
	wg.Wait()
	c.Count("error_path_calls_interleaved", c14ErrNoise.Swap(0)*2)
	for k := range work {
		if alone[k] {
			continue
		}
		c.Count("concurrent_results_compared", 1)
		c.Set("work_kinds", work[k].kind)
		if perrs[k] != "" {
			c.Violation("crosstalk", "panic", work[k].kind, "a unit of work that runs cleanly alone panicked when run concurrently with others:\n"+perrs[k])
			continue
		}
		if conc[k] != seq[k] {
			desc := work[k].kind
			if work[k].m != nil {
				desc += ":" + kindOf(work[k].m)
			}
			c.Violation("crosstalk", "result-differs", work[k].kind, fmt.Sprintf("unit %d (%s) produced different bytes/values when processed concurrently with %d other goroutines than when processed alone", k, desc, G-1))
		}
	}
	c14SharedReadOnly(c, cs, G)
	if c.WantSample() {
		var ex []string
		for i := 0; i < len(all) && i < 6; i++ {
			ex = append(ex, fmt.Sprintf("id %d -> goroutine %d draw %d via %s", all[i].xid, all[i].g, all[i].i, idRoutes[all[i].route].name))
		}
		c.Sample(map[string]any{"case": cs, "lowest_ids": ex, "work_units": len(work)})
	}
	_ = util.Message(nil)
}

// c14SharedReadOnly: values that are only ever read may be shared between goroutines (a range object describing a
// register window, a field header obtained once from the registry). Their observers are asked concurrently, the first
// time on a fresh object, and must answer what the closed form says (a lazily filled cache inside such a value is a
// data race and can hand a half-built answer to the second reader).
func c14SharedReadOnly(c *fw.Ctx, cs *c14Case, G int) {
	r := prng.Derive(cs.Seed, 1416)
	type rg struct {
		first, last int
		obj         *of.NXRange
	}
	var ranges []rg
	for k := 0; k < 24; k++ {
		first := r.Intn(32)
		last := r.Range(first, 31)
		if k%3 == 0 {
			first, last = 0, 31-k%8
		}
		if k%2 == 0 {
			ranges = append(ranges, rg{first, last, of.NewNXRange(first, last)})
		} else {
			ranges = append(ranges, rg{first, last, of.NewNXRangeByOfsNBits(first, last-first+1)})
		}
	}
	var hdrs []*of.MatchField
	for _, n := range []string{"NXM_NX_REG4", "NXM_NX_CT_LABEL", "OXM_OF_IPV6_SRC", "NXM_NX_TUN_ID"} {
		if f, err := of.FindFieldHeaderByName(n, true); err == nil && f != nil {
			hdrs = append(hdrs, f)
		}
	}
	wantHdr := make([]uint32, len(hdrs))
	for i, f := range hdrs {
		wantHdr[i] = uint32(f.Class)<<16 | uint32(f.Field)<<9 | uint32(f.Length)
		if f.HasMask {
			wantHdr[i] |= 1 << 8
		}
	}
	bad := make([]string, G)
	start := make(chan struct{})
	var wg sync.WaitGroup
	for g := 0; g < G; g++ {
		wg.Add(1)
		go func(g int) {
			defer wg.Done()
			<-start
			p, pv, st := fw.Recover(func() {
				for pass := 0; pass < 3; pass++ {
					for k := range ranges {
						x := ranges[(k+g)%len(ranges)]
						n := x.last - x.first + 1
						wantMask := uint32((uint64(1)<<uint(n) - 1) << uint(x.first))
						for step := 0; step < 4; step++ {
							switch (step + g) % 4 {
							case 0:
								if m := x.obj.ToUint32Mask(); m != wantMask && bad[g] == "" {
									bad[g] = fmt.Sprintf("range %d..%d shared by %d goroutines: ToUint32Mask() = %#08x, want %#08x", x.first, x.last, G, m, wantMask)
								}
							case 1:
								if w := x.obj.ToOfsBits(); w != uint16(x.first<<6|(n-1)) && bad[g] == "" {
									bad[g] = fmt.Sprintf("range %d..%d shared by %d goroutines: ToOfsBits() = %#04x, want %#04x", x.first, x.last, G, w, x.first<<6|(n-1))
								}
							case 2:
								if o := x.obj.GetOfs(); int(o) != x.first && bad[g] == "" {
									bad[g] = fmt.Sprintf("range %d..%d shared by %d goroutines: GetOfs() = %d", x.first, x.last, G, o)
								}
							default:
								if nb := x.obj.GetNbits(); int(nb) != n && bad[g] == "" {
									bad[g] = fmt.Sprintf("range %d..%d shared by %d goroutines: GetNbits() = %d, want %d", x.first, x.last, G, nb, n)
								}
							}
						}
					}
					for i, f := range hdrs {
						if w := f.MarshalHeader(); w != wantHdr[i] && bad[g] == "" {
							bad[g] = fmt.Sprintf("field header shared by %d goroutines: MarshalHeader() = %#08x, want %#08x", G, w, wantHdr[i])
						}
					}
				}
			})
			if p && bad[g] == "" {
				bad[g] = "panic: " + pv + "\n" + fw.TrimStack(st)
			}
		}(g)
	}
	close(start)
	wg.Wait()
	c.Count("shared_read_only_values_observed_concurrently", int64(len(ranges)+len(hdrs)))
	for _, b := range bad {
		if b != "" {
			c.Violation("crosstalk", "result-differs", "shared-read-only-value", b)
			break
		}
	}
}

// c14Disjoint builds every constructor-table value twice and requires that no slice a caller can reach through
// exported fields has the same backing array in both: otherwise editing one message in place (h.Elements[0].Bitmaps[0] = x)
// edits the other, which is cross-talk between independent values and a data race when they live on two goroutines.
// Memory reachable only through unexported fields is not judged here (whether the library writes it is observed by
// the sequential-versus-concurrent comparison, C13's interfering decodes and the race detector).
func c14Disjoint(c *fw.Ctx) {
	exportedPath := func(p string) bool {
		for _, seg := range strings.Split(p, ".") {
			if seg == "" {
				continue
			}
			name := strings.TrimSuffix(seg, "(*)")
			if i := strings.Index(name, "["); i >= 0 {
				name = name[:i]
			}
			if name != "" && (name[0] < 'A' || name[0] > 'Z') {
				return false
			}
		}
		return true
	}
	for _, e := range ctorTable {
		fw.Recover(func() {
			a, b := e.mk(), e.mk()
			ra, rb := lib.Objects(a), lib.Objects(b)
			c.Count("constructor_pairs_checked", 1)
			for _, x := range ra {
				if x.Size == 0 || !exportedPath(x.Path) {
					continue
				}
				for _, y := range rb {
					if y.Size == 0 || !exportedPath(y.Path) {
						continue
					}
					if x.Ptr < y.Ptr+y.Size && y.Ptr < x.Ptr+x.Size {
						c.Violation("crosstalk", "shared-memory", e.name, fmt.Sprintf("two values made by %s share the backing array of %s / %s: editing one in place changes the other", e.name, x.Path, y.Path))
						return
					}
				}
			}
		})
	}
}

// c14Marathon draws 2^24 + 2^17 ids from the process-wide generator on 8 goroutines and checks them for duplicates in a
// chunked bit set (a counter narrowed to 16, 20 or 24 bits repeats itself within this run; 2^32 is out of reach and
// excluded by assumption).
func c14Marathon(c *fw.Ctx) {
	const G = 8
	const total = 1<<24 + 1<<17
	logs := make([][]uint32, G)
	var wg sync.WaitGroup
	start := make(chan struct{})
	for g := 0; g < G; g++ {
		wg.Add(1)
		go func(g int) {
			defer wg.Done()
			l := make([]uint32, 0, total/G)
			<-start
			for i := 0; i < total/G; i++ {
				l = append(l, of.NewOfp13Header().Xid)
			}
			logs[g] = l
		}(g)
	}
	close(start)
	wg.Wait()
	bits := map[uint32]*[1024]uint64{}
	n := 0
	for g, l := range logs {
		for i, id := range l {
			ch := bits[id>>16]
			if ch == nil {
				ch = new([1024]uint64)
				bits[id>>16] = ch
			}
			w, b := (id&0xffff)>>6, uint64(1)<<(id&63)
			if ch[w]&b != 0 {
				c.Violation("ids", "duplicate", "long-run", fmt.Sprintf("transaction id %d (%#x) was handed out twice within %d consecutive draws on %d goroutines (second time: goroutine %d, its draw %d)", id, id, total, G, g, i))
				c.Count("marathon_ids_drawn", int64(n))
				return
			}
			ch[w] |= b
			n++
		}
	}
	c.Count("marathon_ids_drawn", int64(n))
	c.Count("marathons", 1)
}
