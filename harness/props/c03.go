package props

import (
	"bytes"
	"fmt"

	"vh/fw"
	"vh/rec"
	"vh/spec"
)

// C03 — encoded fields sit at their specified offsets with the supplied values: the library's bytes must equal the
// independent reference encoder's bytes, and the independent decoder must recover the recipe from them.

func init() {
	fw.Register(&fw.Prop{
		ID:       "C03",
		Rule:     "the controller-message corpus of C01 (all kinds, boundary-biased values in every field, every optional part present/absent, every match-field constructor with and without mask, all NAT range subsets, learn specs of every kind, conntrack with immediate/field zone) is built through the API; the encoding is compared byte for byte with the reference encoder and the reference decoder's tree with the recipe. distinct = hash(recipe without xid); non-trivial = at least one nested element or one field different from its constructor default",
		NumCases: func(tier string, seed uint64) int { return nCases(tier, 300000, 16000000) },
		Gen:      func(tier string, seed uint64, i int) any { return ctrlRecipe(3, tier, seed, i) },
		NewCase:  func() any { return new(rec.Rec) },
		Eval:     c03Eval,
		Minimum: func(a *fw.Agg) error {
			if a.SetSize("kinds") < 30 || a.SetSize("nested_kinds") < 35 || a.SetSize("mf_ctors") < 100 {
				return fmt.Errorf("coverage too small: kinds=%d nested=%d ctors=%d", a.SetSize("kinds"), a.SetSize("nested_kinds"), a.SetSize("mf_ctors"))
			}
			if a.Counters["bytes_equal"] < 1000 {
				return fmt.Errorf("only %d encodings compared equal", a.Counters["bytes_equal"])
			}
			return needKinds(a, "kinds", "ctrl")
		},
		Assumptions: []string{
			"the reference encoder/decoder (harness/spec) is transcribed from OpenFlow 1.3.5, OVS nicira-ext.h/meta-flow.h and ONF EXT-230 as written out in SPEC_NOTES.md; it is validated to be self-inverse on the generated corpus (harness/gen/gen_test.go)",
			"equality with an independent encoder also checks that pad bytes are zero",
		},
	})
}

func c03Eval(c *fw.Ctx, data any) {
	m := data.(*rec.Rec)
	kind := kindOf(m)
	n, kinds := countNested(m)
	c.Distinct(hashNoXid(m), true)
	c.Set("kinds", kind)
	for k := range kinds {
		c.Set("nested_kinds", k)
	}
	m.Walk(func(r *rec.Rec) {
		if r.K == "mf" {
			c.Set("mf_ctors", r.Text("_ctor"))
			if r.Bool("hasmask") {
				c.Set("mf_ctors_masked", r.Text("_ctor"))
			}
		}
	})
	want, err := spec.EncodeMessage(m)
	if err != nil {
		c.Inconclusive("reference encoder: " + err.Error())
		return
	}
	b := buildEncode(m)
	if reportBuildProblem(c, m, b) {
		return
	}
	if bytes.Equal(b.bytes, want) {
		c.Count("bytes_equal", 1)
		if c.WantSample() && n >= 2 && n <= 5 {
			c.Sample(map[string]any{"recipe": m, "bytes": fmt.Sprintf("%x", b.bytes)})
		}
		return
	}
	// locate the difference as a field path
	off := 0
	for off < len(b.bytes) && off < len(want) && b.bytes[off] == want[off] {
		off++
	}
	canon := spec.Canon(normPayloadRec(m.Clone()))
	got, derr := spec.DecodeMessage(b.bytes)
	locus := ""
	detail := ""
	if derr != nil {
		rule := "error"
		if se, ok := derr.(*spec.Err); ok {
			rule = se.Rule
		}
		locus = "undecodable:" + rule
		detail = derr.Error()
	} else if ds := rec.DiffAll(canon, spec.Canon(got), 8); len(ds) > 0 {
		// one violation per differing field, so that a known difference cannot hide another one
		for _, d := range ds {
			c.Violation(kind, "field", locusOf(canon, d.Path), fmt.Sprintf("field %s: supplied vs decoded from the library's bytes: %s; first differing byte at offset %d (library %d bytes, reference %d bytes)\nlibrary:   %s\nreference: %s",
				d.Path, d.Detail, off, len(b.bytes), len(want), window(b.bytes, off), window(want, off)))
		}
		return
	} else {
		locus = "bytes-differ-tree-equal"
		detail = "the decoded tree equals the recipe but the bytes differ from the reference encoding"
	}
	c.Violation(kind, "field", locus, fmt.Sprintf("%s; first differing byte at offset %d (library %d bytes, reference %d bytes)\nlibrary:   %s\nreference: %s",
		detail, off, len(b.bytes), len(want), window(b.bytes, off), window(want, off)))
}

func window(b []byte, off int) string {
	lo := off - 8
	if lo < 0 {
		lo = 0
	}
	hi := off + 24
	if hi > len(b) {
		hi = len(b)
	}
	if lo > hi {
		lo = hi
	}
	return fmt.Sprintf("[%d:%d] %x", lo, hi, b[lo:hi])
}

// normPayloadRec replaces a typed packet payload recipe by its reference bytes (payloads are compared as bytes).
func normPayloadRec(m *rec.Rec) *rec.Rec {
	m.Walk(func(r *rec.Rec) {
		if (r.K == "packet_in" || r.K == "packet_out") && r.Sub("packet") != nil {
			if b, err := spec.EncodePacket(r.Sub("packet")); err == nil {
				delete(r.S, "packet")
				r.SetB("data", b)
			}
		}
	})
	return m
}
