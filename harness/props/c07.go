package props

import (
	"encoding/binary"
	"encoding/hex"
	"fmt"

	of "github.com/contiv/libOpenflow/openflow13"
	"github.com/contiv/libOpenflow/util"

	"vh/fw"
	"vh/gen"
	"vh/prng"
	"vh/rec"
	"vh/sched"
	"vh/spec"
)

// C07 — the OpenFlow parser entry point is total: for any bytes it returns a message or an error, never panics,
// and stays within CPU and allocation budgets proportional to the input.

type c07Case struct {
	Mode   string   `json:"mode"` // base | tiny | input
	Side   string   `json:"side,omitempty"`
	Recipe *rec.Rec `json:"recipe,omitempty"`
	Hex    string   `json:"hex,omitempty"`   // mode input: the exact bytes given to the parser
	Class  string   `json:"class,omitempty"` // mutation class that produced Hex
}

var c07Calls int    // calls made by this worker process
var c07Recorded int // inputs whose hash this worker process has recorded

func init() {
	fw.Register(&fw.Prop{
		ID:       "C07",
		Rule:     "base frames: conformant switch- and controller-originated messages of every kind written by the reference encoder (sizes 8 bytes .. 64 KiB); for each base the parser entry point is run on the base and on its hostile variants: every truncation (with the header length left as is and rewritten), every byte set to 16 boundary values and 6 relative ones, every 16-bit word at every offset set to 24 values (0, 1, small, remaining length and its neighbours, total length, +-1, +-8, 0x7fff.., 0xffff), 32-bit words, span deletions/duplications, extensions up to 65535 bytes, random multi-byte corruption, random tails, and second-generation variants of variants the parser accepted; plus all inputs of 0..12 bytes over every type code. Each call runs under a monitor: panic, more than 4 CPU-seconds, or more than 4 MiB + 1024 x len allocated is a violation; so is returning neither message nor error. distinct = hash(input); non-trivial = differs from its base and has a complete header with a type code the parser dispatches (recorded for the first 150000 inputs of each worker: a lower bound)",
		NumCases: func(tier string, seed uint64) int { return nCases(tier, 2000, 160000) },
		Gen:      c07Gen,
		NewCase:  func() any { return new(c07Case) },
		Eval:     c07Eval,
		Minimum: func(a *fw.Agg) error {
			if a.Evals < 100000 || a.SetSize("types") < 20 || a.Counters["accepted_variants"] < 1000 || a.Counters["rejected_variants"] < 1000 {
				return fmt.Errorf("too little observed: evals=%d types=%d accepted=%d rejected=%d", a.Evals, a.SetSize("types"), a.Counters["accepted_variants"], a.Counters["rejected_variants"])
			}
			return needKinds(a, "base_kinds", "switch", "ctrl")
		},
		Assumptions: []string{
			"budgets: 4 CPU-seconds (process CPU time, not wall clock) and 4 MiB + 1024 bytes per input byte of cumulative allocation per call; a slower-than-linear decoder inside these budgets is not detected",
			"inputs are at most 65535 bytes (the frame limit)",
		},
	})
}

func c07Gen(tier string, seed uint64, i int) any {
	if i%97 == 0 {
		return &c07Case{Mode: "tiny", Side: fmt.Sprint(i / 97)}
	}
	if i%13 == 5 { // hostile frames through a real MessageStream: a crash or a wedge there takes the controller down
		return &c07Case{Mode: "stream", Side: "switch", Recipe: switchRecipe(77, seed, i/13)}
	}
	// the recipe index is i/2 so that the side (parity of i) does not select the message kinds (index modulo a list length)
	if i%2 == 0 {
		return &c07Case{Mode: "base", Side: "switch", Recipe: switchRecipe(7, seed, i/2)}
	}
	return &c07Case{Mode: "base", Side: "ctrl", Recipe: withBundleProps(prng.Derive(seed, 70, uint64(i)), ctrlRecipe(7, tier, seed, i/2))}
}

func ofFix(b []byte) {
	if len(b) >= 4 {
		binary.BigEndian.PutUint16(b[2:], uint16(len(b)))
	}
}

type c07Run struct {
	c         *fw.Ctx
	recorded  int
	stop      bool
	survivors [][]byte
	base      []byte
}

func typeKind(in []byte) string {
	if len(in) < 2 {
		return "short"
	}
	return fmt.Sprintf("type=%d", in[1])
}

// parseTotal runs one input through the parser entry point under the totality monitor. Returns false when the
// process is poisoned (a runaway call is still executing) and the case must end.
func (t *c07Run) run(class string, in []byte) bool {
	c := t.c
	var msg util.Message
	var err error
	// like the contents of a pooled receive buffer, every third input is a window of a larger array with stale
	// bytes behind it (cap > len): a decoder that slices past the end of its input then reads them instead of failing
	c07Calls++
	if c07Calls%3 == 1 {
		big := make([]byte, len(in)+40)
		for i := range big {
			big[i] = 0xee
		}
		copy(big, in)
		in = big[:len(in)]
	}
	v := fw.Guard(len(in), func() { msg, err = of.Parse(in) })
	nontrivial := len(in) >= 8 && in[1] <= 29 && t.base != nil
	if c07Recorded < 150000 {
		c07Recorded++
		c.Distinct(prng.Hash64(in), nontrivial)
	} else {
		c.Evaluations(1)
	}
	c.Count("class:"+class, 1)
	report := func(cls, locus, detail string) {
		c.ViolationCase(typeKind(in), cls, locus, detail+"\nmutation class: "+class+"\ninput ("+fmt.Sprint(len(in))+" bytes): "+hexHead(in), &c07Case{Mode: "input", Hex: hex.EncodeToString(in), Class: class})
	}
	switch v.Class {
	case "panic":
		report("panic", fw.LibFrame(v.Stack), v.Panic+"\n"+fw.TrimStack(v.Stack))
		return true
	case "cpu":
		report("hang", "cpu", fmt.Sprintf("the parser used more than %v of CPU on a %d-byte input (allocated %d bytes so far) and had not returned", fw.CPUBudget, len(in), v.Alloc))
		c.Poison()
		t.stop = true
		return false
	case "alloc":
		report("alloc", "memory", fmt.Sprintf("the parser allocated %d bytes for a %d-byte input (budget %d)", v.Alloc, len(in), fw.AllocBase+fw.AllocPerByte*len(in)))
		c.Poison()
		t.stop = true
		return false
	}
	c.Max("max_alloc_per_call", int64(v.Alloc))
	if len(in) >= 2 {
		c.Set("types", fmt.Sprint(in[1]))
	}
	switch {
	case err != nil:
		c.Count("rejected_variants", 1)
		e := err.Error()
		if len(e) > 80 {
			e = e[:80]
		}
		c.Set("errors", e)
	case isNil(msg):
		report("no-result", "nil,nil", "the parser returned neither a message nor an error")
	default:
		c.Count("accepted_variants", 1)
		if t.base != nil && len(t.survivors) < 6 && class != "valid" && c.Index%3 == 0 {
			t.survivors = append(t.survivors, append([]byte(nil), in...))
		}
	}
	return true
}

func c07Eval(c *fw.Ctx, data any) {
	cs := data.(*c07Case)
	t := &c07Run{c: c}
	switch cs.Mode {
	case "input":
		in, err := hex.DecodeString(cs.Hex)
		if err != nil {
			c.Inconclusive("bad hex in case")
			return
		}
		t.base = in
		t.run(cs.Class, in)
		return
	case "tiny":
		var k uint64
		fmt.Sscan(cs.Side, &k)
		r := prng.Derive(c.Seed, 707, k)
		for n := 0; n <= 12; n++ {
			for typ := 0; typ < 34; typ++ {
				for _, ver := range []byte{4, 1, 0, 0xff} {
					for fill := 0; fill < 3; fill++ {
						in := make([]byte, n)
						switch fill {
						case 1:
							for j := range in {
								in[j] = 0xff
							}
						case 2:
							copy(in, r.Bytes(n))
						}
						if n > 0 {
							in[0] = ver
						}
						if n > 1 {
							in[1] = byte(typ)
						}
						if !t.run("tiny", in) {
							return
						}
						if n >= 4 {
							in2 := append([]byte(nil), in...)
							ofFix(in2)
							if !t.run("tiny+fix", in2) {
								return
							}
						}
					}
				}
			}
		}
		// bundle-adds nested d levels deep around an innermost message that is valid, of an unknown type, truncated or
		// random: recursion depth and repeated work per level must stay proportional to the input
		for _, depth := range []int{1, 2, 3, 8, 16, 25, 32, 48, 100, 400, 2600} {
			for variant := 0; variant < 6; variant++ {
				var inner []byte
				switch variant {
				case 0:
					inner = []byte{4, 2, 0, 8, 0, 0, 0, 1}
				case 1:
					inner = []byte{4, 99, 0, 8, 0, 0, 0, 1}
				case 2:
					inner = []byte{4, 14, 0, 8, 0, 0, 0, 1}
				case 3:
					inner = r.Bytes(16)
				case 4:
					inner = []byte{4, 14, 0, 56, 0, 0, 0, 1}
				default:
					inner = []byte{4, 2, 0, 0, 0, 0, 0, 1} // embedded header length left unset
				}
				frame := inner
				for d := 0; d < depth && len(frame)+24 <= 65535; d++ {
					w := make([]byte, 24, 24+len(frame))
					w[0], w[1] = 4, 4
					binary.BigEndian.PutUint16(w[2:], uint16(24+len(frame)))
					binary.BigEndian.PutUint32(w[4:], uint32(d))
					binary.BigEndian.PutUint32(w[8:], 0x4f4e4600)
					binary.BigEndian.PutUint32(w[12:], 2301)
					binary.BigEndian.PutUint32(w[16:], uint32(d))
					frame = append(w, frame...)
				}
				if !t.run("nested-bundle", frame) {
					return
				}
			}
		}
		// size-arithmetic corner: a group-mod whose single bucket holds a Nicira action with a huge (but honoured) length
		// followed by a set-field that carries only its OXM header, so that the bucket's recomputed 16-bit size reaches
		// or wraps around 65536 (several totals around the wrap)
		for _, natLen := range []int{65489, 65481, 65488, 65473, 65490, 65496, 65500, 65440, 32768, 65400} {
			for _, sf := range [][]byte{{0, 25, 0, 8, 0x80, 0, 26 << 1, 16}, {0, 25, 0, 8, 0x80, 0, 27<<1 | 1, 32}, {0, 25, 0, 8, 0x80, 0, 3 << 1, 6}, {}} {
				total := 8 + 8 + 16 + natLen + len(sf)
				if total > 65535 {
					continue
				}
				f := make([]byte, total)
				f[0], f[1] = 4, 15
				binary.BigEndian.PutUint16(f[2:], uint16(total))
				binary.BigEndian.PutUint16(f[16:], uint16(16+natLen+len(sf))) // bucket length
				a := f[32:]
				binary.BigEndian.PutUint16(a[0:], 0xffff)
				binary.BigEndian.PutUint16(a[2:], uint16(natLen))
				binary.BigEndian.PutUint32(a[4:], 0x2320)
				binary.BigEndian.PutUint16(a[8:], 34) // NXAST_CONJUNCTION
				copy(f[32+natLen:], sf)
				if !t.run("size-wrap", f) {
					return
				}
				// the same actions in a packet-out and in an apply-actions instruction of a flow-stats reply where they fit
				po := make([]byte, 24+natLen+len(sf))
				if len(po) <= 65535 {
					po[0], po[1] = 4, 13
					binary.BigEndian.PutUint16(po[2:], uint16(len(po)))
					binary.BigEndian.PutUint16(po[16:], uint16(natLen+len(sf)))
					copy(po[24:], f[32:])
					if !t.run("size-wrap", po) {
						return
					}
				}
			}
		}
		// amplification: a container filled to the frame limit with copies of one small hostile unit - a bucket header
		// followed by a Nicira / standard action header that claims a huge length. Decoders that allocate from a
		// claimed length before checking it, or containers that carry on after an element failed, multiply the cost.
		for sub := int(k % 8); sub < 50; sub += 8 {
			for _, claim := range []uint16{0xfff8, 0x8000, 0x0400, 24} {
				nx := make([]byte, 16)
				binary.BigEndian.PutUint16(nx[0:], 0xffff)
				binary.BigEndian.PutUint16(nx[2:], claim)
				binary.BigEndian.PutUint32(nx[4:], 0x2320)
				binary.BigEndian.PutUint16(nx[8:], uint16(sub))
				std := make([]byte, 16)
				binary.BigEndian.PutUint16(std[0:], uint16(sub%28))
				binary.BigEndian.PutUint16(std[2:], claim)
				for _, act := range [][]byte{nx, std} {
					// two bucket headers: a plain one, and one whose 16 bytes also read as two harmless 8-byte actions
					// (dec-nw-ttl, copy-ttl-out), so that a decoder that is out of step after a failed bucket finds
					// its way to the next hostile action instead of stopping
					plain := make([]byte, 16, 32)
					binary.BigEndian.PutUint16(plain[0:], 32)
					resync := []byte{0, 24, 0, 8, 0, 0, 0, 0, 0, 11, 0, 8, 0, 0, 0, 0}
					for _, bucket := range [][]byte{plain, resync} {
						unit := append(append([]byte(nil), bucket...), act...)
						// group-mod: header 16 + units
						gm := make([]byte, 16, 65535)
						gm[0], gm[1] = 4, 15
						for len(gm)+len(unit) <= 65535 {
							gm = append(gm, unit...)
						}
						ofFix(gm)
						if !t.run("tiled", gm) {
							return
						}
					}
					// packet-out: header 24 + actions
					po := make([]byte, 24, 65535)
					po[0], po[1] = 4, 13
					for len(po)+len(act) <= 65535 {
						po = append(po, act...)
					}
					ofFix(po)
					binary.BigEndian.PutUint16(po[16:], uint16(len(po)-24))
					if !t.run("tiled", po) {
						return
					}
					// flow-mod: header 48 + empty match 8 + apply-actions instructions each holding one action
					fm := make([]byte, 56, 65535)
					fm[0], fm[1] = 4, 14
					fm[48+1], fm[48+3] = 1, 4 // match type 1, length 4
					ins := append([]byte{0, 4, 0, 24, 0, 0, 0, 0}, act...)
					for len(fm)+len(ins) <= 65535 {
						fm = append(fm, ins...)
					}
					ofFix(fm)
					if !t.run("tiled", fm) {
						return
					}
				}
			}
		}
		// random bytes behind each valid (version, type) pair
		for typ := 0; typ < 30; typ++ {
			for _, n := range []int{8, 16, 24, 32, 40, 56, 64, 72, 128, 1024} {
				in := r.Bytes(n)
				in[0], in[1] = 4, byte(typ)
				ofFix(in)
				if !t.run("random-body", in) {
					return
				}
			}
		}
		return
	}
	if cs.Recipe == nil {
		return
	}
	base, err := spec.EncodeMessage(cs.Recipe)
	if err != nil || len(base) > 65535 {
		c.Count("bases_skipped", 1)
		return
	}
	if cs.Mode == "stream" {
		c07Stream(c, cs, base)
		return
	}
	c.Count("bases", 1)
	c.Set("base_kinds", cs.Side+":"+kindOf(cs.Recipe))
	c.Max("max_base_len", int64(len(base)))
	t.base = base
	if !t.run("valid", append([]byte(nil), base...)) {
		return
	}
	r := prng.Derive(c.Seed, 77, uint64(c.Index))
	o := gen.HostileOpt{Fix: ofFix, MaxPos: 1024, Random: 48}
	if len(base) > 4096 {
		o.MaxPos = 384 // large frames: fewer positions (each call costs more)
	}
	gen.Hostile(base, r, o, func(class string, in []byte) bool { return t.run(class, in) })
	if t.stop {
		return
	}
	// second generation: variants of variants that the parser accepted
	surv := t.survivors
	t.survivors = nil
	for _, s := range surv {
		c.Count("second_generation_bases", 1)
		gen.Hostile(s, r, gen.HostileOpt{Fix: ofFix, MaxPos: 96, Random: 8, MaxExtend: len(s) + 64}, func(class string, in []byte) bool { return t.run("2nd:"+class, in) })
		if t.stop {
			return
		}
	}
	if c.WantSample() && len(base) < 200 && c.Index%5 == 0 {
		c.Sample(map[string]any{"base_kind": cs.Side + ":" + kindOf(cs.Recipe), "base": hex.EncodeToString(base), "example_variant_classes": []string{"trunc", "trunc+fix", "byte", "byte-rel", "word16", "word32", "splice", "splice+fix", "extend", "extend+fix", "multi", "random-tail", "2nd:*"}})
	}
}

// c07Stream pushes hostile variants (whose header length equals their size, so de-framing stays in step) mixed with
// valid sentinel frames through a real MessageStream. A panic in a parser goroutine kills the worker (attributed to
// the case by the parent); a wedged parser or a leaked buffer shows as sentinels missing at quiescence.
func c07Stream(c *fw.Ctx, cs *c07Case, base []byte) {
	defer recycleEvery(c, 40)
	if len(base) > 8000 {
		base = base[:8]
		ofFix(base)
	}
	r := prng.Derive(c.Seed, 777, uint64(c.Index))
	var variants [][]byte
	gen.Hostile(base, r, gen.HostileOpt{Fix: ofFix, MaxPos: 400, Random: 32, MaxExtend: len(base) + 64}, func(class string, in []byte) bool {
		if len(in) >= 8 && int(binary.BigEndian.Uint16(in[2:])) == len(in) {
			variants = append(variants, in)
		}
		return true
	})
	if len(variants) == 0 {
		return
	}
	const want = 180 // well above the number of pool buffers (60 sentinels)
	var data []byte
	sentinels := 0
	hostile := 0
	wantS := map[uint64]int{} // dump of the direct parse of each sentinel -> its number
	for k := 0; k < want; k++ {
		v := variants[r.Intn(len(variants))]
		if k%5 == 4 {
			// a frame whose header length is 5, 6 or 7: the stream de-frames it and hands those few bytes to a parser
			// goroutine (a length of 4 or less stops the de-framer for good and is not sent)
			l := 5 + r.Intn(3)
			v = append([]byte{4, byte(r.Intn(30)), 0, byte(l)}, r.Bytes(l-4)...)
		}
		data = append(data, v...)
		hostile++
		if k%3 == 2 {
			sentinels++
			e := []byte{4, 2, 0, 8, 0x5e, 0, 0, 0}
			if c.Index%2 == 1 { // jumbo sentinels: echo requests with a body larger than a pool buffer's initial capacity
				e = append(e, r.Bytes(2100+r.Intn(1300))...)
				binary.BigEndian.PutUint16(e[2:], uint16(len(e)))
			}
			binary.BigEndian.PutUint16(e[6:], uint16(sentinels))
			data = append(data, e...)
			wantS[sentinelDump(e)] = sentinels
		}
	}
	conn := sched.NewConn(data)
	conn.EmptyEvery = []int{0, 0, 3, 5}[len(data)%4]
	for k := 997; k < len(data); k += 997 {
		conn.Cuts = append(conn.Cuts, k)
	}
	cpu0 := fw.CPUNow()
	s := startStream(conn, "eager", 0, 0)
	if s == nil {
		constructorWedged(c, "stream")
		return
	}
	ok := s.finish()
	c.Count("streams", 1)
	c.Count("stream_hostile_frames", int64(hostile))
	report := func(cls, locus, detail string) {
		c.ViolationCase("stream:"+typeKind(base), cls, locus, detail, cs)
	}
	if !ok {
		if used := fw.CPUNow() - cpu0; used > fw.CPUBudget {
			report("hang", "stream-parser", fmt.Sprintf("after %d hostile frames the stream never became quiet: %v of CPU consumed while waiting (a parser goroutine is spinning)", hostile, used))
			c.Poison()
			return
		}
		c.Inconclusive("stream: quiescence not reached (wall-clock watchdog)")
		return
	}
	got := map[uint16]int{}
	for _, d := range s.delivered {
		if k, okh := wantS[d.Dump]; okh && !d.Nil {
			got[uint16(k)]++
		}
	}
	missing := 0
	for k := 1; k <= sentinels; k++ {
		if got[uint16(k)] == 0 {
			missing++
		}
	}
	if missing > 0 {
		report("wedge", "stream-sentinels", fmt.Sprintf("%d of %d valid echo requests sent between %d malformed frames were never delivered although every goroutine is parked: malformed frames wedged the stream (deliveries: %d)", missing, sentinels, hostile, len(s.delivered)))
	}
	if s.poolSeen && (s.poolFull != 0 || s.poolEmpty < s.poolCap-1) {
		report("wedge", "stream-buffer-pool", fmt.Sprintf("after %d malformed frames the pool holds %d empty and %d full buffers of %d at quiescence: buffers leaked", hostile, s.poolEmpty, s.poolFull, s.poolCap))
	}
	if len(s.errs) > 0 {
		report("wedge", "stream-error", "malformed frames made the stream publish a connection error: "+fmtErrs(s.errs))
	}
	c.Count("stream_sentinels_delivered", int64(sentinels-missing))
}
