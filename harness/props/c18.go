package props

import (
	"bytes"
	"encoding/binary"
	"fmt"

	of "github.com/contiv/libOpenflow/openflow13"

	"vh/fw"
	"vh/prng"
)

// C18 — connection-tracking state builder: reference model "last call per flag".

var ctFlagNames = []string{"new", "est", "rel", "rpl", "inv", "trk", "snat", "dnat"}

// ops[2*i] sets flag i, ops[2*i+1] unsets flag i. Bit positions are OVS's (new 0 ... dnat 7).
var ctOps = []struct {
	name string
	f    func(*of.CTStates)
}{
	{"SetNew", (*of.CTStates).SetNew}, {"UnsetNew", (*of.CTStates).UnsetNew},
	{"SetEst", (*of.CTStates).SetEst}, {"UnsetEst", (*of.CTStates).UnsetEst},
	{"SetRel", (*of.CTStates).SetRel}, {"UnsetRel", (*of.CTStates).UnsetRel},
	{"SetRpl", (*of.CTStates).SetRpl}, {"UnsetRpl", (*of.CTStates).UnsetRpl},
	{"SetInv", (*of.CTStates).SetInv}, {"UnsetInv", (*of.CTStates).UnsetInv},
	{"SetTrk", (*of.CTStates).SetTrk}, {"UnsetTrk", (*of.CTStates).UnsetTrk},
	{"SetSNAT", (*of.CTStates).SetSNAT}, {"UnsetSNAT", (*of.CTStates).UnsetSNAT},
	{"SetDNAT", (*of.CTStates).SetDNAT}, {"UnsetDNAT", (*of.CTStates).UnsetDNAT},
}

type c18Case struct {
	Family string `json:"family"` // trans | seq4 | rand
	Lo     int    `json:"lo"`
	Hi     int    `json:"hi"`
	Ops    []int  `json:"ops,omitempty"` // explicit sequence (replay of one item)
}

const (
	c18States    = 6561
	c18Seq4      = 1 + 16 + 256 + 4096 + 65536 // sequences of length 0..4
	c18TransStep = 64
	c18SeqStep   = 1024
)

func c18RandCases(tier string) int {
	if tier == "thorough" {
		return 4096
	}
	return 128
}

func init() {
	nTrans := (c18States + c18TransStep - 1) / c18TransStep
	nSeq := (c18Seq4 + c18SeqStep - 1) / c18SeqStep
	fw.Register(&fw.Prop{
		ID:   "C18",
		Rule: "exhaustive families: (trans) each of the 6561 builder states (flag untouched/set/unset, built by a canonical call sequence and, alternately, by its opposite-then-final variant) x each of the 16 operations; (seq4) every call sequence of length 0..4 from the empty builder, encoding checked after every call; plus (rand) PRNG sequences of length <= 64. A case is non-trivial when at least one call was made; distinct = hash of the call sequence",
		NumCases: func(tier string, seed uint64) int {
			return nTrans + nSeq + c18RandCases(tier)
		},
		Gen: func(tier string, seed uint64, i int) any {
			if i < nTrans {
				return &c18Case{Family: "trans", Lo: i * c18TransStep, Hi: min(c18States, (i+1)*c18TransStep)}
			}
			i -= nTrans
			if i < nSeq {
				return &c18Case{Family: "seq4", Lo: i * c18SeqStep, Hi: min(c18Seq4, (i+1)*c18SeqStep)}
			}
			i -= nSeq
			return &c18Case{Family: "rand", Lo: i * 64, Hi: i*64 + 64}
		},
		NewCase:    func() any { return new(c18Case) },
		Eval:       c18Eval,
		Exhaustive: func(string) bool { return true },
		Minimum: func(a *fw.Agg) error {
			if a.Counters["transitions"] != 6561*16 {
				return fmt.Errorf("expected %d transitions, observed %d", 6561*16, a.Counters["transitions"])
			}
			if a.Counters["seq4"] != c18Seq4 {
				return fmt.Errorf("expected %d short sequences, observed %d", c18Seq4, a.Counters["seq4"])
			}
			return nil
		},
		Assumptions: []string{
			"reference model: per flag, mask bit = touched at least once, value bit = polarity of the most recent call; OVS bit positions new 0, est 1, rel 2, rpl 3, inv 4, trk 5, snat 6, dnat 7",
			"observation is the encoded NXM_NX_CT_STATE match field (header 0001d308, value, mask), not the builder's private fields",
			"exhaustive applies to the trans and seq4 families; the rand family is sampled",
		},
	})
}

func min(a, b int) int {
	if a < b {
		return a
	}
	return b
}

// model state: per flag 0 untouched, 1 set, 2 unset
type ctModel [8]uint8

func (m *ctModel) apply(op int) { m[op/2] = uint8(1 + op%2) }
func (m *ctModel) words() (val, mask uint32) {
	for i, s := range m {
		if s != 0 {
			mask |= 1 << uint(i)
		}
		if s == 1 {
			val |= 1 << uint(i)
		}
	}
	return
}

// c18Prev: the match field built at the previous check and the encoding it had then. Match fields built from
// different builder states are independent values: building the next one must not change the earlier one.
var c18Prev struct {
	f   *of.MatchField
	enc []byte
	seq []string
}

func c18Check(c *fw.Ctx, st *of.CTStates, m *ctModel, lastOp string, seq []int) bool {
	f := of.NewCTStateMatchField(st)
	if c18Prev.f != nil {
		if pb, perr := c18Prev.f.MarshalBinary(); perr != nil || !bytes.Equal(pb, c18Prev.enc) {
			c.Violation(lastOp, "value", "earlier-field-changed", fmt.Sprintf("the ct_state match built after sequence %v encoded to %x; after building another one (sequence %v) it encodes to %x", c18Prev.seq, c18Prev.enc, c18Names(seq), pb))
		}
	}
	b, err := f.MarshalBinary()
	c18Prev.f, c18Prev.enc, c18Prev.seq = f, append([]byte(nil), b...), c18Names(seq)
	if err != nil || len(b) != 12 {
		c.Violation(lastOp, "encoding", "ct_state-field", fmt.Sprintf("encoding %x err %v, want 12 bytes; sequence %v", b, err, c18Names(seq)))
		return false
	}
	ok := true
	if hdr := binary.BigEndian.Uint32(b[0:4]); hdr != 0x0001d308 {
		c.Violation(lastOp, "header", "ct_state-field", fmt.Sprintf("header %#08x, want 0x0001d308 (NXM_1, ct_state=105, masked, length 8); sequence %v", hdr, c18Names(seq)))
		ok = false
	}
	wv, wm := m.words()
	gv, gm := binary.BigEndian.Uint32(b[4:8]), binary.BigEndian.Uint32(b[8:12])
	if gv != wv || gm != wm {
		// name the first flag whose bits differ
		locus := "bits8-31"
		for i := 0; i < 8; i++ {
			if (gv^wv)&(1<<uint(i)) != 0 || (gm^wm)&(1<<uint(i)) != 0 {
				locus = "flag=" + ctFlagNames[i]
				break
			}
		}
		class := "value"
		if gm != wm {
			class = "mask"
		}
		c.Violation(lastOp, class, locus, fmt.Sprintf("value %#08x mask %#08x, want value %#08x mask %#08x after sequence %v", gv, gm, wv, wm, c18Names(seq)))
		ok = false
	}
	return ok
}

func c18Names(seq []int) []string {
	out := make([]string, len(seq))
	for i, o := range seq {
		if o >= 0 && o < len(ctOps) {
			out[i] = ctOps[o].name
		}
	}
	return out
}

func c18RunSeq(c *fw.Ctx, seq []int, checkEvery bool) {
	p, v, stk := fw.Recover(func() {
		// a builder is a plain exported struct: callers also make it without the constructor (new, a literal, a
		// variable, a field of their own struct); the origin is a pure function of the sequence
		st := of.NewCTStates()
		origin := "NewCTStates"
		switch prng.Hash64([]byte(fmt.Sprint("origin", seq))) % 5 {
		case 1:
			st, origin = new(of.CTStates), "new(CTStates)"
		case 2:
			st, origin = &of.CTStates{}, "&CTStates{}"
		case 3:
			var holder struct {
				pad [3]byte
				b   of.CTStates
			}
			st, origin = &holder.b, "embedded-by-value"
		}
		c.Set("builder_origins", origin)
		var m ctModel
		last := origin
		if checkEvery || len(seq) == 0 {
			c18Check(c, st, &m, last, nil)
		}
		for i, op := range seq {
			ctOps[op].f(st)
			m.apply(op)
			last = ctOps[op].name
			if checkEvery || i == len(seq)-1 {
				if !c18Check(c, st, &m, last, seq[:i+1]) {
					return
				}
				// the builder stays in use after a match field was made from it, and in between another builder is
				// created, driven and converted, and the library is used for other things (every other time): each
				// builder answers for its own calls only
				h := prng.Hash64([]byte(fmt.Sprint(seq[:i+1])))
				if h%3 == 0 {
					other := of.NewCTStates()
					var om ctModel
					r2 := prng.New(h)
					var oseq []int
					for k := r2.Range(1, 5); k > 0; k-- {
						o := r2.Intn(len(ctOps))
						ctOps[o].f(other)
						om.apply(o)
						oseq = append(oseq, o)
					}
					c.Count("second_builders", 1)
					if !c18Check(c, other, &om, "second-builder:"+ctOps[oseq[len(oseq)-1]].name, oseq) {
						return
					}
					if h%6 == 0 {
						apiNoise(r2, 6)
					}
					if !c18Check(c, st, &m, "after-second-builder:"+last, seq[:i+1]) {
						return
					}
				}
			}
		}
	})
	if p {
		c.Violation("sequence", "panic", fw.LibFrame(stk), v+"\n"+fw.TrimStack(stk))
	}
}

func c18Eval(c *fw.Ctx, data any) {
	cs := data.(*c18Case)
	if cs.Ops != nil {
		c18RunSeq(c, cs.Ops, true)
		c.Distinct(prng.Hash64([]byte(fmt.Sprint(cs.Ops))), len(cs.Ops) > 0)
		return
	}
	switch cs.Family {
	case "trans":
		for s := cs.Lo; s < cs.Hi; s++ {
			// decode state s in base 3
			var tgt ctModel
			x := s
			for i := 0; i < 8; i++ {
				tgt[i] = uint8(x % 3)
				x /= 3
			}
			for op := 0; op < 16; op++ {
				var seq []int
				for i := 0; i < 8; i++ {
					switch tgt[i] {
					case 1:
						if (s+op)%2 == 1 {
							seq = append(seq, 2*i+1) // reach "set" through unset-then-set on alternate items
						}
						seq = append(seq, 2*i)
					case 2:
						if (s+op)%2 == 1 {
							seq = append(seq, 2*i)
						}
						seq = append(seq, 2*i+1)
					}
				}
				seq = append(seq, op)
				c18RunSeq(c, seq, op == 0)
				c.Count("transitions", 1)
				c.Distinct(prng.Hash64([]byte(fmt.Sprint("t", seq))), true)
				if c.WantSample() && s == 1234 && op < 2 {
					c.Sample(map[string]any{"family": "trans", "state": s, "calls": c18Names(seq)})
				}
			}
		}
	case "seq4":
		for k := cs.Lo; k < cs.Hi; k++ {
			seq := c18SeqOf(k)
			c18RunSeq(c, seq, true)
			c.Count("seq4", 1)
			c.Distinct(prng.Hash64([]byte(fmt.Sprint("s", seq))), len(seq) > 0)
			if c.WantSample() && k == 4500 {
				c.Sample(map[string]any{"family": "seq4", "calls": c18Names(seq)})
			}
		}
	case "rand":
		for k := cs.Lo; k < cs.Hi; k++ {
			r := prng.Derive(c.Seed, 18, uint64(k))
			n := r.Range(5, 64)
			seq := make([]int, n)
			for i := range seq {
				seq[i] = r.Intn(16)
			}
			c18RunSeq(c, seq, true)
			c.Count("rand", 1)
			c.Distinct(prng.Hash64([]byte(fmt.Sprint("r", seq))), true)
			if c.WantSample() && k%64 == 0 {
				c.Sample(map[string]any{"family": "rand", "calls": c18Names(seq)})
			}
		}
	}
}

// c18SeqOf maps 0..69904 to the k-th sequence of length 0..4 over 16 ops.
func c18SeqOf(k int) []int {
	for l, cnt := 0, 1; l <= 4; l, cnt = l+1, cnt*16 {
		if k < cnt {
			seq := make([]int, l)
			for i := l - 1; i >= 0; i-- {
				seq[i] = k % 16
				k /= 16
			}
			return seq
		}
		k -= cnt
	}
	return nil
}
