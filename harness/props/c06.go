package props

import (
	"bytes"
	"fmt"
	"go/ast"
	"go/parser"
	"go/token"
	"os"
	"path/filepath"
	"reflect"
	"sort"
	"strings"

	"github.com/contiv/libOpenflow/common"
	of "github.com/contiv/libOpenflow/openflow13"
	"github.com/contiv/libOpenflow/protocol"
	"github.com/contiv/libOpenflow/util"

	"vh/fw"
	"vh/gen"
	"vh/lib"
	"vh/prng"
	"vh/rec"
)

// C06 — reported size equals encoded size; containers embed their children's standalone encodings intact.

type c06Case struct {
	Mode   string   `json:"mode"` // ctrl | switch | packet | dhcp | lldp
	Recipe *rec.Rec `json:"recipe"`
}

func pktRecipe(r *prng.R, i int) *rec.Rec {
	o := gen.FrameOpt{NoVlan0: true}
	switch i % 12 {
	case 0, 1, 2, 3:
		return gen.Frame(r, o)
	case 4:
		return gen.IPv4(r, o)
	case 5:
		return gen.IPv6(r, o)
	case 6:
		return gen.TCP(r, o)
	case 7:
		return gen.IGMP12(r)
	case 8:
		return gen.IGMP3Query(r)
	case 9:
		return gen.IGMP3Report(r)
	case 10:
		return gen.ARP(r)
	default:
		return gen.IGMP3Record(r)
	}
}

func mixedCase(salt uint64, tier string, seed uint64, i int) *c06Case {
	if i < len(ctorTable) { // values straight from the constructors (defaults untouched)
		return &c06Case{Mode: "ctor", Recipe: rec.New("ctor").SetT("ctor", ctorTable[i].name)}
	}
	r := prng.Derive(seed, salt+1000, uint64(i))
	if i%(2*satEvery) == 2*satEvery-2 { // (ctrlRecipe has its own saturated cases)
		return &c06Case{Mode: "switch", Recipe: gen.SaturatedSwitch(r, i/(2*satEvery))}
	}
	switch i % 8 {
	case 0, 1, 2:
		return &c06Case{Mode: "ctrl", Recipe: ctrlRecipe(salt, tier, seed, i)}
	case 3, 4:
		return &c06Case{Mode: "switch", Recipe: gen.SwitchMessage(r, gen.SwitchKinds[(i/8)%len(gen.SwitchKinds)])}
	case 5, 6:
		return &c06Case{Mode: "packet", Recipe: pktRecipe(r, i/8)}
	default:
		switch (i / 8) % 5 {
		case 3:
			return &c06Case{Mode: "lldp", Recipe: gen.LLDP(r)}
		case 4:
			return &c06Case{Mode: "misc", Recipe: rec.New("misc").Set("which", uint64(i/40)).Set("a", r.Bits(16)).Set("b", r.Bits(16)).Set("c", r.Bits(32)).SetB("data", r.Bytes(r.Pick(0, 0, 1, 8, 20)))}
		}
		return &c06Case{Mode: "dhcp", Recipe: gen.DHCP(r)}
	}
}

// miscValue builds the small header-like kinds that no container generator reaches on their own.
func miscValue(m *rec.Rec) util.Message {
	a, b, cc := m.U16("a"), m.U16("b"), m.U32("c")
	switch m.U("which") % 7 {
	case 6: // tunnel-metadata field whose value and mask are given in different widths (nothing may be dropped silently)
		d := m.Bytes("data")
		v := append([]byte{byte(a), byte(b)}, d...)
		mk := append([]byte{byte(cc), byte(cc >> 8), byte(cc >> 16), byte(cc >> 24), 0xff, 0x0f}, d...)
		if a&1 == 1 {
			v, mk = mk, v
		}
		return of.NewTunMetadataField(int(b%8), v, mk)
	case 0:
		h := common.NewHelloElemHeader()
		h.Type, h.Length = a, b
		return h
	case 1:
		p := of.NewBundlePropertyExperimenter()
		p.ExperimenterID, p.ExperimenterType = cc, uint32(a)<<16|uint32(b)
		p.Length = p.Len()
		return p
	case 2:
		return &of.InstrHeader{Type: a, Length: b}
	case 3:
		h := of.NewNxActionHeader(a)
		h.Length = b
		return h
	case 4:
		return &of.NXLearnSpecField{Field: lib.HeaderField(cc, ""), Ofs: a}
	default:
		ctors := []func(uint16) *of.NXLearnSpecHeader{of.NewLearnHeaderMatchFromValue, of.NewLearnHeaderMatchFromField, of.NewLearnHeaderLoadFromValue, of.NewLearnHeaderLoadFromField, of.NewLearnHeaderOutputFromField}
		return ctors[int(b)%5](a & 0x3ff)
	}
}

// buildValue constructs the library value of a mixed case (nil, nil for dhcp/lldp which are not util.Messages).
func buildValue(cs *c06Case) (util.Message, error) {
	switch cs.Mode {
	case "ctrl":
		return lib.BuildMessage(cs.Recipe)
	case "switch":
		m := cs.Recipe
		if m.K == "packet_in" && m.Sub("packet") == nil {
			m = m.Clone()
			m.SetS("packet", rec.New("ethernet").SetB("dst", make([]byte, 6)).SetB("src", make([]byte, 6)).Set("ethertype", 0x88b5))
		}
		return lib.BuildSwitchMessage(m)
	case "packet":
		return lib.BuildPacket(cs.Recipe)
	case "misc":
		return miscValue(cs.Recipe), nil
	case "sloppy":
		v, err := lib.BuildPacket(cs.Recipe)
		if err != nil {
			return nil, err
		}
		sloppify(v, cs.Recipe.U("_sloppy"))
		return v, nil
	case "ctor":
		if mk := ctorByName(cs.Recipe.Text("ctor")); mk != nil {
			return mk(), nil
		}
		return nil, fmt.Errorf("unknown constructor case %q", cs.Recipe.Text("ctor"))
	}
	return nil, nil
}

func init() {
	fw.Register(&fw.Prop{
		ID:       "C06",
		Rule:     "values of every encodable kind are built through the API from generated recipes: controller messages (all kinds and nestings), switch-originated messages and stats records, packets (Ethernet/VLAN/ARP/IPv4/IPv6 + extension headers/ICMP/UDP/TCP/IGMPv1-3), DHCP and LLDP (encoded through Read). For each value and, recursively, each nested child: len(encoding) == Len(), and the parent's bytes are its header followed by the children's own standalone encodings in order plus zero padding. distinct = hash(mode, recipe without xid); non-trivial = the value has at least one child",
		NumCases: func(tier string, seed uint64) int { return nCases(tier, 300000, 16000000) },
		Gen:      func(tier string, seed uint64, i int) any { return mixedCase(6, tier, seed, i) },
		NewCase:  func() any { return new(c06Case) },
		Eval:     c06Eval,
		Minimum: func(a *fw.Agg) error {
			if a.SetSize("types") < 90 {
				return fmt.Errorf("only %d encodable types observed", a.SetSize("types"))
			}
			if a.Counters["embed_checks"] < 10000 {
				return fmt.Errorf("only %d child-embedding checks", a.Counters["embed_checks"])
			}
			return nil
		},
		Extra: c06Extra,
		Assumptions: []string{
			"only a parent's fixed header size comes from the reference model; children are compared with the library's own standalone child encoders, so a mis-encoded child (C03's business) does not mask a container that truncates or overwrites it",
			"well-formed values only (counts/lengths agree with the parts present)",
		},
	})
}

type seg struct {
	msg  util.Message
	skip int
	pad8 bool // the child is followed by zero padding to a multiple of 8 bytes (hello elements)
}

func isNil(m any) bool {
	if m == nil {
		return true
	}
	v := reflect.ValueOf(m)
	return (v.Kind() == reflect.Ptr || v.Kind() == reflect.Interface || v.Kind() == reflect.Slice || v.Kind() == reflect.Map) && v.IsNil()
}

func typeName(m any) string {
	t := reflect.TypeOf(m)
	for t.Kind() == reflect.Ptr {
		t = t.Elem()
	}
	s := t.String()
	if mf, ok := m.(*of.MatchField); ok && mf != nil && !isNil(mf.Value) {
		s += "(" + strings.TrimPrefix(typeName(mf.Value), "openflow13.") + ")"
	}
	return s
}

// children lists the segments of a container's encoding: skip = bytes of the parent's own header, msg = a child.
func children(v util.Message) (segs []seg, pad8 bool, container bool) {
	add := func(m util.Message) {
		if !isNil(m) {
			segs = append(segs, seg{msg: m})
		}
	}
	skip := func(n int) { segs = append(segs, seg{skip: n}) }
	switch x := v.(type) {
	case *common.Hello:
		skip(8)
		for _, e := range x.Elements {
			if !isNil(e) {
				segs = append(segs, seg{msg: e, pad8: true})
			}
		}
	case *of.FlowMod:
		skip(48)
		add(&x.Match)
		for _, in := range x.Instructions {
			add(in)
		}
	case *of.Match:
		skip(4)
		for i := range x.Fields {
			add(&x.Fields[i])
		}
		pad8 = true
	case *of.MatchField:
		skip(4)
		add(x.Value)
		if x.HasMask {
			add(x.Mask)
		}
	case *of.InstrActions:
		skip(8)
		for _, a := range x.Actions {
			add(a)
		}
	case *of.ActionSetField:
		skip(4)
		add(&x.Field)
		pad8 = true
	case *of.NXActionConnTrack:
		skip(24)
		if pv, ok := lib.Priv(x, "actions"); ok {
			as, _ := pv.Interface().([]of.Action)
			for _, a := range as {
				add(a)
			}
		}
	case *of.NXActionRegLoad2:
		skip(10)
		if x.DstField != nil {
			add(x.DstField)
		}
		pad8 = true
	case *of.NXActionLearn:
		skip(32)
		for _, s := range x.LearnSpecs {
			add(s)
		}
		pad8 = true
	case *of.NXLearnSpec:
		if x.Header == nil {
			return nil, false, false
		}
		add(x.Header)
		if imm, _ := lib.PrivUint(x.Header, "src"); imm != 0 {
			n, _ := lib.PrivUint(x.Header, "nBits")
			skip(2 * int((n+15)/16))
		} else if x.SrcField != nil {
			add(x.SrcField)
		}
		if x.DstField != nil {
			add(x.DstField)
		}
	case *of.GroupMod:
		skip(16)
		for i := range x.Buckets {
			add(&x.Buckets[i])
		}
	case *of.Bucket:
		skip(16)
		for _, a := range x.Actions {
			add(a)
		}
	case *of.PacketOut:
		skip(24)
		for _, a := range x.Actions {
			add(a)
		}
		add(x.Data)
	case *of.PacketIn:
		skip(24)
		add(&x.Match)
		skip(2)
		add(&x.Data)
	case *of.FlowRemoved:
		skip(48)
		add(&x.Match)
	case *of.PortStatus:
		skip(16)
		add(&x.Desc)
	case *of.SwitchFeatures:
		skip(32)
		for i := range x.Ports {
			add(&x.Ports[i])
		}
	case *of.MultipartRequest:
		skip(16)
		add(x.Body)
	case *of.MultipartReply:
		skip(16)
		for _, b := range x.Body {
			add(b)
		}
	case *of.FlowStats:
		skip(48)
		add(&x.Match)
		for _, in := range x.Instructions {
			add(in)
		}
	case *of.FlowStatsRequest:
		skip(32)
		add(&x.Match)
	case *of.AggregateStatsRequest:
		skip(32)
		add(&x.Match)
	case *of.VendorHeader:
		skip(16)
		add(x.VendorData)
	case *of.BundleAdd:
		skip(8)
		add(x.Message)
		for i := range x.Properties {
			add(&x.Properties[i])
		}
	case *of.TLVTableMod:
		skip(8)
		for _, t := range x.TlvMaps {
			add(t)
		}
	case *of.TLVTableReply:
		skip(16)
		for _, t := range x.TlvMaps {
			add(t)
		}
	case *of.ErrorMsg:
		skip(12)
		add(&x.Data)
	case *of.VendorError:
		skip(16)
		if x.ErrorMsg != nil {
			add(&x.Data)
		}
	case *protocol.Ethernet:
		skip(12)
		if x.VLANID.VID != 0 {
			add(&x.VLANID)
		}
		skip(2)
		add(x.Data)
	case *protocol.IPv4:
		skip(20)
		if x.Options.Len() > 0 {
			add(&x.Options)
		}
		add(x.Data)
	case *protocol.IPv6:
		skip(40)
		nh := x.NextHeader
		for i := 0; i < 4; i++ {
			switch {
			case nh == 0 && x.HbhHeader != nil:
				add(x.HbhHeader)
				nh = x.HbhHeader.NextHeader
				continue
			case nh == 43 && x.RoutingHeader != nil:
				add(x.RoutingHeader)
				nh = x.RoutingHeader.NextHeader
				continue
			case nh == 44 && x.FragmentHeader != nil:
				add(x.FragmentHeader)
				nh = x.FragmentHeader.NextHeader
				continue
			}
			break
		}
		add(x.Data)
	case *protocol.HopByHopHeader:
		skip(2)
		for _, o := range x.Options {
			add(o)
		}
	case *protocol.IGMPv3MembershipReport:
		skip(8)
		for i := range x.GroupRecords {
			add(&x.GroupRecords[i])
		}
	default:
		return nil, false, false
	}
	return segs, pad8, true
}

func c06Check(c *fw.Ctx, v util.Message, depth int) {
	if isNil(v) || depth > 12 {
		return
	}
	tn := typeName(v)
	c.Set("types", strings.SplitN(tn, "(", 2)[0])
	var enc []byte
	var err error
	var l0, l1 int
	p, pv, st := fw.Recover(func() {
		l0 = int(v.Len())
		enc, err = v.MarshalBinary()
		l1 = int(v.Len())
	})
	if p {
		c.Violation(tn, "panic", fw.LibFrame(st), pv+"\n"+fw.TrimStack(st))
		return
	}
	if err != nil {
		c.Violation(tn, "encode-error", "MarshalBinary", err.Error())
		return
	}
	c.Count("size_checks", 1)
	if l0 != len(enc) || l1 != len(enc) {
		c.Violation(tn, "size", "Len-vs-bytes", fmt.Sprintf("Len() = %d before / %d after encoding, %d bytes produced: %s", l0, l1, len(enc), hexHead(enc)))
	}
	c06Payload(c, tn, v, enc)
	segs, pad8, container := children(v)
	if !container {
		return
	}
	off := 0
	for _, s := range segs {
		if s.msg == nil {
			off += s.skip
			continue
		}
		var ce []byte
		var cerr error
		cp, cpv, cst := fw.Recover(func() { ce, cerr = s.msg.MarshalBinary() })
		if cp {
			c.Violation(typeName(s.msg), "panic", fw.LibFrame(cst), cpv+"\n"+fw.TrimStack(cst))
			return
		}
		if cerr != nil {
			return
		}
		c.Count("embed_checks", 1)
		if off+len(ce) > len(enc) || !bytes.Equal(enc[off:off+len(ce)], ce) {
			got := []byte{}
			if off < len(enc) {
				got = enc[off:min(len(enc), off+len(ce))]
			}
			c.Violation(tn, "embed", "child("+strings.SplitN(typeName(s.msg), "(", 2)[0]+")", fmt.Sprintf("at offset %d the parent (%d bytes) has %s but the child's own encoding (%d bytes) is %s", off, len(enc), hexHead(got), len(ce), hexHead(ce)))
			return
		}
		off += len(ce)
		if s.pad8 {
			for len(ce)%8 != 0 && off < len(enc) {
				if enc[off] != 0 {
					c.Violation(tn, "embed", "element-padding", fmt.Sprintf("byte %#x at offset %d after a %d-byte child: want zero padding to a multiple of 8", enc[off], off, len(ce)))
					return
				}
				off++
				ce = append(ce, 0)
			}
		}
	}
	rest := enc[min(off, len(enc)):]
	if off > len(enc) {
		c.Violation(tn, "embed", "overrun", fmt.Sprintf("header and children need %d bytes, the encoding has %d", off, len(enc)))
	} else if !pad8 && len(rest) != 0 {
		c.Violation(tn, "embed", "trailing", fmt.Sprintf("%d bytes after the last child: %s", len(rest), hexHead(rest)))
	} else if pad8 && (len(rest) >= 8 || len(enc)%8 != 0 || len(bytes.Trim(rest, "\x00")) != 0) {
		c.Violation(tn, "embed", "padding", fmt.Sprintf("after the last child: %d bytes %x (want zero padding to a multiple of 8; total %d)", len(rest), rest, len(enc)))
	}
	for _, s := range segs {
		if s.msg != nil && !c06NoDescend {
			c06Check(c, s.msg, depth+1)
		}
	}
}

// c06CheckTop applies the size and embedding assertions to one message without descending into its children.
func c06CheckTop(c *fw.Ctx, v util.Message) {
	saved := c06NoDescend
	c06NoDescend = true
	defer func() { c06NoDescend = saved }()
	c06Check(c, v, 0)
}

var c06NoDescend bool

func c06Eval(c *fw.Ctx, data any) {
	cs := data.(*c06Case)
	m := cs.Recipe
	n, _ := countNested(m)
	c.Distinct(prng.Hash64(append([]byte(cs.Mode), fmt.Sprint(hashNoXid(m))...)), n > 0)
	switch cs.Mode {
	case "dhcp":
		c06DHCP(c, m)
		return
	case "lldp":
		c06LLDP(c, m)
		return
	}
	var v util.Message
	var err error
	p, pv, st := fw.Recover(func() { v, err = buildValue(cs) })
	if p {
		c.Violation(kindOf(m), "panic", "build:"+fw.LibFrame(st), pv+"\n"+fw.TrimStack(st))
		return
	}
	if err != nil {
		c.Violation(kindOf(m), "build-error", "builder", err.Error())
		return
	}
	c06Check(c, v, 0)
	if cs.Mode == "ctrl" && c.Index%4 == 2 {
		// action-list instructions switched between write/apply/clear after they were filled (a reused template)
		for _, apply := range retypeInstructions(v) {
			if p, _, _ := fw.Recover(func() { apply() }); !p {
				c.Count("retyped_instructions", 1)
				c06Check(c, v, 0)
			}
		}
	}
	if cs.Mode == "ctrl" {
		// the same recipe in a top-down history: variable-size actions attached empty and grown afterwards. Only the
		// top-level message is judged (its size and embedding are computed at encoding time); length fields that
		// inner containers derived when the child was attached are builder discipline, not this property.
		var lv util.Message
		var late int
		var lerr error
		p, pv, st := fw.Recover(func() { lv, late, lerr = lib.BuildMessageLate(m, false, c.Index%2 == 1) })
		if p {
			c.Violation(kindOf(m), "panic", "late-growth-build:"+fw.LibFrame(st), pv+"\n"+fw.TrimStack(st))
		} else if lerr == nil && late > 0 {
			c.Count("late_growth_histories", 1)
			c06CheckTop(c, lv)
		}
	}
	if c.WantSample() && n >= 2 && n <= 5 {
		c.Sample(map[string]any{"mode": cs.Mode, "recipe": m, "type": typeName(v)})
	}
}

func c06DHCP(c *fw.Ctx, m *rec.Rec) {
	c.Set("types", "protocol.DHCP")
	p, pv, st := fw.Recover(func() {
		d, err := lib.BuildDHCP(m)
		if err != nil {
			c.Violation("protocol.DHCP", "build-error", "builder", err.Error())
			return
		}
		want := int(d.Len())
		buf := make([]byte, want+512)
		n, rerr := d.Read(buf)
		c.Count("size_checks", 1)
		if rerr != nil {
			c.Violation("protocol.DHCP", "encode-error", "Read", rerr.Error())
			return
		}
		if n != want {
			c.Violation("protocol.DHCP", "size", "Len-vs-bytes", fmt.Sprintf("Len() = %d, Read produced %d bytes (%d options)", want, n, len(d.Options)))
		}
		// options embedded in order after the 240-byte header
		off := 240
		for _, o := range d.Options {
			ob, err := protocol.DHCPMarshalOption(o)
			if err != nil {
				return
			}
			c.Count("embed_checks", 1)
			if off+len(ob) > n || !bytes.Equal(buf[off:off+len(ob)], ob) {
				c.Violation("protocol.DHCP", "embed", "child(option)", fmt.Sprintf("option tag %d at offset %d: message has %x, option alone encodes to %x", o.OptionType(), off, buf[off:min(n, off+len(ob))], ob))
				return
			}
			if int(o.Len()) != len(ob) {
				c.Violation("protocol.dhcpoption", "size", "Len-vs-bytes", fmt.Sprintf("option tag %d: Len() = %d, encodes to %d bytes", o.OptionType(), o.Len(), len(ob)))
			}
			off += len(ob)
		}
	})
	if p {
		c.Violation("protocol.DHCP", "panic", fw.LibFrame(st), pv+"\n"+fw.TrimStack(st))
	}
}

func c06LLDP(c *fw.Ctx, m *rec.Rec) {
	c.Set("types", "protocol.LLDP")
	p, pv, st := fw.Recover(func() {
		l := lib.BuildLLDP(m)
		// the three TLVs alone
		cb := make([]byte, 600)
		cn, _ := l.Chassis.Read(cb)
		pb := make([]byte, 600)
		pn, _ := l.Port.Read(pb)
		tb := make([]byte, 600)
		tn, _ := l.TTL.Read(tb)
		c.Set("types", "protocol.ChassisTLV")
		c.Set("types", "protocol.PortTLV")
		c.Set("types", "protocol.TTLTLV")
		buf := make([]byte, 2000)
		n, err := l.Read(buf)
		c.Count("size_checks", 1)
		if err != nil {
			c.Violation("protocol.LLDP", "encode-error", "Read", err.Error())
			return
		}
		if n != int(l.Len()) || n != cn+pn+tn {
			c.Violation("protocol.LLDP", "size", "Len-vs-bytes", fmt.Sprintf("Len() = %d, Read reports %d bytes, the three TLVs alone are %d+%d+%d", l.Len(), n, cn, pn, tn))
		}
		want := append(append(append([]byte{}, cb[:cn]...), pb[:pn]...), tb[:tn]...)
		c.Count("embed_checks", 3)
		if !bytes.Equal(buf[:min(len(want), len(buf))], want) {
			c.Violation("protocol.LLDP", "embed", "child(TLV)", fmt.Sprintf("composite %x, TLVs in order %x", buf[:min(n, 64)], want))
		}
	})
	if p {
		c.Violation("protocol.LLDP", "panic", fw.LibFrame(st), pv+"\n"+fw.TrimStack(st))
	}
}

// c06Extra scans the repository for types with an encoder and reports which were covered.
func c06Extra(a *fw.Agg) map[string]any {
	repo := os.Getenv("VERIF_REPO")
	if repo == "" {
		repo = "/repo"
	}
	found := map[string]bool{}
	for _, pkg := range []string{"common", "openflow13", "protocol", "util"} {
		fset := token.NewFileSet()
		pkgs, err := parser.ParseDir(fset, filepath.Join(repo, pkg), func(fi os.FileInfo) bool { return !strings.HasSuffix(fi.Name(), "_test.go") }, 0)
		if err != nil {
			continue
		}
		for _, p := range pkgs {
			for _, f := range p.Files {
				for _, d := range f.Decls {
					fd, ok := d.(*ast.FuncDecl)
					if !ok || fd.Recv == nil || len(fd.Recv.List) == 0 {
						continue
					}
					if fd.Name.Name != "MarshalBinary" && !(pkg == "protocol" && fd.Name.Name == "Read") {
						continue
					}
					t := fd.Recv.List[0].Type
					if s, ok := t.(*ast.StarExpr); ok {
						t = s.X
					}
					if id, ok := t.(*ast.Ident); ok {
						found[pkg+"."+id.Name] = true
					}
				}
			}
		}
	}
	var covered, uncovered []string
	for t := range found {
		if a.Sets["types"][t] {
			covered = append(covered, t)
		} else {
			uncovered = append(uncovered, t)
		}
	}
	sort.Strings(covered)
	sort.Strings(uncovered)
	return map[string]any{"encodable_types_in_source": len(found), "encodable_types_covered": len(covered), "encodable_types_not_covered": uncovered}
}

// sloppify leaves the derived fields of a hand-built packet value the way a hurried caller would: header lengths
// and counts at their zero or constructor values, option bytes of any length. Such values are encodable (C13
// quantifies over all encodable values); only repeatability is judged on them, never layout.
func sloppify(v util.Message, how uint64) {
	switch x := v.(type) {
	case *protocol.Ethernet:
		sloppify(x.Data, how)
	case *protocol.IPv4:
		x.IHL = []uint8{0, 5, 5, 6}[how%4]
		n := []int{0, 1, 3, 4, 7, 8, 11}[how/4%7]
		x.Options = *util.NewBuffer(bytes.Repeat([]byte{0x44}, n))
		sloppify(x.Data, how/28)
	case *protocol.IPv6:
		if x.HbhHeader != nil {
			sloppify(x.HbhHeader, how)
		}
		if x.RoutingHeader != nil {
			sloppify(x.RoutingHeader, how)
		}
		sloppify(x.Data, how/28)
	case *protocol.HopByHopHeader:
		x.HEL = uint8(how % 2)
	case *protocol.RoutingHeader:
		x.HEL = uint8(how % 3)
	case *protocol.IGMPv3Query:
		if how%2 == 0 {
			x.NumberOfSources = uint16(how / 2 % 3)
		}
	case *protocol.IGMPv3GroupRecord:
		x.AuxDataLen = uint8(how % 3)
	case *protocol.TCP:
		x.HdrLen = uint8(how % 16)
	}
}

// c06Payload: a value's own byte payload (an exported []byte field called Data or Note) must appear complete in its
// encoding - "no byte of anything added to a message is silently dropped or truncated". Applied to every value at
// every depth.
func c06Payload(c *fw.Ctx, tn string, v util.Message, enc []byte) {
	rv := reflect.ValueOf(v)
	for rv.Kind() == reflect.Ptr {
		if rv.IsNil() {
			return
		}
		rv = rv.Elem()
	}
	if rv.Kind() != reflect.Struct {
		return
	}
	for _, name := range []string{"Data", "Note"} {
		f := rv.FieldByName(name)
		if !f.IsValid() || f.Kind() != reflect.Slice || f.Type().Elem().Kind() != reflect.Uint8 || f.Len() == 0 {
			continue
		}
		if sf, _ := rv.Type().FieldByName(name); !sf.IsExported() {
			continue
		}
		c.Count("payload_checks", 1)
		if !bytes.Contains(enc, f.Bytes()) {
			c.Violation(tn, "embed", "own-payload("+name+")", fmt.Sprintf("the %d payload bytes in field %s do not appear complete in the %d-byte encoding (dropped or truncated): payload %s, encoding %s", f.Len(), name, len(enc), hexHead(f.Bytes()), hexHead(enc)))
		}
	}
}
