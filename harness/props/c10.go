package props

import (
	"encoding/binary"
	"fmt"
	"runtime"
	"sort"
	"strings"
	"time"

	of "github.com/contiv/libOpenflow/openflow13"

	"vh/fw"
	"vh/gen"
	"vh/prng"
	"vh/sched"
	"vh/spec"
)

// C10 — inbound stream: exactly one intact message per complete frame however the bytes arrive; delivered messages
// stay unchanged; an incomplete trailing frame is never delivered; a connection failure is published once.

type c10Case struct {
	Frames      int    `json:"frames"`
	FrameSeed   uint64 `json:"frame_seed"`
	Profile     string `json:"profile"` // small | mixed | large
	Chunks      string `json:"chunks"`  // one | prefix | mid | full | mix | frame
	ChunkSeed   uint64 `json:"chunk_seed"`
	Consumer    string `json:"consumer"` // eager | slow | bursty
	Procs       int    `json:"procs"`
	Undecodable int    `json:"undecodable"` // every n-th frame is a well-formed message of a kind the library has no decoder for (0 = none)
	Trailing    int    `json:"trailing"`    // bytes of an incomplete extra frame appended after the complete ones (0 = none)
	FailAt      int    `json:"fail_at"`     // -1: connection stays open; -2: fails right after the last byte; k >= 0: fails after byte k
	FailErr     string `json:"fail_err"`    // eof | unexpected | reset
	Outbound    int    `json:"outbound"`    // messages the application sends on the same stream while frames arrive
	ShutdownAt  int    `json:"shutdown_at"` // the application requests shutdown after this many deliveries (0 = not before the end)
	ReadYield   int    `json:"read_yield"`
	EmptyReads  int    `json:"empty_reads"` // > 0: every n-th read returns no bytes and no error
	Virtual     bool   `json:"virtual"`     // run in a virtual-time bubble with a consumer that stays away for StallSec seconds before every StallEvery-th message
	StallEvery  int    `json:"stall_every"`
	StallSec    int    `json:"stall_sec"`
	ParseBefore int    `json:"parse_before"`
	ParseAfter  int    `json:"parse_after"`
}

func init() {
	fw.Register(&fw.Prop{
		ID:          "C10",
		Race:        true,
		VirtualTime: true,
		Rule:        "one real MessageStream per case over a scripted in-memory connection: 1..600 conformant frames with unique transaction ids (all switch-originated kinds; sizes 8 bytes .. 60 KiB, below, at and far beyond the pool buffers' 2 KiB), the byte stream cut into reads by a plan (every byte alone; cuts 1, 2 and 3 bytes into each length prefix; cuts mid-body; full 2 KiB reads holding many frames; exact frame boundaries; PRNG mix), an optional incomplete trailing frame, consumers that are eager, slow or bursty (so that all pool buffers are in flight), yields around the parser calls, GOMAXPROCS 1/2/4/16, and the connection either staying open or failing (EOF / unexpected EOF / reset) after a planned byte. Events (reads returned, deliveries, errors) carry one logical clock; verdicts are taken at logical quiescence (every goroutine parked, clock stable), never by a timeout. Built with the race detector. distinct = hash(case parameters); non-trivial = at least 2 frames and at least one read boundary inside a frame",
		NumCases:    func(tier string, seed uint64) int { return nCases(tier, 1400, 120000) },
		Gen:         c10Gen,
		NewCase:     func() any { return new(c10Case) },
		Eval:        c10Eval,
		Minimum: func(a *fw.Agg) error {
			if a.Counters["streams"] < 100 || a.Counters["frames_delivered"] < 5000 || a.Maxes["max_concurrent_parsers"] < 2 || a.Counters["streams_out_of_order"] < 1 || a.Counters["failing_streams"] < 10 {
				return fmt.Errorf("too little observed: streams=%d delivered=%d max_parsers=%d out_of_order=%d failing=%d", a.Counters["streams"], a.Counters["frames_delivered"], a.Maxes["max_concurrent_parsers"], a.Counters["streams_out_of_order"], a.Counters["failing_streams"])
			}
			if a.SetSize("frame_kinds") < 20 {
				return fmt.Errorf("only %d kinds of frames went through the stream", a.SetSize("frame_kinds"))
			}
			return nil
		},
		Assumptions: []string{
			"frames are those the parser entry point itself accepts when called directly on a private copy (so this check does not depend on C04); the expected message of a frame is the deep dump of that direct parse",
			"when the connection fails, delivery of frames that were already complete is not demanded (the statement does not require it); what is delivered must still be exactly-once, intact and caused by bytes already read",
			"schedules are those the Go scheduler produced under the pacing plans; the race detector covers unsynchronised access even where the bad outcome did not occur",
		},
	})
}

func c10Gen(tier string, seed uint64, i int) any {
	r := prng.Derive(seed, 10, uint64(i))
	c := &c10Case{FrameSeed: r.U64(), ChunkSeed: r.U64(), FailAt: -1, FailErr: "eof"}
	c.Frames = r.Pick(1, 2, 3, 7, 60, 120, 220, 260, r.Range(1, 400))
	if i%37 == 0 {
		c.Frames = 600
	}
	c.Profile = []string{"small", "mixed", "mixed", "large"}[r.Intn(4)]
	if c.Profile == "large" && c.Frames > 150 {
		c.Frames = 150
	}
	c.Chunks = []string{"one", "prefix", "mid", "full", "mix", "frame", "mix", "prefix"}[r.Intn(8)] // by PRNG, so that every chunking meets every option selected by the index below
	if c.Chunks == "one" && c.Frames > 120 {
		c.Frames = 120
	}
	c.Consumer = []string{"eager", "eager", "slow", "bursty"}[r.Intn(4)]
	c.Procs = []int{1, 2, 4, 16}[r.Intn(4)]
	if r.Chance(1, 3) {
		c.Trailing = r.Pick(1, 2, 3, 4, 5, 7, 8, r.Range(1, 40))
	}
	switch i % 5 {
	case 1:
		c.FailAt = -2
		c.FailErr = []string{"eof", "unexpected", "reset"}[r.Intn(3)]
	case 3:
		c.FailAt = r.Intn(4000) // resolved modulo the stream length at run time
		c.FailErr = []string{"eof", "unexpected", "reset"}[r.Intn(3)]
		if i%10 == 3 { // early failures: every position inside the first frames
			c.FailAt = (i / 10) % 64
		}
	}
	if r.Chance(1, 4) {
		c.Undecodable = r.Pick(2, 5, 9, 40)
	}
	if r.Chance(1, 6) {
		c.Outbound = r.Pick(1, 3, 10)
	}
	if i%7 == 4 && c.FailAt == -1 { // the application shuts the stream down while frames are in flight
		c.ShutdownAt = 1 + r.Intn(maxInt(1, c.Frames))
	}
	c.ReadYield = r.Pick(0, 0, 1, 3)
	c.EmptyReads = r.Pick(0, 0, 0, 1, 2, 3, 7)
	if i%9 == 4 {
		c.Virtual, c.Consumer = true, "stall"
		c.StallEvery, c.StallSec = r.Pick(1, 2, 7, 51), r.Pick(1, 11, 61, 3600, 86400)
		if c.Frames > 120 {
			c.Frames = 120
		}
		// (the library closes its Outbound channel ten minutes after a shutdown: an application that still sends
		// then panics by design, and in virtual time "then" is at once, so these cases send nothing)
		c.Outbound = 0
	}
	c.ParseBefore = r.Pick(0, 0, 1, 5)
	c.ParseAfter = r.Pick(0, 0, 1, 5)
	return c
}

// c10Frames builds the frames of a case: conformant switch messages with xid = index+1 that the parser accepts.
// undecodableFrame: a conformant OpenFlow 1.3 message of a kind the library does not decode (table-mod, role request,
// meter-mod, get-async request, queue-get-config request).
func undecodableFrame(r *prng.R, xid uint32) []byte {
	var b []byte
	switch r.Intn(5) {
	case 0: // ofp_table_mod
		b = append([]byte{4, 17, 0, 16, 0, 0, 0, 0}, r.U8(), 0, 0, 0, 0, 0, 0, 3)
	case 1: // ofp_role_request
		b = append([]byte{4, 24, 0, 24, 0, 0, 0, 0}, 0, 0, 0, byte(r.Intn(4)), 0, 0, 0, 0)
		b = append(b, r.Bytes(8)...)
	case 2: // ofp_meter_mod with one drop band
		b = append([]byte{4, 29, 0, 32, 0, 0, 0, 0}, 0, 0, 0, 1, 0, 0, 0, byte(1+r.Intn(200)))
		b = append(b, 0, 1, 0, 16)
		b = append(b, r.Bytes(8)...)
		b = append(b, 0, 0, 0, 0)
	case 3: // get-async request
		b = []byte{4, 26, 0, 8, 0, 0, 0, 0}
	default: // ofp_queue_get_config_request
		b = append([]byte{4, 22, 0, 16, 0, 0, 0, 0}, 0, 0, 0, byte(1+r.Intn(50)), 0, 0, 0, 0)
	}
	binary.BigEndian.PutUint32(b[4:], xid)
	return b
}

func c10Frames(cs *c10Case, c *fw.Ctx) (frames [][]byte, dumps []uint64, texts []string) {
	r := prng.New(cs.FrameSeed)
	kindsSmall := []string{"echo_request", "echo_reply", "barrier_reply", "hello", "get_config_reply", "features_reply", "error", "port_status"}
	for j := 0; j < cs.Frames; j++ {
		if cs.Undecodable > 0 && j%cs.Undecodable == cs.Undecodable-1 {
			u := undecodableFrame(r, uint32(j+1))
			rejected := true
			fw.Recover(func() {
				if msg, err := of.Parse(append([]byte(nil), u...)); err == nil && !isNil(msg) {
					rejected = false // the library learnt this kind: treat it like any other frame
					h, t := dumpHash(msg)
					dumps = append(dumps, h)
					texts = append(texts, t)
				}
			})
			if rejected {
				dumps = append(dumps, 0) // 0 marks a frame for which no message is demanded
				texts = append(texts, "(undecodable kind)")
				c.Count("frames_undecodable_kind", 1)
			}
			frames = append(frames, u)
			continue
		}
		var kind string
		switch cs.Profile {
		case "small":
			kind = kindsSmall[r.Intn(len(kindsSmall))]
		case "large":
			kind = []string{"error", "packet_in", "mp_reply:flow", "mp_reply:port_desc", "mp_reply:desc"}[r.Intn(5)]
		default:
			kind = gen.SwitchKinds[r.Intn(len(gen.SwitchKinds))]
		}
		var wire []byte
		swKind := kind
		for try := 0; try < 4 && wire == nil; try++ {
			m := gen.SwitchMessage(r, swKind)
			kind = swKind
			if cs.Profile != "small" && j%4 == 3 {
				// the stream is symmetric: a switch-side or proxy user of the library receives what controllers send
				// (flow-mods, group-mods, packet-outs with their payload, port-mods, multipart requests, vendor and bundle messages)
				ck := gen.ControllerKinds[r.Intn(len(gen.ControllerKinds))]
				if r.Chance(1, 2) {
					ck = []string{"packet_out", "flow_mod", "group_mod", "bundle_add", "mp_request", "packet_out"}[r.Intn(6)]
				}
				m = gen.ControllerMessage(r, ck, gen.MsgOpt{})
				kind = "ctrl:" + ck
			}
			if kind == "error" && (cs.Profile == "large" || r.Chance(1, 6)) {
				m.SetB("data", r.Bytes(r.Pick(2040, 2041, 2047, 2048, 2049, 4096, 9000, r.Range(2000, 20000))))
				if r.Chance(1, 12) {
					m.SetB("data", r.Bytes(r.Range(50000, 65000)))
				}
			}
			m.Set("xid", uint64(j+1))
			b, err := spec.EncodeMessage(m)
			if err != nil {
				continue
			}
			cp := append([]byte(nil), b...)
			var ok bool
			fw.Recover(func() {
				msg, perr := of.Parse(cp)
				if perr == nil && !isNil(msg) {
					ok = true
					h, t := dumpHash(msg)
					dumps = append(dumps, h)
					texts = append(texts, t)
				}
			})
			if ok {
				wire = b
				c.Set("frame_kinds", kind)
			}
		}
		if wire == nil { // fallback: a bare echo request
			wire = []byte{4, 2, 0, 8, 0, 0, 0, 0}
			binary.BigEndian.PutUint32(wire[4:], uint32(j+1))
			msg, _ := of.Parse(append([]byte(nil), wire...))
			h, t := dumpHash(msg)
			dumps = append(dumps, h)
			texts = append(texts, t)
			c.Count("frames_fallback", 1)
		}
		frames = append(frames, wire)
	}
	return
}

func c10Cuts(cs *c10Case, frames [][]byte, total int) []int {
	r := prng.New(cs.ChunkSeed)
	var cuts []int
	off := 0
	switch cs.Chunks {
	case "one":
		for i := 1; i < total; i++ {
			cuts = append(cuts, i)
		}
	case "full":
		// no cuts: every read fills the reader's buffer
	default:
		for _, f := range frames {
			switch cs.Chunks {
			case "prefix":
				cuts = append(cuts, off+1+r.Intn(3))
				if r.Bool() {
					cuts = append(cuts, off+4)
				}
			case "mid":
				if len(f) > 8 {
					cuts = append(cuts, off+4+r.Intn(len(f)-4))
				}
			case "frame":
				cuts = append(cuts, off+len(f))
			case "mix":
				for k := r.Intn(4); k > 0; k-- {
					cuts = append(cuts, off+r.Intn(len(f))+1)
				}
				if r.Chance(1, 4) {
					cuts = append(cuts, off+1, off+2, off+3, off+4)
				}
			}
			off += len(f)
		}
	}
	sort.Ints(cuts)
	return cuts
}

func c10Eval(c *fw.Ctx, data any) {
	cs := data.(*c10Case)
	if cs.Virtual {
		// the whole stream lives in a virtual-time bubble: the application stays away for seconds to hours between
		// deliveries, and whatever timers the library arms meanwhile fire in logical time
		ran, leak := bubble(func(wait func()) { c10Run(c, cs, wait) })
		if ran {
			c.Count("virtual_time_streams", 1)
			if leak != "" {
				c.Count("virtual_time_streams_leaving_goroutines_behind", 1)
				c.Set("virtual_time_leak_reports", leak)
				if strings.Contains(leak, "all goroutines in bubble are blocked") {
					c.Violation("stream", "wedge", "deadlock-in-virtual-time", fmt.Sprintf("the case was still waiting for the stream when nothing in the bubble could run any more and no timer was pending (%s)\ncase: %+v", leak, *cs))
				}
			}
			c.Recycle()
			return
		}
		c.Count("virtual_time_cases_run_in_real_time", 1)
		cp := *cs
		cp.Virtual, cp.Consumer = false, "slow"
		cs = &cp
	}
	c10Run(c, cs, nil)
}

func c10Run(c *fw.Ctx, cs *c10Case, vtWait func()) {
	defer recycleEvery(c, 60)
	old := runtime.GOMAXPROCS(cs.Procs)
	defer runtime.GOMAXPROCS(old)

	frames, dumps, texts := c10Frames(cs, c)
	var streamBytes []byte
	ends := make([]int, len(frames)) // offset one past the last byte of frame j
	for j, f := range frames {
		streamBytes = append(streamBytes, f...)
		ends[j] = len(streamBytes)
	}
	complete := len(streamBytes)
	if cs.Trailing > 0 { // an incomplete extra frame: a valid prefix of a frame that never completes
		extra := []byte{4, 1, 0, 64, 0xee, 0xee, 0xee, 0xee, 0, 1, 0, 2}
		extra = append(extra, make([]byte, 52)...)
		n := cs.Trailing
		if n >= len(extra) {
			n = len(extra) - 1
		}
		streamBytes = append(streamBytes, extra[:n]...)
	}
	cuts := c10Cuts(cs, frames, len(streamBytes))
	conn := sched.NewConn(streamBytes)
	conn.Cuts = cuts
	conn.ReadYield = cs.ReadYield
	conn.EmptyEvery = cs.EmptyReads
	if cs.EmptyReads == 1 { // a reader that made no progress at all would spin: every other read then
		conn.EmptyEvery = 2
	}
	failing := cs.FailAt != -1
	failPos := -1
	if failing {
		failPos = len(streamBytes)
		if cs.FailAt >= 0 {
			failPos = cs.FailAt % (len(streamBytes) + 1)
		}
		conn.FailAt = failPos
		conn.FailErr = failErrOf(cs.FailErr)
	}
	nontrivial := len(frames) >= 2 && cs.Chunks != "frame" && cs.Chunks != "full"
	c.Distinct(prng.Hash64([]byte(fmt.Sprintf("%+v", *cs))), nontrivial)
	c.Count("streams", 1)
	c.Set("chunk_plans", cs.Chunks)
	c.Set("consumers", cs.Consumer)
	c.Set("gomaxprocs", fmt.Sprint(cs.Procs))

	s := startStream(conn, cs.Consumer, cs.ParseBefore, cs.ParseAfter, cs.ShutdownAt, cs.StallEvery, cs.StallSec)
	if s == nil {
		constructorWedged(c, "stream")
		return
	}
	s.vtWait = vtWait
	for k := 0; k < cs.Outbound; k++ { // the application also sends (echo replies): both directions share the connection
		h := of.NewEchoReply()
		select {
		case s.stream.Outbound <- h:
		case <-time.After(5 * time.Second):
		}
	}
	okQ := s.finish()
	kind := "open"
	if failing {
		kind = "fail"
		c.Count("failing_streams", 1)
	}
	appShutdown := cs.ShutdownAt > 0 && s.shutdownSent
	if appShutdown {
		kind = "shutdown"
		c.Count("streams_shut_down_mid_flight", 1)
	}
	viol := func(class, locus, detail string) {
		c.Violation("stream("+kind+")", class, locus, fmt.Sprintf("%s\ncase: %+v", detail, *cs))
	}
	if !okQ {
		c.Inconclusive(fmt.Sprintf("quiescence not reached (wall-clock watchdog): %+v", *cs))
		return
	}
	c.Max("max_concurrent_parsers", s.parser.max.Load())
	c.Max("read_buffer_bytes", int64(conn.ReadBuf))
	c.Max("max_frame_bytes", int64(maxLen(frames)))

	// ---- offline oracle over the recorded events ----
	events := conn.Events()
	// time at which each byte offset was handed to the reader
	type rd struct {
		b int
		t uint64
	}
	var reads []rd
	readTotal := 0
	for _, e := range events {
		if e.Kind == "read" {
			reads = append(reads, rd{e.B, e.T})
			readTotal = e.B
		}
	}
	readTime := func(end int) (uint64, bool) { // logical time of the read that supplied byte end-1
		i := sort.Search(len(reads), func(i int) bool { return reads[i].b >= end })
		if i == len(reads) {
			return 0, false
		}
		return reads[i].t, true
	}
	byDump := map[uint64]int{}
	undecodable := 0
	for j, h := range dumps {
		if h == 0 {
			undecodable++
			continue
		}
		byDump[h] = j
	}
	nils := 0
	seen := make([]int, len(frames))
	var order []int
	inOrder := true
	last := -1
	for _, d := range s.delivered {
		if d.Nil {
			nils++
			if nils == undecodable+1 {
				viol("corrupt", "nil-message", fmt.Sprintf("%d nil messages were delivered although only %d frames on the connection are of a kind the parser rejects", nils, undecodable))
			}
			continue
		}
		j, ok := byDump[d.Dump]
		if !ok {
			viol("corrupt", "unknown-message", "a delivered message equals the direct parse of none of the frames (corrupted, merged or invented): "+d.Text)
			continue
		}
		seen[j]++
		order = append(order, j)
		if j < last {
			inOrder = false
		}
		last = j
		if seen[j] == 2 {
			viol("dup", "delivered-twice", fmt.Sprintf("frame %d (xid %d, %d bytes) was delivered more than once", j, j+1, len(frames[j])))
		}
		if t, ok := readTime(ends[j]); !ok {
			viol("causality", "delivered-before-read", fmt.Sprintf("frame %d was delivered although its last byte (offset %d) was never handed to the reader (%d bytes read)", j, ends[j]-1, readTotal))
		} else if d.T < t {
			viol("causality", "delivered-before-read", fmt.Sprintf("frame %d was delivered at logical time %d, before the read that supplied its last byte returned (%d)", j, d.T, t))
		}
	}
	c.Count("frames_delivered", int64(len(order)))
	if !inOrder {
		c.Count("streams_out_of_order", 1)
	}
	if len(order) > 1 {
		h := uint64(1469598103934665603)
		for _, j := range order {
			h = (h ^ uint64(j)) * 1099511628211
		}
		c.Set("delivery_orders", fmt.Sprintf("%016x", h))
	}
	if appShutdown {
		// a local shutdown is not a connection failure: nothing is demanded about what still arrives or about the
		// error channel; exactly-once, integrity, causality (above) and immutability (below) still apply
		c.Count("frames_delivered_before_or_during_shutdown", int64(len(order)))
	} else if !failing {
		lost := 0
		first := -1
		for j := range frames {
			if seen[j] == 0 && dumps[j] != 0 {
				lost++
				if first < 0 {
					first = j
				}
			}
		}
		if lost > 0 {
			viol("loss", "frame-not-delivered", fmt.Sprintf("%d of %d complete frames were never delivered although the connection stayed open and every goroutine is parked; first: frame %d (%d bytes, ends at offset %d)", lost, len(frames), first, len(frames[first]), ends[first]))
		}
		if len(s.errs) > 0 {
			viol("error", "spurious-error", "an error was published although the connection did not fail: "+fmtErrs(s.errs))
		}
		if s.poolSeen {
			c.Count("pool_checks", 1)
			// in = out + held: every buffer is back in the empty queue except at most the one the reader holds
			if s.poolFull != 0 || s.poolEmpty < s.poolCap-1 {
				viol("conservation", "buffer-pool", fmt.Sprintf("at quiescence the pool holds %d empty and %d full buffers of %d (expected all, or all but the reader's one, to be empty): buffers leaked", s.poolEmpty, s.poolFull, s.poolCap))
			}
			c.Max("pool_generations", int64(len(frames)/maxInt(1, s.poolCap)))
		} else {
			c.Count("pool_not_observable", 1)
		}
	} else {
		c.Set("fail_positions", fmt.Sprint(failPos))
		if len(s.errs) != 1 {
			viol("error", "published-count", fmt.Sprintf("the connection failed with %q after byte %d; %d values arrived on the error channel: %s", conn.FailErr, failPos, len(s.errs), fmtErrs(s.errs)))
		} else if !sameFailure(s.errs[0], conn.FailErr) {
			viol("error", "published-value", fmt.Sprintf("the connection failed with %q, the error channel carried %q", conn.FailErr, s.errs[0]))
		}
		completeBefore := 0
		for j := range frames {
			if ends[j] <= failPos {
				completeBefore++
			}
		}
		c.Count("frames_complete_before_failure", int64(completeBefore))
		c.Count("frames_delivered_on_failing_streams", int64(len(order)))
	}
	_ = complete
	// whatever happened to the connection: a frame for which a parser goroutine obtained a message has left the
	// de-framer complete, and the consumer never stopped draining - it must have been delivered
	s.parser.mu.Lock()
	parsed := append([]uint32(nil), s.parser.parsedXids...)
	s.parser.mu.Unlock()
	c.Count("frames_parsed_by_stream", int64(len(parsed)))
	for _, x := range parsed {
		j := int(x) - 1
		if j >= 0 && j < len(frames) && dumps[j] != 0 && seen[j] == 0 {
			viol("loss", "parsed-but-not-delivered", fmt.Sprintf("frame %d (xid %d, %d bytes) was handed to the parser, which returned a message, but the message never reached the consumer although it kept draining until every goroutine was parked", j, x, len(frames[j])))
			break
		}
	}
	// delivered messages stay unchanged while later frames went through recycled buffers
	for i, d := range s.delivered {
		if d.Nil {
			continue
		}
		if h, t := dumpHash(d.Msg); h != d.Dump {
			viol("mutated", "message-changed-after-delivery", fmt.Sprintf("delivery %d changed after it was handed to the consumer\nat delivery: %s\nat the end:  %s", i, d.Text, t))
			break
		}
	}
	c.Count("retention_checks", int64(len(s.delivered)))
	if c.WantSample() && len(frames) >= 3 && len(frames) <= 8 {
		var sizes []int
		for _, f := range frames {
			sizes = append(sizes, len(f))
		}
		var evs []string
		for i, e := range events {
			if i < 12 {
				evs = append(evs, fmt.Sprintf("t=%d %s [%d,%d) %s", e.T, e.Kind, e.A, e.B, e.Err))
			}
		}
		c.Sample(map[string]any{"case": cs, "frame_sizes": sizes, "delivery_order": order, "first_events": evs, "errors": fmtErrs(s.errs), "texts": texts[:1]})
	}
}

func maxLen(fs [][]byte) int {
	m := 0
	for _, f := range fs {
		if len(f) > m {
			m = len(f)
		}
	}
	return m
}

func maxInt(a, b int) int {
	if a > b {
		return a
	}
	return b
}
