package props

import (
	"bytes"
	"encoding/binary"
	"fmt"
	"strings"

	"github.com/contiv/libOpenflow/ofbase"

	"vh/fw"
	"vh/lib"
	"vh/prng"
)

// C19 — base encoder/decoder primitives: symmetric, alignment-exact, short headers give an error.

type c19Case struct {
	Family string `json:"family"` // seq | slice | header
	Lo     int    `json:"lo"`
	Hi     int    `json:"hi"`
}

func c19SeqCases(tier string) int {
	if tier == "thorough" {
		return 4000
	}
	return 200
}

func init() {
	fw.Register(&fw.Prop{
		ID:       "C19",
		Rule:     "seq: PRNG sequences (length 1..64) of typed writes (8/16/32/64/128-bit, char, raw bytes 0..40, align) with boundary-biased values, read back with the matching reads while checking value, order, Offset() advance and Length(); slice: every base offset 0..63 x inner offset 0..63 with nested SliceDecoder depth 1..3 and rewind 0..4 followed by SkipAlign; header: Header.Decode on every input length 0..16 with PRNG and boundary bytes. distinct = hash of the op sequence / (base, inner, depth, rewind) / input; all are non-trivial except empty sequences",
		NumCases: func(tier string, seed uint64) int { return c19SeqCases(tier) + 64 + 17 },
		Gen: func(tier string, seed uint64, i int) any {
			ns := c19SeqCases(tier)
			if i < ns {
				return &c19Case{Family: "seq", Lo: i * 50, Hi: i*50 + 50}
			}
			i -= ns
			if i < 64 {
				return &c19Case{Family: "slice", Lo: i, Hi: i + 1}
			}
			i -= 64
			return &c19Case{Family: "header", Lo: i, Hi: i + 1}
		},
		NewCase: func() any { return new(c19Case) },
		Eval:    c19Eval,
		Minimum: func(a *fw.Agg) error {
			if a.Counters["slice_points"] < 64*64 || a.Counters["header_inputs"] < 17 || a.Counters["seq"] < 1000 {
				return fmt.Errorf("too few observations: %v", a.Counters)
			}
			return nil
		},
		Assumptions: []string{"oracle: big-endian fixed-width encoding; alignment to the next multiple of 8 counted from BaseOffset()+Offset()"},
	})
}

type c19Op struct {
	kind int // 0 u8 1 u16 2 u32 3 u64 4 u128 5 char 6 raw 7 align
	v    uint64
	v2   uint64
	raw  []byte
}

func c19Eval(c *fw.Ctx, data any) {
	cs := data.(*c19Case)
	switch cs.Family {
	case "seq":
		for k := cs.Lo; k < cs.Hi; k++ {
			c19Seq(c, k)
		}
	case "slice":
		for base := cs.Lo; base < cs.Hi; base++ {
			for inner := 0; inner < 64; inner++ {
				c19Slice(c, base, inner)
			}
		}
	case "header":
		for n := cs.Lo; n < cs.Hi; n++ {
			c19Header(c, n)
		}
	}
}

func c19Seq(c *fw.Ctx, k int) {
	r := prng.Derive(c.Seed, 19, uint64(k))
	n := r.Range(1, 64)
	ops := make([]c19Op, n)
	var desc bytes.Buffer
	for i := range ops {
		o := c19Op{kind: r.Intn(8)}
		switch o.kind {
		case 0, 5:
			o.v = r.Bits(8)
		case 1:
			o.v = r.Bits(16)
		case 2:
			o.v = r.Bits(32)
		case 3:
			o.v = r.Bits(64)
		case 4:
			o.v, o.v2 = r.Bits(64), r.Bits(64)
		case 6:
			o.raw = r.Bytes(r.Range(0, 40))
			if r.Chance(1, 6) { // large raw writes too (a payload), also as the very first operation
				o.raw = r.Bytes(r.Pick(511, 512, 513, 600, 2048, 4096))
			}
		}
		ops[i] = o
		fmt.Fprintf(&desc, "%d:%x:%x:%x;", o.kind, o.v, o.v2, o.raw)
	}
	c.Count("seq", 1)
	c.Distinct(prng.Hash64(desc.Bytes()), true)
	names := []string{"PutUint8", "PutUint16", "PutUint32", "PutUint64", "PutUint128", "PutChar", "Write", "SkipAlign"}
	rnames := []string{"ReadUint8", "ReadUint16", "ReadUint32", "ReadUint64", "ReadUint128", "ReadByte", "Read", "SkipAlign"}
	p, v, st := fw.Recover(func() {
		e := ofbase.NewEncoder()
		var model []byte
		for _, o := range ops {
			before := len(e.Bytes())
			switch o.kind {
			case 0:
				e.PutUint8(uint8(o.v))
				model = append(model, byte(o.v))
			case 1:
				e.PutUint16(uint16(o.v))
				model = binary.BigEndian.AppendUint16(model, uint16(o.v))
			case 2:
				e.PutUint32(uint32(o.v))
				model = binary.BigEndian.AppendUint32(model, uint32(o.v))
			case 3:
				e.PutUint64(o.v)
				model = binary.BigEndian.AppendUint64(model, o.v)
			case 4:
				e.PutUint128(ofbase.Uint128{Hi: o.v, Lo: o.v2})
				model = binary.BigEndian.AppendUint64(model, o.v)
				model = binary.BigEndian.AppendUint64(model, o.v2)
			case 5:
				e.PutChar(byte(o.v))
				model = append(model, byte(o.v))
			case 6:
				// the caller's slice is cut from a larger array (canary behind it) and is reused by the caller afterwards:
				// the encoder must have copied it
				mine := lib.Own(o.raw)
				e.Write(mine)
				for j := range mine {
					mine[j] ^= 0xff
				}
				model = append(model, o.raw...)
			case 7:
				e.SkipAlign()
				for len(model)%8 != 0 {
					model = append(model, 0)
				}
				adv := len(e.Bytes()) - before
				if len(e.Bytes())%8 != 0 || adv < 0 || adv > 7 {
					c.Violation("Encoder.SkipAlign", "align", "encoder", fmt.Sprintf("length %d -> %d", before, len(e.Bytes())))
				}
			}
			if !bytes.Equal(e.Bytes(), model) {
				c.Violation("Encoder."+names[o.kind], "bytes", "encoder", fmt.Sprintf("buffer %x, want %x", tail(e.Bytes()), tail(model)))
				return
			}
		}
		buf := append([]byte(nil), e.Bytes()...)
		d := ofbase.NewDecoder(buf)
		for i, o := range ops {
			off := d.Offset()
			width := 0
			okv := true
			switch o.kind {
			case 0:
				okv = uint64(d.ReadUint8()) == o.v
				width = 1
			case 1:
				okv = uint64(d.ReadUint16()) == o.v
				width = 2
			case 2:
				okv = uint64(d.ReadUint32()) == o.v
				width = 4
			case 3:
				okv = d.ReadUint64() == o.v
				width = 8
			case 4:
				g := d.ReadUint128()
				okv = g.Hi == o.v && g.Lo == o.v2
				width = 16
			case 5:
				okv = uint64(d.ReadByte()) == o.v
				width = 1
			case 6:
				if i%2 == 0 {
					okv = bytes.Equal(d.Read(len(o.raw)), o.raw)
				} else {
					okv = bytes.Equal(d.Bytes()[:len(o.raw)], o.raw)
					d.Skip(len(o.raw))
				}
				width = len(o.raw)
			case 7:
				d.SkipAlign()
				width = (8 - off%8) % 8
				if (d.BaseOffset()+d.Offset())%8 != 0 {
					c.Violation("Decoder.SkipAlign", "align", "decoder", fmt.Sprintf("offset %d -> %d not a multiple of 8", off, d.Offset()))
				}
			}
			if !okv {
				c.Violation("Decoder."+rnames[o.kind], "value", "decoder", fmt.Sprintf("op %d at offset %d returned a different value than written (%x/%x/%x)", i, off, o.v, o.v2, o.raw))
				return
			}
			if d.Offset()-off != width {
				c.Violation("Decoder."+rnames[o.kind], "advance", "decoder", fmt.Sprintf("offset advanced by %d, want %d", d.Offset()-off, width))
				return
			}
			if d.Length() != len(buf)-d.Offset() {
				c.Violation("Decoder.Length", "length", "decoder", fmt.Sprintf("Length() %d, want %d", d.Length(), len(buf)-d.Offset()))
				return
			}
		}
		if d.Length() != 0 {
			c.Violation("Decoder.Length", "length", "decoder", fmt.Sprintf("%d bytes left after reading everything back", d.Length()))
		}
	})
	if p {
		c.Violation("sequence", "panic", fw.LibFrame(st), v+"\n"+fw.TrimStack(st))
	}
	if c.WantSample() && k%50 == 7 {
		var s []string
		for _, o := range ops {
			s = append(s, names[o.kind])
		}
		c.Sample(map[string]any{"family": "seq", "ops": s})
	}
}

func tail(b []byte) []byte {
	if len(b) > 24 {
		return b[len(b)-24:]
	}
	return b
}

func c19Slice(c *fw.Ctx, base, inner int) {
	buf := make([]byte, 1024)
	for i := range buf {
		buf[i] = byte(i*7 + 3)
	}
	for depth := 1; depth <= 3; depth++ {
		for rewind := 0; rewind <= 4; rewind += 2 {
			c.Count("slice_points", 1)
			c.Distinct(prng.Hash64([]byte(fmt.Sprintf("sl/%d/%d/%d/%d", base, inner, depth, rewind))), true)
			p, v, st := fw.Recover(func() {
				d := ofbase.NewDecoder(buf)
				abs := 0 // absolute position of d's buffer start in buf
				for lv := 0; lv < depth; lv++ {
					skip := base
					if lv > 0 {
						skip = inner
					}
					d.Skip(skip)
					length := 200 - 40*lv + rewind
					parentBase, parentOff := d.BaseOffset(), d.Offset()
					if parentBase != abs {
						c.Violation("SliceDecoder", "base", "BaseOffset", fmt.Sprintf("level %d: BaseOffset %d, want %d", lv, parentBase, abs))
					}
					sd := d.SliceDecoder(length, rewind)
					if sd.BaseOffset() != parentBase+parentOff {
						c.Violation("SliceDecoder", "base", "BaseOffset", fmt.Sprintf("sliced BaseOffset %d, want %d (parent base %d + offset %d)", sd.BaseOffset(), parentBase+parentOff, parentBase, parentOff))
					}
					if d.Offset() != parentOff+length-rewind {
						c.Violation("SliceDecoder", "advance", "parent", fmt.Sprintf("parent offset %d -> %d, want +%d", parentOff, d.Offset(), length-rewind))
					}
					if sd.Length() != length-rewind || sd.Offset() != 0 {
						c.Violation("SliceDecoder", "length", "child", fmt.Sprintf("child Length %d Offset %d, want %d and 0", sd.Length(), sd.Offset(), length-rewind))
					}
					abs = parentBase + parentOff
					if sd.Length() > 0 && sd.Bytes()[0] != buf[abs] {
						c.Violation("SliceDecoder", "bytes", "child", "child does not start at the parent's position")
					}
					d = sd
				}
				d.Skip(inner)
				off := d.Offset()
				d.SkipAlign()
				adv := d.Offset() - off
				want := (8 - (d.BaseOffset()+off)%8) % 8
				if adv != want || (d.BaseOffset()+d.Offset())%8 != 0 || adv < 0 || adv > 7 {
					c.Violation("Decoder.SkipAlign", "align", "sliced", fmt.Sprintf("base %d offset %d advanced by %d, want %d", d.BaseOffset(), off, adv, want))
				}
				// a second alignment skip must not move
				off = d.Offset()
				d.SkipAlign()
				if d.Offset() != off {
					c.Violation("Decoder.SkipAlign", "align", "idempotent", fmt.Sprintf("aligned offset moved again by %d", d.Offset()-off))
				}
				// two children cut from one parent one after the other (two elements of a list, both still being read):
				// each keeps its own bytes, base and read position
				if depth == 1 && rewind == 0 {
					pd := ofbase.NewDecoder(buf)
					pd.Skip(base)
					c1 := pd.SliceDecoder(40, 0)
					c2 := pd.SliceDecoder(24+inner%8, 0)
					c1.Skip(8)
					c2.Skip(3)
					c.Count("sibling_slices", 1)
					if c1.BaseOffset() != base || c1.Length() != 32 || c1.Offset() != 8 || c1.Bytes()[0] != buf[base+8] ||
						c2.BaseOffset() != base+40 || c2.Offset() != 3 || c2.Length() != 24+inner%8-3 || c2.Bytes()[0] != buf[base+40+3] {
						c.Violation("SliceDecoder", "sibling", "two-children-of-one-parent", fmt.Sprintf("parent at %d: first child (40 bytes, 8 read) has base %d length %d offset %d first byte %#x (want %d/32/8/%#x); second child (%d bytes, 3 read) has base %d length %d offset %d first byte %#x (want %d/%d/3/%#x)",
							base, c1.BaseOffset(), c1.Length(), c1.Offset(), c1.Bytes()[0], base, buf[base+8], 24+inner%8, c2.BaseOffset(), c2.Length(), c2.Offset(), c2.Bytes()[0], base+40, 24+inner%8-3, buf[base+40+3]))
					}
				}
				// alignment is counted from the start of the enclosing message and does not depend on how many bytes the
				// decoder has left: a decoder cut to an element's declared length (padding not included) still lands on
				// the next multiple of 8, beyond its own end if need be
				if depth == 1 && rewind == 0 {
					for left := 0; left <= 8 && left <= inner; left++ {
						pd := ofbase.NewDecoder(buf)
						pd.Skip(base)
						cd := pd.SliceDecoder(inner, 0) // exactly `inner` bytes: nothing behind the element
						cd.Skip(inner - left)
						before := cd.BaseOffset() + cd.Offset()
						cd.SkipAlign()
						after := cd.BaseOffset() + cd.Offset()
						c.Count("short_buffer_alignments", 1)
						if after%8 != 0 || after < before || after-before > 7 {
							c.Violation("Decoder.SkipAlign", "align", "short-buffer", fmt.Sprintf("sliced decoder of %d bytes at base %d with %d bytes left: SkipAlign moved the absolute position %d -> %d", inner, base, left, before, after))
							break
						}
					}
				}
			})
			if p {
				c.Violation("SliceDecoder", "panic", fw.LibFrame(st), v+"\n"+fw.TrimStack(st))
			}
		}
	}
	if c.WantSample() && base == 5 && inner == 3 {
		c.Sample(map[string]any{"family": "slice", "base": base, "inner": inner, "depths": "1..3", "rewind": "0,2,4"})
	}
}

func c19Header(c *fw.Ctx, n int) {
	for variant := 0; variant < 8; variant++ {
		r := prng.Derive(c.Seed, 1919, uint64(n), uint64(variant))
		in := r.Bytes(n)
		if variant%2 == 1 && variant > 1 {
			// the input is a window of a larger buffer (a frame inside a receive buffer): bytes behind it are not input
			big := r.Bytes(n + 24)
			in = big[:n]
		}
		switch variant {
		case 0:
			for i := range in {
				in[i] = 0
			}
		case 1:
			for i := range in {
				in[i] = 0xff
			}
		}
		c.Count("header_inputs", 1)
		c.Distinct(prng.Hash64(append([]byte{byte(n), byte(variant)}, in...)), true)
		var h ofbase.Header
		var err error
		p, v, st := fw.Recover(func() { err = h.Decode(ofbase.NewDecoder(in)) })
		if p {
			c.Violation("Header.Decode", "panic", fw.LibFrame(st), fmt.Sprintf("input %x: %s\n%s", in, v, fw.TrimStack(st)))
			continue
		}
		if n < 8 {
			if err == nil {
				c.Violation("Header.Decode", "no-error", "short-input", fmt.Sprintf("%d-byte input %x decoded without error", n, in))
			}
			continue
		}
		if err != nil {
			c.Violation("Header.Decode", "error", "full-input", fmt.Sprintf("%d-byte input %x: %v", n, in, err))
			continue
		}
		if h.Version != in[0] || h.Type != in[1] || h.Length != binary.BigEndian.Uint16(in[2:4]) || h.Xid != binary.BigEndian.Uint32(in[4:8]) {
			c.Violation("Header.Decode", "value", "fields", fmt.Sprintf("input %x decoded as %+v", in, h))
		}
		if c.WantSample() && variant == 2 && (n == 7 || n == 8) {
			c.Sample(map[string]any{"family": "header", "input": fmt.Sprintf("%x", in), "error": fmt.Sprint(err)})
		}
		// the same input behind a decoder that is not at its start: k bytes already consumed or skipped (also beyond
		// the end, as after skipping padding that a truncated element does not have), directly and through a slice
		for _, skip := range []int{1, 3, 4, 7, 8, n - 8, n - 7, n - 1, n, n + 1, n + 5, n + 8} {
			if skip < 0 {
				continue
			}
			for mode := 0; mode < 3; mode++ {
				var herr error
				var hd ofbase.Header
				desc := ""
				p, v, st := fw.Recover(func() {
					d := ofbase.NewDecoder(in)
					switch mode {
					case 0:
						desc = fmt.Sprintf("after Skip(%d)", skip)
						d.Skip(skip)
					case 1:
						desc = fmt.Sprintf("after Skip(%d) and SkipAlign", skip)
						d.Skip(skip)
						d.SkipAlign()
					default:
						if skip > n {
							desc = "-"
							return
						}
						desc = fmt.Sprintf("on a sliced decoder of the last %d bytes after SkipAlign", n-skip)
						d.Skip(skip)
						d = d.SliceDecoder(n-skip, 0)
						d.Skip((n - skip) / 2)
						d.SkipAlign()
					}
					left := d.Length()
					herr = hd.Decode(d)
					if left < 8 && herr == nil {
						c.Violation("Header.Decode", "no-error", "short-input-positioned", fmt.Sprintf("%d-byte input %x, decoder %s (%d bytes left): decoded without error", n, in, desc, left))
					}
					if left >= 8 && herr != nil {
						c.Violation("Header.Decode", "error", "full-input-positioned", fmt.Sprintf("%d-byte input %x, decoder %s (%d bytes left): %v", n, in, desc, left, herr))
					}
				})
				c.Count("header_inputs_positioned", 1)
				if p && desc != "-" {
					// a panic raised by the positioning calls themselves is not Header.Decode's; only report frames under it
					if strings.Contains(st, "ofbase.(*Header).Decode") {
						c.Violation("Header.Decode", "panic", "positioned:"+fw.LibFrame(st), fmt.Sprintf("%d-byte input %x, decoder %s: %s\n%s", n, in, desc, v, fw.TrimStack(st)))
					}
				}
			}
		}
	}
}
