//go:build !verif

package props

// Hooks not compiled in: the clauses that need them are reported as not observed.
const hooksOn = false

func hookRegistryNames() []string                                    { return nil }
func hookRegistryRaw(name string) (uint16, uint8, uint8, bool, bool) { return 0, 0, 0, false, false }
func hookEncodeOfsNbits(ofs, n uint16) uint16                        { return 0 }
func hookEncodeOfsNbitsStartEnd(s, e uint16) uint16                  { return 0 }
func hookDecodeOfs(w uint16) uint16                                  { return 0 }
func hookDecodeNbits(w uint16) uint16                                { return 0 }
