package props

import (
	"net"
	"reflect"

	"github.com/contiv/libOpenflow/common"
	of "github.com/contiv/libOpenflow/openflow13"
	"github.com/contiv/libOpenflow/protocol"
	"github.com/contiv/libOpenflow/util"
)

// ctorTable: values exactly as the library's constructors hand them out (no field assigned afterwards), alone and
// combined through the adders. They exercise the constructor defaults that the recipe builders always overwrite.
type ctorEntry struct {
	name string
	mk   func() util.Message
}

func mac(b byte) net.HardwareAddr { return net.HardwareAddr{b, 1, 2, 3, 4, 5} }

var ctorTable = []ctorEntry{
	{"NewIPv4", func() util.Message { return protocol.NewIPv4() }},
	{"NewIPv4+addr", func() util.Message {
		i := protocol.NewIPv4()
		i.NWSrc, i.NWDst = net.IPv4(10, 0, 0, 1), net.IPv4(10, 0, 0, 2)
		i.Protocol = protocol.Type_UDP
		i.Data = protocol.NewUDP()
		return i
	}},
	{"NewEthernet", func() util.Message { return protocol.NewEthernet() }},
	{"NewEthernet+IPv4", func() util.Message {
		e := protocol.NewEthernet()
		e.HWDst, e.HWSrc = mac(1), mac(2)
		e.Ethertype = protocol.IPv4_MSG
		e.Data = protocol.NewIPv4()
		return e
	}},
	{"NewEthernet+ARP", func() util.Message {
		e := protocol.NewEthernet()
		e.HWDst, e.HWSrc = mac(1), mac(2)
		e.Ethertype = protocol.ARP_MSG
		a, _ := protocol.NewARP(protocol.Type_Request)
		e.Data = a
		return e
	}},
	{"NewVLAN", func() util.Message { return protocol.NewVLAN() }},
	{"NewARP", func() util.Message { a, _ := protocol.NewARP(protocol.Type_Reply); return a }},
	{"NewICMP", func() util.Message { return protocol.NewICMP() }},
	{"NewUDP", func() util.Message { return protocol.NewUDP() }},
	{"NewTCP", func() util.Message { return protocol.NewTCP() }},
	{"NewRoutingHeader", func() util.Message {
		h := protocol.NewRoutingHeader()
		h.Data = util.NewBuffer(make([]byte, 4))
		return h
	}},
	{"NewFragmentHeader", func() util.Message { return protocol.NewFragmentHeader() }},
	{"NewIGMPv1Query", func() util.Message { return protocol.NewIGMPv1Query(net.IPv4(224, 0, 0, 1)) }},
	{"NewIGMPv2Leave", func() util.Message { return protocol.NewIGMPv2Leave(net.IPv4(224, 0, 0, 2)) }},
	{"NewIGMPv3Query", func() util.Message {
		return protocol.NewIGMPv3Query(net.IPv4(224, 0, 0, 1), 10, 20, []net.IP{net.IPv4(1, 2, 3, 4), net.IPv4(5, 6, 7, 8)})
	}},
	{"NewIGMPv3Report", func() util.Message {
		return protocol.NewIGMPv3Report([]protocol.IGMPv3GroupRecord{protocol.NewGroupRecord(1, net.IPv4(224, 1, 1, 1), []net.IP{net.IPv4(1, 2, 3, 4)})})
	}},
	{"NewHello", func() util.Message { h, _ := common.NewHello(4); return h }},
	{"NewEchoRequest", func() util.Message { return of.NewEchoRequest() }},
	{"NewEchoReply", func() util.Message { return of.NewEchoReply() }},
	{"NewFeaturesRequest", func() util.Message { return of.NewFeaturesRequest() }},
	{"NewConfigRequest", func() util.Message { return of.NewConfigRequest() }},
	{"NewSetConfig", func() util.Message { return of.NewSetConfig() }},
	{"NewFlowMod", func() util.Message { return of.NewFlowMod() }},
	{"NewFlowMod+defaults", func() util.Message {
		f := of.NewFlowMod()
		f.Match.AddField(*of.NewInPortField(1))
		i := of.NewInstrApplyActions()
		i.AddAction(of.NewActionOutput(2), false)
		i.AddAction(of.NewNXActionConnTrack(), false)
		f.AddInstruction(i)
		f.AddInstruction(of.NewInstrGotoTable(3))
		return f
	}},
	{"NewGroupMod", func() util.Message { return of.NewGroupMod() }},
	{"NewGroupMod+bucket", func() util.Message {
		g := of.NewGroupMod()
		b := of.NewBucket()
		b.AddAction(of.NewActionOutput(1))
		g.AddBucket(*b)
		return g
	}},
	{"NewPacketOut", func() util.Message { return of.NewPacketOut() }},
	{"NewPacketOut+IPv4", func() util.Message {
		p := of.NewPacketOut()
		p.AddAction(of.NewActionOutput(1))
		e := protocol.NewEthernet()
		e.HWDst, e.HWSrc = mac(1), mac(2)
		e.Ethertype = protocol.IPv4_MSG
		e.Data = protocol.NewIPv4()
		p.Data = e
		return p
	}},
	{"NewPortMod", func() util.Message { return of.NewPortMod(1) }},
	{"NewSetControllerID", func() util.Message { return of.NewSetControllerID(1) }},
	{"NewTLVTableRequest", func() util.Message { return of.NewTLVTableRequest() }},
	{"NewBucket", func() util.Message { return of.NewBucket() }},
	{"NewMatch", func() util.Message { return of.NewMatch() }},
	{"NewInstrWriteActions", func() util.Message { return of.NewInstrWriteActions() }},
	{"NewInstrWriteMetadata", func() util.Message { return of.NewInstrWriteMetadata(1, 2) }},
	{"NewActionOutput", func() util.Message { return of.NewActionOutput(1) }},
	{"NewActionSetField", func() util.Message { return of.NewActionSetField(*of.NewEthTypeField(0x800)) }},
	{"NewActionPushVlan", func() util.Message { return of.NewActionPushVlan(0x8100) }},
	{"NewNXActionConnTrack", func() util.Message { return of.NewNXActionConnTrack() }},
	{"NewNXActionConnTrack+nat", func() util.Message {
		ct := of.NewNXActionConnTrack()
		ct.AddAction(of.NewNXActionCTNAT())
		return ct
	}},
	{"NewNXActionCTNAT", func() util.Message { return of.NewNXActionCTNAT() }},
	{"NewNXActionLearn", func() util.Message { return of.NewNXActionLearn() }},
	{"NewNXActionNote", func() util.Message { return of.NewNXActionNote() }},
	{"NewNXActionResubmit", func() util.Message { return of.NewNXActionResubmit(1) }},
	{"NewNXActionResubmitTableCT", func() util.Message { return of.NewNXActionResubmitTableCT(1, 2) }},
	{"NewNXActionDecTTLCntIDs", func() util.Message { return of.NewNXActionDecTTLCntIDs(2, 1, 2) }},
	{"NewNXActionController", func() util.Message { return of.NewNXActionController(1) }},
	{"NewNXActionCTClear", func() util.Message { return of.NewNXActionCTClear() }},
	{"NewNXActionConjunction", func() util.Message { return of.NewNXActionConjunction(1, 2, 3) }},
	{"NewFlowStatsRequest", func() util.Message { return of.NewFlowStatsRequest() }},
	{"NewAggregateStatsRequest", func() util.Message { return of.NewAggregateStatsRequest() }},
	{"NewPortStatsRequest", func() util.Message { return of.NewPortStatsRequest() }},
	{"NewQueueStatsRequest", func() util.Message { return of.NewQueueStatsRequest() }},
	{"NewPhyPort", func() util.Message { return of.NewPhyPort() }},
	{"NewDescStats", func() util.Message { return of.NewDescStats() }},
	{"NewFeaturesReply", func() util.Message { return of.NewFeaturesReply() }},
	{"NewCTStateMatchField", func() util.Message { return of.NewCTStateMatchField(of.NewCTStates()) }},
	{"NewHelloElemVersionBitmap", func() util.Message { return common.NewHelloElemVersionBitmap() }},
	// values written as struct literals over the exported fields (no constructor ran, unexported padding buffers are
	// nil): the only way to make, for instance, a clear-actions instruction without re-typing another one
	{"literal:InstrActions(clear)", func() util.Message {
		return &of.InstrActions{InstrHeader: of.InstrHeader{Type: of.InstrType_CLEAR_ACTIONS, Length: 8}}
	}},
	{"literal:InstrActions(write)", func() util.Message {
		a, b := of.NewActionOutput(7), of.NewActionGroup(9)
		return &of.InstrActions{InstrHeader: of.InstrHeader{Type: of.InstrType_WRITE_ACTIONS, Length: 8 + a.Len() + b.Len()}, Actions: []of.Action{a, b}}
	}},
	{"literal:InstrGotoTable", func() util.Message {
		return &of.InstrGotoTable{InstrHeader: of.InstrHeader{Type: of.InstrType_GOTO_TABLE, Length: 8}, TableId: 9}
	}},
	{"literal:InstrWriteMetadata", func() util.Message {
		return &of.InstrWriteMetadata{InstrHeader: of.InstrHeader{Type: of.InstrType_WRITE_METADATA, Length: 24}, Metadata: 0x1122334455667788, MetadataMask: 0xff00ff00ff00ff00}
	}},
	{"literal:ActionOutput", func() util.Message {
		return &of.ActionOutput{ActionHeader: of.ActionHeader{Type: of.ActionType_Output, Length: 16}, Port: 3, MaxLen: 0xffe5}
	}},
	{"literal:ActionGroup", func() util.Message {
		return &of.ActionGroup{ActionHeader: of.ActionHeader{Type: of.ActionType_Group, Length: 8}, GroupId: 5}
	}},
	{"literal:ActionSetqueue", func() util.Message {
		return &of.ActionSetqueue{ActionHeader: of.ActionHeader{Type: of.ActionType_SetQueue, Length: 8}, QueueId: 6}
	}},
	{"literal:ActionPush", func() util.Message {
		return &of.ActionPush{ActionHeader: of.ActionHeader{Type: of.ActionType_PushVlan, Length: 8}, EtherType: 0x88a8}
	}},
	{"literal:ActionDecNwTtl", func() util.Message {
		return &of.ActionDecNwTtl{ActionHeader: of.ActionHeader{Type: of.ActionType_DecNwTtl, Length: 8}}
	}},
	{"literal:FlowMod+literal-instructions", func() util.Message {
		f := of.NewFlowMod()
		f.AddInstruction(&of.InstrActions{InstrHeader: of.InstrHeader{Type: of.InstrType_CLEAR_ACTIONS, Length: 8}})
		a := &of.ActionOutput{ActionHeader: of.ActionHeader{Type: of.ActionType_Output, Length: 16}, Port: 4, MaxLen: 128}
		f.AddInstruction(&of.InstrActions{InstrHeader: of.InstrHeader{Type: of.InstrType_APPLY_ACTIONS, Length: 24}, Actions: []of.Action{a}})
		f.AddInstruction(&of.InstrGotoTable{InstrHeader: of.InstrHeader{Type: of.InstrType_GOTO_TABLE, Length: 8}, TableId: 2})
		return f
	}},
	{"literal:Bucket", func() util.Message {
		a := &of.ActionGroup{ActionHeader: of.ActionHeader{Type: of.ActionType_Group, Length: 8}, GroupId: 11}
		return &of.Bucket{Length: 24, Weight: 2, WatchPort: of.P_ANY, WatchGroup: of.OFPG_ANY, Actions: []of.Action{a}}
	}},
}

// ctorByName returns the constructor thunk; transaction ids drawn from the process-wide generator are replaced by a
// fixed one so that two fresh values are comparable.
func ctorByName(n string) func() util.Message {
	for _, e := range ctorTable {
		if e.name == n {
			mk := e.mk
			return func() util.Message {
				v := mk()
				fixXid(reflect.ValueOf(v), 0)
				return v
			}
		}
	}
	return nil
}

func fixXid(v reflect.Value, depth int) {
	for v.Kind() == reflect.Ptr || v.Kind() == reflect.Interface {
		if v.IsNil() {
			return
		}
		v = v.Elem()
	}
	if v.Kind() != reflect.Struct || depth > 3 {
		return
	}
	if v.Type() == reflect.TypeOf(common.Header{}) {
		if f := v.FieldByName("Xid"); f.CanSet() {
			f.SetUint(0x77)
		}
		return
	}
	for i := 0; i < v.NumField(); i++ {
		if v.Type().Field(i).IsExported() {
			fixXid(v.Field(i), depth+1)
		}
	}
}
