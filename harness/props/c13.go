package props

import (
	"bytes"
	"encoding/binary"
	"fmt"
	"reflect"

	of "github.com/contiv/libOpenflow/openflow13"
	"github.com/contiv/libOpenflow/protocol"
	"github.com/contiv/libOpenflow/util"

	"vh/fw"
	"vh/gen"
	"vh/lib"
	"vh/prng"
	"vh/rec"
)

// C13 — sizing and encoding are repeatable and do not disturb the value.

func init() {
	fw.Register(&fw.Prop{
		ID:       "C13",
		Rule:     "the mixed value corpus of C06 (controller messages, switch messages and records, packets, DHCP, LLDP). For every recipe, fresh values are built and put through every history over {size query, encode} of length 1..4 (30 histories) plus PRNG histories of length 5..12; all size answers must be equal, all encodings byte-equal, across histories too; children's standalone encodings must be the same before and after their container was sized and encoded twice. distinct = hash(mode, recipe without xid); non-trivial = the value has at least one nested element",
		NumCases: func(tier string, seed uint64) int { return nCases(tier, 60000, 6000000) },
		Gen: func(tier string, seed uint64, i int) any {
			if i%16 == 9 { // hand-built packet values with derived fields left unset (still encodable values)
				r := prng.Derive(seed, 1300, uint64(i))
				m := pktRecipe(r, i/16)
				m.Set("_sloppy", uint64(r.U32()))
				return &c06Case{Mode: "sloppy", Recipe: m}
			}
			return mixedCase(13, tier, seed, i)
		},
		NewCase: func() any { return new(c06Case) },
		Eval:    c13Eval,
		Minimum: func(a *fw.Agg) error {
			if a.Counters["histories"] < 100000 || a.SetSize("types") < 25 {
				return fmt.Errorf("too few observations: histories=%d types=%d", a.Counters["histories"], a.SetSize("types"))
			}
			return nil
		},
		Assumptions: []string{"only outputs (sizes and bytes) are compared, never internal state; values are complete before the first query (bottom-up construction)"},
	})
}

// c13Histories: all sequences over {0 = Len, 1 = Marshal} of length 1..4, then PRNG ones.
func c13Histories(r *prng.R) [][]int {
	var out [][]int
	for l := 1; l <= 4; l++ {
		for k := 0; k < 1<<uint(l); k++ {
			h := make([]int, l)
			for i := range h {
				h[i] = k >> uint(i) & 1
			}
			out = append(out, h)
		}
	}
	for i := 0; i < 4; i++ {
		h := make([]int, r.Range(5, 12))
		for j := range h {
			h[j] = r.Intn(2)
		}
		out = append(out, h)
	}
	return out
}

func c13Eval(c *fw.Ctx, data any) {
	cs := data.(*c06Case)
	m := cs.Recipe
	n, _ := countNested(m)
	c.Distinct(prng.Hash64(append([]byte(cs.Mode), fmt.Sprint(hashNoXid(m))...)), n > 0)
	if cs.Mode == "sloppy" { // only values that can be encoded at all are in the property's domain
		probe, _, _ := fw.Recover(func() {
			v, err := buildValue(cs)
			if err != nil {
				panic(err)
			}
			v.MarshalBinary()
		})
		if probe {
			c.Count("sloppy_values_not_encodable", 1)
			return
		}
		c.Count("sloppy_values", 1)
	}
	r := prng.Derive(c.Seed, 1313, uint64(c.Index))
	hs := c13Histories(r)
	refLen := -1
	var refBytes []byte
	kind := cs.Mode + ":" + kindOf(m)
	type sizer interface {
		Len() uint16
	}
	interfered := false
	for _, h := range hs {
		if !interfered && refBytes != nil && refLen >= 0 { // once a reference size and encoding exist
			interfered = true
			c13Interfere(c)
		}
		// a fresh value per history
		var lenF func() int
		var encF func() ([]byte, error)
		var v util.Message
		p, pv, st := fw.Recover(func() {
			switch cs.Mode {
			case "dhcp":
				d, err := lib.BuildDHCP(m)
				if err != nil {
					panic(err)
				}
				lenF = func() int { return int(d.Len()) }
				calls := 0
				encF = func() ([]byte, error) {
					calls++
					if calls%2 == 0 {
						// "buffer too small, retry with a bigger one": an encode of the same value into a destination
						// that is too short (or empty) comes first; what the retry gives must be the whole message
						d.Read(make([]byte, []int{0, 1, 100, 239, 241}[calls/2%5]))
					}
					buf := make([]byte, 4096)
					n, err := d.Read(buf)
					return buf[:n], err
				}
				kind = "protocol.DHCP"
			case "lldp":
				l := lib.BuildLLDP(m)
				lenF = func() int { return int(l.Len()) }
				calls := 0
				encF = func() ([]byte, error) {
					calls++
					if calls%2 == 0 {
						fw.Recover(func() { l.Read(make([]byte, []int{0, 1, 5, 9}[calls/2%4])) })
					}
					buf := make([]byte, 4096)
					n, err := l.Read(buf)
					return buf[:n], err
				}
				kind = "protocol.LLDP"
			default:
				var err error
				v, err = buildValue(cs)
				if err != nil {
					panic(err)
				}
				lenF = func() int { return int(v.Len()) }
				encF = v.MarshalBinary
				kind = typeName(v)
			}
		})
		if p {
			c.Violation(kind, "panic", "build:"+fw.LibFrame(st), pv)
			return
		}
		c.Set("types", kind)
		c.Count("histories", 1)
		ops := ""
		bad := false
		p, pv, st = fw.Recover(func() {
			for _, op := range h {
				if op == 0 {
					ops += "L"
					l := lenF()
					if refLen < 0 {
						refLen = l
					} else if l != refLen {
						c.Violation(kind, "repeat", "size-changed", fmt.Sprintf("history %s: size query answered %d, an earlier query (same recipe) answered %d", ops, l, refLen))
						bad = true
						return
					}
				} else {
					ops += "E"
					b, err := encF()
					if err != nil {
						c.Violation(kind, "encode-error", "MarshalBinary", err.Error())
						bad = true
						return
					}
					b = append([]byte(nil), b...)
					if refBytes == nil {
						refBytes = b
					} else if !bytes.Equal(b, refBytes) {
						off := 0
						for off < len(b) && off < len(refBytes) && b[off] == refBytes[off] {
							off++
						}
						c.Violation(kind, "repeat", "bytes-changed", fmt.Sprintf("history %s: encoding (%d bytes) differs from an earlier encoding of the same recipe (%d bytes) at offset %d\nnow:    %s\nbefore: %s", ops, len(b), len(refBytes), off, window(b, off), window(refBytes, off)))
						bad = true
						return
					}
				}
			}
		})
		if p {
			c.Violation(kind, "panic", fw.LibFrame(st), fmt.Sprintf("history %s: %s\n%s", ops, pv, fw.TrimStack(st)))
			return
		}
		if bad {
			return
		}
	}
	if cs.Mode == "ctrl" {
		c13LateHistories(c, m, kind, hs)
	}
	c13HistoryIndependence(c, cs, kind)
	if cs.Mode != "dhcp" && cs.Mode != "lldp" {
		c13RawChild(c, cs, kind, r)
	}
	// a value built and encoded in the previous case is an independent value: everything this case built, encoded and
	// decoded since must have left it alone
	if c13Prev.v != nil {
		pp, _, _ := fw.Recover(func() {
			b, _ := c13Prev.v.MarshalBinary()
			if !bytes.Equal(b, c13Prev.enc) {
				c.Violation(c13Prev.kind, "repeat", "earlier-value-changed", fmt.Sprintf("a value built and encoded in an earlier case (%d bytes) encodes differently (%d bytes) after other values were built, encoded and decoded", len(c13Prev.enc), len(b)))
			}
		})
		_ = pp
		c13Prev.v = nil
	}
	if cs.Mode != "dhcp" && cs.Mode != "lldp" {
		fw.Recover(func() {
			if v, err := buildValue(cs); err == nil && !isNil(v) {
				if b, e := v.MarshalBinary(); e == nil {
					c13Prev.v, c13Prev.enc, c13Prev.kind = v, append([]byte(nil), b...), kind
				}
			}
		})
	}
	// children are not disturbed by their container being sized and encoded repeatedly
	if cs.Mode != "dhcp" && cs.Mode != "lldp" {
		p, pv, st := fw.Recover(func() {
			v, err := buildValue(cs)
			if err != nil {
				return
			}
			c13Children(c, v, 0)
		})
		if p {
			c.Violation(kind, "panic", fw.LibFrame(st), pv)
		}
	}
	if c.WantSample() && n >= 2 && n <= 4 {
		c.Sample(map[string]any{"mode": cs.Mode, "recipe": m, "histories": len(hs), "example_history": "LELE"})
	}
}

var c13Prev struct {
	v    util.Message
	enc  []byte
	kind string
}

func c13Children(c *fw.Ctx, v util.Message, depth int) {
	if isNil(v) || depth > 6 {
		return
	}
	segs, _, container := children(v)
	if !container {
		return
	}
	var before [][]byte
	for _, s := range segs {
		if s.msg != nil {
			b, _ := s.msg.MarshalBinary()
			before = append(before, append([]byte(nil), b...))
		}
	}
	v.Len()
	b1, _ := v.MarshalBinary()
	b1 = append([]byte(nil), b1...)
	v.Len()
	b2, _ := v.MarshalBinary()
	c.Count("container_reencodings", 1)
	if !bytes.Equal(b1, b2) {
		c.Violation(typeName(v), "repeat", "container-second-encoding", fmt.Sprintf("second encoding (%d bytes) differs from the first (%d bytes)", len(b2), len(b1)))
	}
	i := 0
	for _, s := range segs {
		if s.msg != nil {
			b, _ := s.msg.MarshalBinary()
			if !bytes.Equal(b, before[i]) {
				c.Violation(typeName(v), "repeat", "child-disturbed("+typeName(s.msg)+")", fmt.Sprintf("child encoding changed from %s to %s after the container was encoded", hexHead(before[i]), hexHead(b)))
			}
			i++
			c13Children(c, s.msg, depth+1)
		}
	}
}

// c13Interfere runs decoders on OTHER values between the first history of a case and the rest: every constructor in
// the constructor table and every action kind gets a fresh constructor-made value, which decodes a scribbled copy
// (every zero byte after the type/length words replaced by a case-specific non-zero byte, so padding and reserved bytes are non-zero) of
// its own encoding. Values are independent: whatever these decodes write must not show up in the sizes and
// encodings of the value under test (state shared between values through package-level buffers would).
func c13Interfere(c *fw.Ctx) {
	fillByte := byte(0x80 | (c.Index*7+1)&0x7f) // a different pattern in every case: shared state would change again
	scribble := func(b []byte, keep int) []byte {
		o := append([]byte(nil), b...)
		for i := keep; i < len(o); i++ {
			if o[i] == 0 || o[i] >= 0x80 { // zero bytes (padding, reserved) and whatever an earlier case left there
				o[i] = fillByte
			}
		}
		return o
	}
	n := 0
	for _, e := range ctorTable {
		fw.Recover(func() {
			b, err := e.mk().MarshalBinary()
			if err != nil || len(b) < 4 {
				return
			}
			e.mk().UnmarshalBinary(scribble(b, 4))
			n++
		})
	}
	r := prng.Derive(c.Seed, 1301)
	for _, k := range gen.ActionKinds() {
		fw.Recover(func() {
			a, err := lib.BuildAction(gen.ActionOfKind(r, k, gen.ActOpt{}))
			if err != nil {
				return
			}
			b, err := a.MarshalBinary()
			if err != nil || len(b) < 8 {
				return
			}
			a2, err := lib.BuildAction(gen.ActionOfKind(r, k, gen.ActOpt{}))
			if err == nil {
				a2.UnmarshalBinary(scribble(b, 4))
				n++
			}
		})
	}
	c.Count("interfering_decodes", int64(n))
}

// flipFields walks the object graph of v through exported fields and flips the low bit of a deterministic selection of
// exported unsigned-integer fields (the same selection for the same seed and shape). Returns how many were flipped.
func flipFields(v any, seed uint64) int {
	r := prng.New(seed)
	n := 0
	seen := map[uintptr]bool{}
	var walk func(rv reflect.Value, depth int)
	walk = func(rv reflect.Value, depth int) {
		if depth > 8 || !rv.IsValid() {
			return
		}
		switch rv.Kind() {
		case reflect.Ptr:
			if rv.IsNil() || seen[rv.Pointer()] {
				return
			}
			seen[rv.Pointer()] = true
			walk(rv.Elem(), depth+1)
		case reflect.Interface:
			if !rv.IsNil() {
				walk(rv.Elem(), depth+1)
			}
		case reflect.Struct:
			for i := 0; i < rv.NumField(); i++ {
				if !rv.Type().Field(i).IsExported() {
					continue
				}
				f := rv.Field(i)
				switch f.Kind() {
				case reflect.Uint8, reflect.Uint16, reflect.Uint32, reflect.Uint64:
					if f.CanSet() && r.Chance(1, 3) {
						f.SetUint(f.Uint() ^ 1)
						n++
					}
				default:
					walk(f, depth+1)
				}
			}
		case reflect.Slice:
			if rv.Type().Elem().Kind() == reflect.Uint8 {
				return
			}
			for i := 0; i < rv.Len() && i < 64; i++ {
				e := rv.Index(i)
				if e.Kind() == reflect.Struct && e.CanAddr() {
					walk(e.Addr(), depth+1)
				} else {
					walk(e, depth+1)
				}
			}
		}
	}
	walk(reflect.ValueOf(v), 0)
	return n
}

// c13HistoryIndependence: what a value encodes to depends on its current field values only, not on whether it was
// sized or encoded before they were set. One value is encoded, then edited, then encoded again; a twin is edited
// the same way before its first encoding; both must give the same bytes and the same size.
func c13HistoryIndependence(c *fw.Ctx, cs *c06Case, kind string) {
	if cs.Mode == "dhcp" || cs.Mode == "lldp" {
		return
	}
	type outcome struct {
		enc      []byte
		l        int
		panicked bool
		err      bool
	}
	run := func(encodeFirst bool) (o outcome, flips int) {
		p, _, _ := fw.Recover(func() {
			v, err := buildValue(cs)
			if err != nil || isNil(v) {
				o.err = true
				return
			}
			if encodeFirst {
				v.Len()
				v.MarshalBinary()
			}
			flips = flipFields(v, c.Seed^uint64(c.Index)*0x9e3779b97f4a7c15)
			o.l = int(v.Len())
			b, e := v.MarshalBinary()
			o.err = e != nil
			o.enc = append([]byte(nil), b...)
		})
		o.panicked = p
		return
	}
	a, flips := run(true)
	b, _ := run(false)
	if flips == 0 || a.err || b.err {
		return
	}
	c.Count("history_independence_checks", 1)
	switch {
	case a.panicked != b.panicked:
		c.Violation(kind, "repeat", "edited-after-encoding:panic", fmt.Sprintf("%d exported fields were edited; encoding the edited value panics only when it %s been encoded before the edit", flips, map[bool]string{true: "had", false: "had not"}[a.panicked]))
	case a.panicked:
	case a.l != b.l || !bytes.Equal(a.enc, b.enc):
		off := 0
		for off < len(a.enc) && off < len(b.enc) && a.enc[off] == b.enc[off] {
			off++
		}
		c.Violation(kind, "repeat", "edited-after-encoding", fmt.Sprintf("%d exported fields were edited; the value that had been encoded before the edit now encodes to %d bytes (Len %d), an equal value edited before its first encoding to %d bytes (Len %d); first difference at offset %d\nencoded before edit: %s\nfresh:               %s", flips, len(a.enc), a.l, len(b.enc), b.l, off, window(a.enc, off), window(b.enc, off)))
	}
}

// c13LateHistories: the same size/encode histories on values built top-down (variable-size actions attached empty and
// grown afterwards, NAT actions two levels down included). Whatever such a value encodes to - inner containers cache
// lengths at insertion - it must encode to the same thing, and report the same size, every time.
func c13LateHistories(c *fw.Ctx, m *rec.Rec, kind string, hs [][]int) {
	switch m.K {
	case "flow_mod", "group_mod", "packet_out", "bundle_add":
	default:
		return
	}
	// only values that can be sized and encoded at all are in the property's domain (a conntrack action whose nested
	// action outgrew the length it cached cannot be encoded by the pinned library)
	probe, _, _ := fw.Recover(func() {
		v, late, err := lib.BuildMessageLate(m, true)
		if err != nil || late == 0 || isNil(v) {
			panic("skip")
		}
		v.Len()
		v.MarshalBinary()
	})
	if probe {
		return
	}
	refLen := -1
	var refBytes []byte
	for hi, h := range hs {
		if hi >= 30 {
			break
		}
		var v util.Message
		var late int
		var err error
		p, _, _ := fw.Recover(func() { v, late, err = lib.BuildMessageLate(m, true) })
		if p || err != nil || late == 0 || isNil(v) {
			return
		}
		if hi == 0 {
			c.Count("late_growth_values", 1)
		}
		ops := ""
		bad := false
		p, pv, st := fw.Recover(func() {
			for _, op := range h {
				if op == 0 {
					ops += "L"
					l := int(v.Len())
					if refLen < 0 {
						refLen = l
					} else if l != refLen {
						c.Violation(kind, "repeat", "late-growth:size-changed", fmt.Sprintf("value built top-down, history %s: size query answered %d, an earlier one %d", ops, l, refLen))
						bad = true
						return
					}
				} else {
					ops += "E"
					b, e := v.MarshalBinary()
					if e != nil {
						bad = true
						return
					}
					if refBytes == nil {
						refBytes = append([]byte(nil), b...)
					} else if !bytes.Equal(b, refBytes) {
						off := 0
						for off < len(b) && off < len(refBytes) && b[off] == refBytes[off] {
							off++
						}
						c.Violation(kind, "repeat", "late-growth:bytes-changed", fmt.Sprintf("value built top-down, history %s: encoding (%d bytes) differs from an earlier encoding (%d bytes) at offset %d\nnow:    %s\nbefore: %s", ops, len(b), len(refBytes), off, window(b, off), window(refBytes, off)))
						bad = true
						return
					}
				}
			}
		})
		if p {
			c.Violation(kind, "panic", "late-growth:"+fw.LibFrame(st), fmt.Sprintf("history %s panics although the same value could be sized and encoded when probed: %s", ops, pv))
			return
		}
		if bad {
			return
		}
	}
}

// c13RawChild: the slot a container has for an embedded message or payload holds a pre-encoded util.Buffer (what a
// relay or a cache puts there), with a length field of its own that need not say what the container thinks. The
// container is sized and encoded repeatedly: the answers must agree and the buffer must still hold the bytes it was
// given (it hands out its own storage when asked to encode itself, so a container that edits what its child returned
// edits the child).
func c13RawChild(c *fw.Ctx, cs *c06Case, kind string, r *prng.R) {
	p, pv, st := fw.Recover(func() {
		v, err := buildValue(cs)
		if err != nil || isNil(v) {
			return
		}
		var slot *util.Message
		switch x := v.(type) {
		case *of.VendorHeader:
			if ba, ok := x.VendorData.(*of.BundleAdd); ok {
				slot = &ba.Message
			}
		case *of.BundleAdd:
			slot = &x.Message
		case *of.PacketOut:
			slot = &x.Data
		case *protocol.Ethernet:
			slot = &x.Data
		case *protocol.IPv4:
			slot = &x.Data
		case *protocol.IPv6:
			slot = &x.Data
		}
		if slot == nil || isNil(*slot) {
			return
		}
		cb, err := (*slot).MarshalBinary()
		if err != nil {
			return
		}
		given := append([]byte(nil), cb...)
		if len(given) >= 4 && r.Chance(2, 3) {
			binary.BigEndian.PutUint16(given[2:], uint16(r.Pick(0, 8, len(given)-1, len(given)+8, 0xffff)))
		}
		raw := util.NewBuffer(append([]byte(nil), given...))
		*slot = raw
		c.Count("raw_children", 1)
		var first []byte
		size := -1
		for i, op := range []int{0, 1, 1, 0, 1} {
			if op == 0 {
				l := int(v.Len())
				if size >= 0 && l != size {
					c.Violation(kind, "repeat", "raw-child:size-changed", fmt.Sprintf("step %d: size %d, earlier %d", i, l, size))
					return
				}
				size = l
			} else {
				b, err := v.MarshalBinary()
				if err != nil {
					return
				}
				if first == nil {
					first = append([]byte(nil), b...)
				} else if !bytes.Equal(first, b) {
					c.Violation(kind, "repeat", "raw-child:bytes-changed", fmt.Sprintf("step %d: the container encodes differently the second time\nnow:    %s\nbefore: %s", i, hexHead(b), hexHead(first)))
					return
				}
			}
			if !bytes.Equal(raw.Bytes(), given) {
				c.Violation(kind, "disturbed", "raw-child:child-bytes-changed", fmt.Sprintf("after step %d the pre-encoded child no longer holds the bytes it was given\ngiven: %s\nnow:   %s", i, hexHead(given), hexHead(raw.Bytes())))
				return
			}
		}
	})
	if p {
		c.Violation(kind, "panic", "raw-child:"+fw.LibFrame(st), pv+"\n"+fw.TrimStack(st))
	}
}
