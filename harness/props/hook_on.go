//go:build verif

package props

import of "github.com/contiv/libOpenflow/openflow13"

// Hooks compiled in (build tag verif): see /repo/openflow13/verif_export.go.
const hooksOn = true

func hookRegistryNames() []string { return of.VerifRegistryNames() }
func hookRegistryRaw(name string) (uint16, uint8, uint8, bool, bool) {
	return of.VerifRegistryRaw(name)
}
func hookEncodeOfsNbits(ofs, n uint16) uint16       { return of.VerifEncodeOfsNbits(ofs, n) }
func hookEncodeOfsNbitsStartEnd(s, e uint16) uint16 { return of.VerifEncodeOfsNbitsStartEnd(s, e) }
func hookDecodeOfs(w uint16) uint16                 { return of.VerifDecodeOfs(w) }
func hookDecodeNbits(w uint16) uint16               { return of.VerifDecodeNbits(w) }
