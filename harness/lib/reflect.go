package lib

import (
	"fmt"
	"reflect"
	"unsafe"
)

// Priv returns a readable reflect.Value of the (possibly unexported) struct field name of *ptr.
func Priv(ptr any, name string) (reflect.Value, bool) {
	v := reflect.ValueOf(ptr)
	for v.Kind() == reflect.Ptr || v.Kind() == reflect.Interface {
		if v.IsNil() {
			return reflect.Value{}, false
		}
		v = v.Elem()
	}
	if v.Kind() != reflect.Struct {
		return reflect.Value{}, false
	}
	f := v.FieldByName(name)
	if !f.IsValid() {
		return reflect.Value{}, false
	}
	if !f.CanAddr() {
		return reflect.Value{}, false
	}
	return reflect.NewAt(f.Type(), unsafe.Pointer(f.UnsafeAddr())).Elem(), true
}

func PrivUint(ptr any, name string) (uint64, bool) {
	f, ok := Priv(ptr, name)
	if !ok {
		return 0, false
	}
	switch f.Kind() {
	case reflect.Uint, reflect.Uint8, reflect.Uint16, reflect.Uint32, reflect.Uint64:
		return f.Uint(), true
	case reflect.Int, reflect.Int8, reflect.Int16, reflect.Int32, reflect.Int64:
		return uint64(f.Int()), true
	case reflect.Bool:
		if f.Bool() {
			return 1, true
		}
		return 0, true
	}
	return 0, false
}

func PrivBytes(ptr any, name string) ([]byte, bool) {
	f, ok := Priv(ptr, name)
	if !ok {
		return nil, false
	}
	switch f.Kind() {
	case reflect.Slice:
		if f.Type().Elem().Kind() == reflect.Uint8 {
			return append([]byte(nil), f.Bytes()...), true
		}
	case reflect.Array:
		if f.Type().Elem().Kind() == reflect.Uint8 {
			b := make([]byte, f.Len())
			for i := range b {
				b[i] = byte(f.Index(i).Uint())
			}
			return b, true
		}
	}
	return nil, false
}

// SetUintField assigns an exported unsigned field whatever its width (so a width change in the library still compiles).
func SetUintField(ptr any, name string, v uint64) error {
	rv := reflect.ValueOf(ptr)
	if rv.Kind() != reflect.Ptr || rv.Elem().Kind() != reflect.Struct {
		return fmt.Errorf("lib: SetUintField on %T", ptr)
	}
	f := rv.Elem().FieldByName(name)
	if !f.IsValid() || !f.CanSet() {
		return fmt.Errorf("lib: %T has no settable field %s", ptr, name)
	}
	switch f.Kind() {
	case reflect.Uint, reflect.Uint8, reflect.Uint16, reflect.Uint32, reflect.Uint64:
		f.SetUint(v & (1<<uint(f.Type().Bits()) - 1))
		if f.Type().Bits() == 64 {
			f.SetUint(v)
		}
		return nil
	}
	return fmt.Errorf("lib: field %s of %T is not an unsigned integer", name, ptr)
}

// GetUintField reads an exported or unexported unsigned field.
func GetUintField(ptr any, name string) uint64 {
	v, _ := PrivUint(ptr, name)
	return v
}
