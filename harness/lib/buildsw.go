package lib

import (
	"encoding/binary"
	"fmt"

	"github.com/contiv/libOpenflow/common"
	of "github.com/contiv/libOpenflow/openflow13"
	"github.com/contiv/libOpenflow/protocol"
	"github.com/contiv/libOpenflow/util"

	"vh/rec"
	"vh/spec"
)

func buildPort(r *rec.Rec) *of.PhyPort {
	p := of.NewPhyPort()
	p.PortNo = r.U32("port_no")
	copy(p.HWAddr, r.Bytes("hw_addr"))
	copy(p.Name, r.Bytes("name"))
	p.Config, p.State, p.Curr, p.Advertised = r.U32("config"), r.U32("state"), r.U32("curr"), r.U32("advertised")
	p.Supported, p.Peer, p.CurrSpeed, p.MaxSpeed = r.U32("supported"), r.U32("peer"), r.U32("curr_speed"), r.U32("max_speed")
	return p
}

// BuildSwitchInstruction also covers the instruction/action kinds without a constructor (exported fields only).
func buildSwitchActions(rs []*rec.Rec) ([]of.Action, error) {
	var out []of.Action
	for _, r := range rs {
		a, err := BuildAction(r)
		if err != nil {
			t, ok := spec.ActionType[r.K]
			if !ok {
				return nil, err
			}
			switch r.K {
			case "copy_ttl_out", "copy_ttl_in", "dec_mpls_ttl", "pop_pbb":
				a = &of.ActionEmpty{ActionHeader: of.ActionHeader{Type: t, Length: 8}}
			case "set_mpls_ttl":
				a = &of.ActionMplsTtl{ActionHeader: of.ActionHeader{Type: t, Length: 8}, MplsTtl: r.U8("ttl")}
			case "set_nw_ttl":
				a = &of.ActionNwTtl{ActionHeader: of.ActionHeader{Type: t, Length: 8}, NwTtl: r.U8("ttl")}
			case "push_pbb":
				p := of.NewActionPushVlan(r.U16("ethertype"))
				p.Type = t
				a = p
			default:
				return nil, err
			}
		}
		out = append(out, a)
	}
	return out, nil
}

func buildSwitchInstruction(r *rec.Rec) (of.Instruction, error) {
	switch r.K {
	case "meter":
		return &of.InstrMeter{InstrHeader: of.InstrHeader{Type: 6, Length: 8}, MeterId: r.U32("meter_id")}, nil
	case "clear_actions":
		in := of.NewInstrApplyActions()
		in.Type = 5
		return in, nil
	case "write_actions", "apply_actions":
		var in *of.InstrActions
		if r.K == "write_actions" {
			in = of.NewInstrWriteActions()
		} else {
			in = of.NewInstrApplyActions()
		}
		as, err := buildSwitchActions(r.List("actions"))
		if err != nil {
			return nil, err
		}
		for _, a := range as {
			in.AddAction(a, false)
		}
		return in, nil
	}
	return BuildInstruction(r)
}

// BuildMPRecord builds one multipart reply record through constructors and exported fields.
func BuildMPRecord(b *rec.Rec) (util.Message, error) {
	switch b.K {
	case "desc_stats":
		d := of.NewDescStats()
		copy(d.MfrDesc, b.Bytes("mfr_desc"))
		copy(d.HWDesc, b.Bytes("hw_desc"))
		copy(d.SWDesc, b.Bytes("sw_desc"))
		copy(d.SerialNum, b.Bytes("serial_num"))
		copy(d.DPDesc, b.Bytes("dp_desc"))
		return d, nil
	case "flow_stats":
		f := of.NewFlowStats()
		f.TableId, f.DurationSec, f.DurationNSec = b.U8("table_id"), b.U32("duration_sec"), b.U32("duration_nsec")
		f.Priority, f.IdleTimeout, f.HardTimeout, f.Flags = b.U16("priority"), b.U16("idle_timeout"), b.U16("hard_timeout"), b.U16("flags")
		f.Cookie, f.PacketCount, f.ByteCount = b.U("cookie"), b.U("packet_count"), b.U("byte_count")
		if err := BuildMatch(b.Sub("match"), &f.Match); err != nil {
			return nil, err
		}
		for _, ir := range b.List("instructions") {
			in, err := buildSwitchInstruction(ir)
			if err != nil {
				return nil, err
			}
			f.Instructions = append(f.Instructions, in)
		}
		f.Length = f.Len() // the record's length field is the user's to maintain
		return f, nil
	case "aggregate_stats":
		a := of.NewAggregateStats()
		a.PacketCount, a.ByteCount, a.FlowCount = b.U("packet_count"), b.U("byte_count"), b.U32("flow_count")
		return a, nil
	case "table_stats":
		t := of.NewTableStats()
		t.TableId, t.ActiveCount, t.LookupCount, t.MatchedCount = b.U8("table_id"), b.U32("active_count"), b.U("lookup_count"), b.U("matched_count")
		return t, nil
	case "port_stats":
		p := of.NewPortStats()
		SetUintField(p, "PortNo", b.U("port_no"))
		names := []string{"RxPackets", "TxPackets", "RxBytes", "TxBytes", "RxDropped", "TxDropped", "RxErrors", "TxErrors", "RxFrameErr", "RxOverErr", "RxCRCErr", "Collisions"}
		for i, n := range names {
			SetUintField(p, n, b.U(spec.PortStatsCounters[i]))
		}
		SetUintField(p, "DurationSec", b.U("duration_sec"))
		SetUintField(p, "DurationNSec", b.U("duration_nsec"))
		return p, nil
	case "queue_stats":
		q := &of.QueueStats{}
		SetUintField(q, "PortNo", b.U("port_no"))
		q.QueueId, q.TxBytes, q.TxPackets, q.TxErrors = b.U32("queue_id"), b.U("tx_bytes"), b.U("tx_packets"), b.U("tx_errors")
		SetUintField(q, "DurationSec", b.U("duration_sec"))
		SetUintField(q, "DurationNSec", b.U("duration_nsec"))
		return q, nil
	case "port":
		return buildPort(b), nil
	}
	return nil, fmt.Errorf("lib: multipart record kind %q", b.K)
}

// BuildSwitchMessage builds a switch-originated message value (for the library-only round-trip, size and
// repeatability checks; the wire-first check C04 uses the reference encoder instead).
func BuildSwitchMessage(r *rec.Rec) (util.Message, error) {
	switch r.K {
	case "hello":
		h, err := common.NewHello(4)
		if err != nil {
			return nil, err
		}
		h.Elements = nil
		for _, e := range r.List("elements") {
			if e.K != "hello_versionbitmap" {
				continue // elements of unknown type are not representable (a receiver skips them)
			}
			vb := common.NewHelloElemVersionBitmap()
			vb.Bitmaps = nil
			bm := e.Bytes("bitmaps")
			for i := 0; i+4 <= len(bm); i += 4 {
				vb.Bitmaps = append(vb.Bitmaps, binary.BigEndian.Uint32(bm[i:]))
			}
			vb.Length = 4 + uint16(len(bm))
			h.Elements = append(h.Elements, vb)
		}
		setXid(&h.Header, r)
		return h, nil
	case "error":
		e := of.NewErrorMsg()
		e.Header = of.NewOfp13Header()
		e.Header.Type = of.Type_Error
		e.Type, e.Code = r.U16("type"), r.U16("code")
		e.Data = *util.NewBuffer(Own(r.Bytes("data")))
		setXid(&e.Header, r)
		e.Header.Length = e.Len()
		return e, nil
	case "exp_error":
		e := of.NewBundleError()
		e.Header.Type = of.Type_Error
		e.Code = r.U16("exp_type")
		e.ExperimenterID = r.U32("experimenter")
		e.Data = *util.NewBuffer(Own(r.Bytes("data")))
		setXid(&e.Header, r)
		e.Header.Length = e.Len()
		return e, nil
	case "echo_request", "echo_reply", "barrier_reply":
		h := of.NewOfp13Header()
		h.Type = spec.MsgType[r.K]
		setXid(&h, r)
		return &h, nil
	case "features_reply":
		f := of.NewFeaturesReply()
		binary.BigEndian.PutUint64(f.DPID, r.U("datapath_id"))
		f.Buffers, f.NumTables, f.AuxilaryId, f.Capabilities, f.Actions = r.U32("n_buffers"), r.U8("n_tables"), r.U8("auxiliary_id"), r.U32("capabilities"), r.U32("reserved")
		for _, pr := range r.List("ports") { // the library's (OpenFlow 1.0 style) trailing port list; round trip only
			f.Ports = append(f.Ports, *buildPort(pr))
		}
		setXid(&f.Header, r)
		return f, nil
	case "get_config_reply":
		c := of.NewSetConfig()
		c.Header.Type = of.Type_GetConfigReply
		c.Flags, c.MissSendLen = r.U16("flags"), r.U16("miss_send_len")
		setXid(&c.Header, r)
		return c, nil
	case "packet_in":
		p := of.NewPacketIn()
		p.BufferId, p.TotalLen, p.Reason, p.TableId, p.Cookie = r.U32("buffer_id"), r.U16("total_len"), r.U8("reason"), r.U8("table_id"), r.U("cookie")
		if err := BuildMatch(r.Sub("match"), &p.Match); err != nil {
			return nil, err
		}
		if pk := r.Sub("packet"); pk != nil {
			m, err := BuildPacket(pk)
			if err != nil {
				return nil, err
			}
			p.Data = *m.(*protocol.Ethernet)
		} else {
			return nil, fmt.Errorf("lib: packet-in needs a typed frame")
		}
		setXid(&p.Header, r)
		p.Header.Length = p.Len()
		return p, nil
	case "flow_removed":
		f := of.NewFlowRemoved()
		f.Header.Type = of.Type_FlowRemoved
		f.Cookie, f.Priority, f.Reason, f.TableId = r.U("cookie"), r.U16("priority"), r.U8("reason"), r.U8("table_id")
		f.DurationSec, f.DurationNSec, f.IdleTimeout, f.HardTimeout = r.U32("duration_sec"), r.U32("duration_nsec"), r.U16("idle_timeout"), r.U16("hard_timeout")
		f.PacketCount, f.ByteCount = r.U("packet_count"), r.U("byte_count")
		if err := BuildMatch(r.Sub("match"), &f.Match); err != nil {
			return nil, err
		}
		setXid(&f.Header, r)
		f.Header.Length = f.Len()
		return f, nil
	case "port_status":
		p := of.NewPortStatus()
		p.Header.Type = of.Type_PortStatus
		p.Reason = r.U8("reason")
		p.Desc = *buildPort(r.Sub("port"))
		setXid(&p.Header, r)
		return p, nil
	case "mp_reply":
		m := &of.MultipartReply{Header: of.NewOfp13Header(), Type: r.U16("type"), Flags: r.U16("flags")}
		m.Header.Type = of.Type_MultiPartReply
		for _, b := range r.List("body") {
			rec, err := BuildMPRecord(b)
			if err != nil {
				return nil, err
			}
			m.Body = append(m.Body, rec)
		}
		setXid(&m.Header, r)
		return m, nil
	case "nx_tlv_table_reply":
		v := of.NewNXTVendorHeader(of.Type_TlvTableReply)
		t := &of.TLVTableReply{MaxSpace: r.U32("max_space"), MaxFields: r.U16("max_fields")}
		for _, tm := range r.List("maps") {
			t.TlvMaps = append(t.TlvMaps, &of.TLVTableMap{OptClass: tm.U16("opt_class"), OptType: tm.U8("opt_type"), OptLength: tm.U8("opt_len"), Index: tm.U16("index")})
		}
		v.VendorData = t
		setXid(&v.Header, r)
		return v, nil
	}
	return BuildMessage(r)
}
