package lib

import (
	"bytes"
	"fmt"
	"net"

	"github.com/contiv/libOpenflow/protocol"
	"github.com/contiv/libOpenflow/util"

	"vh/rec"
)

func pktPayload(r *rec.Rec) (util.Message, error) {
	if s := r.Sub("payload"); s != nil {
		return BuildPacket(s)
	}
	if r.Has("data") {
		return util.NewBuffer(Own(r.Bytes("data"))), nil
	}
	return nil, nil
}

func ips(b []byte) []net.IP {
	var out []net.IP
	for i := 0; i+4 <= len(b); i += 4 {
		out = append(out, net.IP(Own(b[i:i+4])))
	}
	return out
}

// BuildPacket constructs a packet header value (with its payload chain) through constructors and exported fields.
func BuildPacket(r *rec.Rec) (util.Message, error) {
	switch r.K {
	case "raw":
		return util.NewBuffer(Own(r.Bytes("data"))), nil
	case "ethernet":
		e := protocol.NewEthernet()
		e.HWDst = net.HardwareAddr(Own(r.Bytes("dst")))
		e.HWSrc = net.HardwareAddr(Own(r.Bytes("src")))
		if r.Bool("has_vlan") {
			e.VLANID.PCP = r.U8("pcp")
			e.VLANID.DEI = r.U8("dei")
			e.VLANID.VID = r.U16("vid")
		}
		e.Ethertype = r.U16("ethertype")
		p, err := pktPayload(r)
		if err != nil {
			return nil, err
		}
		if p != nil {
			e.Data = p
		}
		return e, nil
	case "vlan":
		v := protocol.NewVLAN()
		v.TPID = r.U16("tpid")
		v.PCP, v.DEI, v.VID = r.U8("pcp"), r.U8("dei"), r.U16("vid")
		return v, nil
	case "arp":
		op := int(r.U16("oper"))
		a, err := protocol.NewARP(op)
		if err != nil { // other opcodes: the constructor refuses them, fields are exported
			a, _ = protocol.NewARP(protocol.Type_Request)
			a.Operation = r.U16("oper")
		}
		a.HWType, a.ProtoType = r.U16("htype"), r.U16("ptype")
		a.HWLength, a.ProtoLength = r.U8("hlen"), r.U8("plen")
		a.HWSrc = net.HardwareAddr(Own(r.Bytes("sha")))
		a.IPSrc = net.IP(Own(r.Bytes("spa")))
		a.HWDst = net.HardwareAddr(Own(r.Bytes("tha")))
		a.IPDst = net.IP(Own(r.Bytes("tpa")))
		return a, nil
	case "ipv4":
		i := protocol.NewIPv4()
		i.Version, i.IHL = r.U8("version"), r.U8("ihl")
		i.DSCP, i.ECN = r.U8("dscp"), r.U8("ecn")
		i.Length, i.Id = r.U16("length"), r.U16("id")
		i.Flags, i.FragmentOffset = r.U16("flags"), r.U16("frag_off")
		i.TTL, i.Protocol, i.Checksum = r.U8("ttl"), r.U8("protocol"), r.U16("checksum")
		i.NWSrc = net.IP(Own(r.Bytes("src")))
		i.NWDst = net.IP(Own(r.Bytes("dst")))
		if o := r.Bytes("options"); len(o) > 0 {
			i.Options = *util.NewBuffer(Own(o))
		}
		p, err := pktPayload(r)
		if err != nil {
			return nil, err
		}
		if p != nil {
			i.Data = p
		}
		return i, nil
	case "ipv6":
		i := &protocol.IPv6{}
		i.Version, i.TrafficClass, i.FlowLabel = r.U8("version"), r.U8("tclass"), r.U32("flow_label")
		i.Length, i.NextHeader, i.HopLimit = r.U16("length"), r.U8("next_header"), r.U8("hop_limit")
		i.NWSrc = net.IP(Own(r.Bytes("src")))
		i.NWDst = net.IP(Own(r.Bytes("dst")))
		for _, e := range r.List("ext") {
			m, err := BuildPacket(e)
			if err != nil {
				return nil, err
			}
			switch x := m.(type) {
			case *protocol.HopByHopHeader:
				i.HbhHeader = x
			case *protocol.RoutingHeader:
				i.RoutingHeader = x
			case *protocol.FragmentHeader:
				i.FragmentHeader = x
			}
		}
		p, err := pktPayload(r)
		if err != nil {
			return nil, err
		}
		if p == nil {
			p = util.NewBuffer([]byte{})
		}
		i.Data = p
		return i, nil
	case "hbh":
		h := protocol.NewHopByHopHeader()
		h.NextHeader, h.HEL = r.U8("next_header"), r.U8("hel")
		for _, o := range r.List("options") {
			d := o.Bytes("data")
			h.Options = append(h.Options, &protocol.Option{Type: o.U8("type"), Length: uint8(len(d)), Data: Own(d)})
		}
		return h, nil
	case "ip6opt":
		d := r.Bytes("data")
		return &protocol.Option{Type: r.U8("type"), Length: uint8(len(d)), Data: Own(d)}, nil
	case "routing":
		h := protocol.NewRoutingHeader()
		h.NextHeader, h.HEL, h.RoutingType, h.SegmentsLeft = r.U8("next_header"), r.U8("hel"), r.U8("type"), r.U8("segments_left")
		h.Data = util.NewBuffer(Own(r.Bytes("data")))
		return h, nil
	case "fragment":
		h := protocol.NewFragmentHeader()
		h.NextHeader, h.Reserved, h.FragmentOffset, h.MoreFragments, h.Identification = r.U8("next_header"), r.U8("reserved"), r.U16("frag_off"), r.Bool("more"), r.U32("id")
		return h, nil
	case "icmp":
		i := protocol.NewICMP()
		i.Type, i.Code, i.Checksum = r.U8("type"), r.U8("code"), r.U16("checksum")
		i.Data = Own(r.Bytes("data"))
		return i, nil
	case "udp":
		u := protocol.NewUDP()
		u.PortSrc, u.PortDst, u.Length, u.Checksum = r.U16("sport"), r.U16("dport"), r.U16("length"), r.U16("checksum")
		u.Data = Own(r.Bytes("data"))
		return u, nil
	case "tcp":
		t := protocol.NewTCP()
		t.PortSrc, t.PortDst, t.SeqNum, t.AckNum = r.U16("sport"), r.U16("dport"), r.U32("seq"), r.U32("ack")
		t.HdrLen, t.Code = r.U8("data_off"), r.U8("flags")
		t.WinSize, t.Checksum, t.UrgFlag = r.U16("window"), r.U16("checksum"), r.U16("urgent")
		t.Data = Own(r.Bytes("data"))
		return t, nil
	case "igmp12":
		g := net.IP(Own(r.Bytes("group")))
		var m *protocol.IGMPv1or2
		switch r.U8("type") {
		case protocol.IGMPv1Report:
			m = protocol.NewIGMPv1Report(g)
		case protocol.IGMPv2Report:
			m = protocol.NewIGMPv2Report(g)
		case protocol.IGMPv2LeaveGroup:
			m = protocol.NewIGMPv2Leave(g)
		default:
			m = protocol.NewIGMPv2Query(g, r.U8("max_resp"))
		}
		m.Type, m.MaxResponseTime, m.Checksum = r.U8("type"), r.U8("max_resp"), r.U16("checksum")
		return m, nil
	case "igmp3_query":
		q := protocol.NewIGMPv3Query(net.IP(Own(r.Bytes("group"))), r.U8("max_resp"), r.U8("qqic"), ips(r.Bytes("sources")))
		q.Type, q.Checksum = r.U8("type"), r.U16("checksum")
		q.SuppressRouterProcessing, q.RobustnessValue = r.Bool("s"), r.U8("qrv")
		return q, nil
	case "igmp3_record":
		g := protocol.NewGroupRecord(r.U8("type"), net.IP(Own(r.Bytes("mcast"))), ips(r.Bytes("sources")))
		aux := r.Bytes("aux")
		g.AuxDataLen = uint8(len(aux) / 4)
		for i := 0; i+4 <= len(aux); i += 4 {
			g.AuxData = append(g.AuxData, u32(aux[i:i+4]))
		}
		return &g, nil
	case "igmp3_report":
		var recs []protocol.IGMPv3GroupRecord
		for _, rr := range r.List("records") {
			m, err := BuildPacket(rr)
			if err != nil {
				return nil, err
			}
			recs = append(recs, *m.(*protocol.IGMPv3GroupRecord))
		}
		rep := protocol.NewIGMPv3Report(recs)
		rep.Checksum = r.U16("checksum")
		return rep, nil
	}
	return nil, fmt.Errorf("lib: packet kind %q has no util.Message constructor", r.K)
}

// BuildDHCP and BuildLLDP: these two kinds encode through Read(), not MarshalBinary.
func BuildDHCP(r *rec.Rec) (*protocol.DHCP, error) {
	var d *protocol.DHCP
	var err error
	hw := net.HardwareAddr(Own(r.Bytes("chaddr")))
	// through each message constructor (they differ in the options they pre-fill, which the recipe then replaces)
	switch r.U32("xid") % 7 {
	case 1:
		d, err = protocol.NewDHCPDiscover(r.U32("xid"), hw)
	case 2:
		d, err = protocol.NewDHCPOffer(r.U32("xid"), hw)
	case 3:
		d, err = protocol.NewDHCPRequest(r.U32("xid"), hw)
	case 4:
		d, err = protocol.NewDHCPAck(r.U32("xid"), hw)
	case 5:
		d, err = protocol.NewDHCPNak(r.U32("xid"), hw)
	default:
		d, err = protocol.NewDHCP(r.U32("xid"), protocol.DHCPOperation(r.U8("op")), r.U8("htype"))
	}
	if err != nil {
		return nil, err
	}
	d.Operation, d.HardwareType, d.Options = protocol.DHCPOperation(r.U8("op")), r.U8("htype"), nil
	d.HardwareLen, d.HardwareOpts = r.U8("hlen"), r.U8("hops")
	d.Secs, d.Flags = r.U16("secs"), r.U16("flags")
	// an all-zero address is what the constructors leave in place: keep their buffers then
	for _, f := range []struct {
		dst  *net.IP
		name string
	}{{&d.ClientIP, "ciaddr"}, {&d.YourIP, "yiaddr"}, {&d.ServerIP, "siaddr"}, {&d.GatewayIP, "giaddr"}} {
		if b := r.Bytes(f.name); !bytes.Equal(b, []byte{0, 0, 0, 0}) {
			*f.dst = net.IP(Own(b))
		}
	}
	ch := r.Bytes("chaddr")
	if int(d.HardwareLen) <= len(ch) {
		ch = ch[:d.HardwareLen]
	}
	d.ClientHWAddr = net.HardwareAddr(Own(ch))
	copy(d.ServerName[:], r.Bytes("sname"))
	copy(d.File[:], r.Bytes("file"))
	for i, o := range r.List("options") {
		data := Own(o.Bytes("data"))
		var opt protocol.DHCPOption
		// the same option through each of the option constructors the library offers
		switch {
		case i%3 == 1 && len(data) == 4:
			opt, err = protocol.DHCPIP4Option(o.U8("tag"), net.IP(data))
		case i%3 == 1 && len(data) > 0 && len(data)%4 == 0:
			opt, err = protocol.DHCPIP4sOption(o.U8("tag"), ips(data))
		case i%3 == 2 && o.U8("tag") != 0:
			opt, err = protocol.DHCPStringOption(o.U8("tag"), string(data))
		default:
			opt = protocol.DHCPNewOption(o.U8("tag"), data)
		}
		if err != nil {
			return nil, err
		}
		d.Options = append(d.Options, opt)
	}
	return d, nil
}

func BuildLLDP(r *rec.Rec) *protocol.LLDP {
	l := &protocol.LLDP{}
	c, p, t := r.Sub("chassis"), r.Sub("port"), r.Sub("ttl")
	l.Chassis = protocol.ChassisTLV{Type: 1, Length: uint16(1 + len(c.Bytes("id"))), Subtype: c.U8("subtype"), Data: Own(c.Bytes("id"))}
	l.Port = protocol.PortTLV{Type: 2, Length: uint16(1 + len(p.Bytes("id"))), Subtype: p.U8("subtype"), Data: Own(p.Bytes("id"))}
	l.TTL = protocol.TTLTLV{Type: 3, Length: 2, Seconds: t.U16("seconds")}
	return l
}
