//go:build !verif

package lib

import of "github.com/contiv/libOpenflow/openflow13"

// registered (see hook_on.go): without the hooks the public lookup is all there is.
func registered(name string) bool {
	_, err := of.FindFieldHeaderByName(name, false)
	return err == nil
}
