package lib

import (
	"bytes"
	"encoding/binary"
	"fmt"
	"net"

	"github.com/contiv/libOpenflow/common"
	of "github.com/contiv/libOpenflow/openflow13"
	"github.com/contiv/libOpenflow/util"

	"vh/rec"
)

func BuildMatch(r *rec.Rec, m *of.Match) error {
	for _, f := range r.List("fields") {
		mf, err := BuildMatchField(f)
		if err != nil {
			return err
		}
		m.AddField(*mf)
	}
	return nil
}

func BuildActions(rs []*rec.Rec) ([]of.Action, error) {
	out := make([]of.Action, 0, len(rs))
	for _, r := range rs {
		a, err := BuildAction(r)
		if err != nil {
			return nil, err
		}
		out = append(out, a)
	}
	return out, nil
}

func BuildAction(r *rec.Rec) (of.Action, error) {
	switch r.K {
	case "output":
		a := of.NewActionOutput(r.U32("port"))
		a.MaxLen = r.U16("max_len")
		return a, nil
	case "set_queue":
		return of.NewActionSetQueue(r.U32("queue_id")), nil
	case "group":
		return of.NewActionGroup(r.U32("group_id")), nil
	case "dec_nw_ttl":
		return of.NewActionDecNwTtl(), nil
	case "push_vlan":
		return of.NewActionPushVlan(r.U16("ethertype")), nil
	case "push_mpls":
		return of.NewActionPushMpls(r.U16("ethertype")), nil
	case "pop_vlan":
		return of.NewActionPopVlan(), nil
	case "pop_mpls":
		return of.NewActionPopMpls(r.U16("ethertype")), nil
	case "set_field":
		f, err := BuildMatchField(r.Sub("field"))
		if err != nil {
			return nil, err
		}
		return of.NewActionSetField(*f), nil
	case "nx_conjunction":
		return of.NewNXActionConjunction(r.U8("clause"), r.U8("n_clauses"), r.U32("id")), nil
	case "nx_ct":
		a := of.NewNXActionConnTrack()
		fl := r.U16("flags")
		if fl&1 != 0 {
			a.Commit()
		}
		if fl&2 != 0 {
			a.Force()
		}
		a.Flags |= fl &^ 3 // only the bits without a setter go through the exported field
		a.Table(r.U8("recirc_table"))
		switch r.Text("_zone") {
		case "range":
			a.ZoneRange(HeaderField(r.U32("zone_src"), r.Text("_zone_name")), of.NewNXRange(int(r.U("_zone_first")), int(r.U("_zone_last"))))
		default:
			if r.U32("zone_src") == 0 && r.U16("zone_ofs_nbits")%3 == 1 {
				// an order-dependent history: the zone is first taken from a field and then replaced by an immediate
				a.ZoneRange(HeaderField(0x0001d604, "NXM_NX_CT_ZONE"), of.NewNXRange(0, 15))
				a.ZoneImm(r.U16("zone_ofs_nbits"))
			} else {
				a.ZoneImm(r.U16("zone_ofs_nbits"))
				a.ZoneSrc = r.U32("zone_src")
			}
		}
		a.Alg = r.U16("alg")
		nested, err := BuildActions(r.List("actions"))
		if err != nil {
			return nil, err
		}
		if r.Bool("_one_call") {
			// the caller spreads a scratch slice with spare capacity and reuses it right afterwards for something else
			scratch := make([]of.Action, len(nested), len(nested)+2)
			copy(scratch, nested)
			a.AddAction(scratch...)
			for i := range scratch {
				scratch[i] = of.NewActionGroup(0xdead0000 + uint32(i))
			}
			scratch = append(scratch, of.NewActionGroup(0xdeadbeef))
			_ = scratch
		} else {
			for _, n := range nested {
				a.AddAction(n)
			}
		}
		return a, nil
	case "nx_reg_load":
		return of.NewNXActionRegLoad(r.U16("ofs_nbits"), HeaderField(r.U32("dst"), r.Text("_dst_name")), r.U("value")), nil
	case "nx_reg_move":
		return of.NewNXActionRegMove(r.U16("n_bits"), r.U16("src_ofs"), r.U16("dst_ofs"),
			HeaderField(r.U32("src"), r.Text("_src_name")), HeaderField(r.U32("dst"), r.Text("_dst_name"))), nil
	case "nx_resubmit":
		return of.NewNXActionResubmit(r.U16("in_port")), nil
	case "nx_resubmit_table":
		return of.NewNXActionResubmitTableAction(r.U16("in_port"), r.U8("table")), nil
	case "nx_ct_resubmit":
		if r.U16("in_port") == 0xfff8 && r.Bool("_no_in_port") {
			return of.NewNXActionResubmitTableCTNoInPort(r.U8("table")), nil
		}
		return of.NewNXActionResubmitTableCT(r.U16("in_port"), r.U8("table")), nil
	case "nx_output_reg":
		f := HeaderField(r.U32("src"), r.Text("_src_name"))
		if r.U16("max_len") == 0xffff && r.Bool("_default_max_len") {
			return of.NewOutputFromField(f, r.U16("ofs_nbits")), nil
		}
		return of.NewOutputFromFieldWithMaxLen(f, r.U16("ofs_nbits"), r.U16("max_len")), nil
	case "nx_ct_clear":
		return of.NewNXActionCTClear(), nil
	case "nx_dec_ttl":
		return of.NewNXActionDecTTL(), nil
	case "nx_dec_ttl_cnt_ids":
		b := r.Bytes("ids")
		ids := make([]uint16, len(b)/2)
		for i := range ids {
			ids[i] = binary.BigEndian.Uint16(b[2*i:])
		}
		return of.NewNXActionDecTTLCntIDs(r.U16("n_controllers"), ids...), nil
	case "nx_learn":
		a := of.NewNXActionLearn()
		a.IdleTimeout = r.U16("idle_timeout")
		a.HardTimeout = r.U16("hard_timeout")
		a.Priority = r.U16("priority")
		a.Cookie = r.U("cookie")
		a.Flags = r.U16("flags")
		a.TableID = r.U8("table_id")
		a.FinIdleTimeout = r.U16("fin_idle_timeout")
		a.FinHardTimeout = r.U16("fin_hard_timeout")
		for _, s := range r.List("specs") {
			ls := &of.NXLearnSpec{}
			n := s.U16("n_bits")
			switch s.Text("kind") {
			case "match_field":
				ls.Header = of.NewLearnHeaderMatchFromField(n)
			case "match_value":
				ls.Header = of.NewLearnHeaderMatchFromValue(n)
			case "load_field":
				ls.Header = of.NewLearnHeaderLoadFromField(n)
			case "load_value":
				ls.Header = of.NewLearnHeaderLoadFromValue(n)
			case "output_field":
				ls.Header = of.NewLearnHeaderOutputFromField(n)
			default:
				return nil, fmt.Errorf("lib: learn spec kind %q", s.Text("kind"))
			}
			switch s.Text("kind") {
			case "match_value", "load_value":
				v := s.Bytes("value")
				if k := int(s.U("_slack")); k > 0 { // a scratch buffer longer than the immediate needs: only its first bytes count
					v = append(append([]byte(nil), v...), bytes.Repeat([]byte{0x5a}, k)...)
				}
				ls.SrcValue = Own(v)
			default:
				ls.SrcField = &of.NXLearnSpecField{Field: HeaderField(s.U32("src"), s.Text("_src_name")), Ofs: s.U16("src_ofs")}
			}
			if s.Text("kind") != "output_field" {
				ls.DstField = &of.NXLearnSpecField{Field: HeaderField(s.U32("dst"), s.Text("_dst_name")), Ofs: s.U16("dst_ofs")}
			}
			a.LearnSpecs = append(a.LearnSpecs, ls)
		}
		return a, nil
	case "nx_note":
		a := of.NewNXActionNote()
		a.Note = Own(r.Bytes("note"))
		return a, nil
	case "nx_reg_load2":
		f, err := BuildMatchField(r.Sub("field"))
		if err != nil {
			return nil, err
		}
		return of.NewNXActionRegLoad2(f), nil
	case "nx_controller":
		a := of.NewNXActionController(r.U16("controller_id"))
		a.MaxLen = r.U16("max_len")
		a.Reason = r.U8("reason")
		return a, nil
	case "nx_nat":
		a := of.NewNXActionCTNAT()
		fl := r.U16("flags")
		if fl&1 != 0 {
			a.SetSNAT()
		}
		if fl&2 != 0 {
			a.SetDNAT()
		}
		if fl&4 != 0 {
			a.SetPersistent()
		}
		if fl&8 != 0 {
			a.SetProtoHash()
		}
		if fl&16 != 0 {
			a.SetRandom()
		}
		if fl&3 == 3 || fl&24 == 24 || fl>>5 != 0 {
			a.Flags = fl // combinations the setters refuse, and undefined bits, through the exported field
		}
		ApplyNATRanges(a, r)
		return a, nil
	}
	return nil, fmt.Errorf("lib: action kind %q has no constructor", r.K)
}

func BuildInstruction(r *rec.Rec) (of.Instruction, error) {
	switch r.K {
	case "goto_table":
		return of.NewInstrGotoTable(r.U8("table_id")), nil
	case "write_metadata":
		return of.NewInstrWriteMetadata(r.U("metadata"), r.U("mask")), nil
	case "write_actions", "apply_actions":
		var in *of.InstrActions
		if r.K == "write_actions" {
			in = of.NewInstrWriteActions()
		} else {
			in = of.NewInstrApplyActions()
		}
		as, err := BuildActions(r.List("actions"))
		if err != nil {
			return nil, err
		}
		// _hist: pairs (index into the final list, prepend flag) giving a builder history that produces the list
		h := r.Bytes("_hist")
		if len(h) == 2*len(as) && len(as) > 0 {
			for i := 0; i+1 < len(h); i += 2 {
				if int(h[i]) >= len(as) {
					return nil, fmt.Errorf("lib: bad builder history")
				}
				if err := in.AddAction(as[h[i]], h[i+1] == 1); err != nil {
					return nil, err
				}
			}
		} else {
			for _, a := range as {
				if err := in.AddAction(a, false); err != nil {
					return nil, err
				}
			}
		}
		return in, nil
	}
	return nil, fmt.Errorf("lib: instruction kind %q has no constructor", r.K)
}

func BuildBucket(r *rec.Rec) (*of.Bucket, error) {
	b := of.NewBucket()
	b.Weight = r.U16("weight")
	b.WatchPort = r.U32("watch_port")
	b.WatchGroup = r.U32("watch_group")
	as, err := BuildActions(r.List("actions"))
	if err != nil {
		return nil, err
	}
	for _, a := range as {
		b.AddAction(a)
	}
	return b, nil
}

func setXid(h *common.Header, r *rec.Rec) {
	if r.Has("xid") {
		h.Xid = r.U32("xid")
	}
}

func fillFlowStatsReq(b *rec.Rec, tableId *uint8, outPort, outGroup *uint32, cookie, cookieMask *uint64, m *of.Match) error {
	*tableId = b.U8("table_id")
	*outPort = b.U32("out_port")
	*outGroup = b.U32("out_group")
	*cookie = b.U("cookie")
	*cookieMask = b.U("cookie_mask")
	return BuildMatch(b.Sub("match"), m)
}

// BuildMessage constructs a controller-originated message through the public API.
func BuildMessage(r *rec.Rec) (util.Message, error) {
	switch r.K {
	case "hello":
		h, err := common.NewHello(4)
		if err != nil {
			return nil, err
		}
		if es := r.List("elements"); len(es) > 0 {
			for i, e := range es {
				bm := e.Bytes("bitmaps")
				var vb *common.HelloElemVersionBitmap
				if i == 0 && len(h.Elements) == 1 {
					vb, _ = h.Elements[0].(*common.HelloElemVersionBitmap)
				}
				if vb == nil {
					vb = common.NewHelloElemVersionBitmap()
					h.Elements = append(h.Elements, vb)
				}
				if i == 0 && len(bm) == 4*len(vb.Bitmaps) {
					same := true
					for j, w := range vb.Bitmaps {
						same = same && binary.BigEndian.Uint32(bm[4*j:]) == w
					}
					if same {
						continue // the recipe asks for what the constructor produced: left exactly as constructed
					}
				}
				vb.Bitmaps = nil
				for j := 0; j+4 <= len(bm); j += 4 {
					vb.Bitmaps = append(vb.Bitmaps, binary.BigEndian.Uint32(bm[j:]))
				}
				vb.Length = 4 + uint16(len(bm))
			}
		}
		setXid(&h.Header, r)
		return h, nil
	case "echo_request":
		h := of.NewEchoRequest()
		setXid(h, r)
		return h, nil
	case "echo_reply":
		h := of.NewEchoReply()
		setXid(h, r)
		return h, nil
	case "features_request":
		h := of.NewFeaturesRequest()
		setXid(h, r)
		return h, nil
	case "get_config_request":
		h := of.NewConfigRequest()
		setXid(h, r)
		return h, nil
	case "barrier_request":
		h := of.NewOfp13Header()
		h.Type = of.Type_BarrierRequest
		setXid(&h, r)
		return &h, nil
	case "set_config":
		c := of.NewSetConfig()
		c.Flags = r.U16("flags")
		c.MissSendLen = r.U16("miss_send_len")
		setXid(&c.Header, r)
		return c, nil
	case "flow_mod":
		f := of.NewFlowMod()
		f.Cookie = r.U("cookie")
		f.CookieMask = r.U("cookie_mask")
		f.TableId = r.U8("table_id")
		f.Command = r.U8("command")
		f.IdleTimeout = r.U16("idle_timeout")
		f.HardTimeout = r.U16("hard_timeout")
		f.Priority = r.U16("priority")
		f.BufferId = r.U32("buffer_id")
		f.OutPort = r.U32("out_port")
		f.OutGroup = r.U32("out_group")
		f.Flags = r.U16("flags")
		if err := BuildMatch(r.Sub("match"), &f.Match); err != nil {
			return nil, err
		}
		for _, ir := range r.List("instructions") {
			in, err := BuildInstruction(ir)
			if err != nil {
				return nil, err
			}
			f.AddInstruction(in)
		}
		setXid(&f.Header, r)
		return f, nil
	case "group_mod":
		g := of.NewGroupMod()
		g.Command = r.U16("command")
		g.Type = r.U8("type")
		g.GroupId = r.U32("group_id")
		for _, br := range r.List("buckets") {
			b, err := BuildBucket(br)
			if err != nil {
				return nil, err
			}
			g.AddBucket(*b)
		}
		setXid(&g.Header, r)
		return g, nil
	case "packet_out":
		p := of.NewPacketOut()
		p.BufferId = r.U32("buffer_id")
		p.InPort = r.U32("in_port")
		as, err := BuildActions(r.List("actions"))
		if err != nil {
			return nil, err
		}
		for _, a := range as {
			p.AddAction(a)
		}
		if pk := r.Sub("packet"); pk != nil {
			m, err := BuildPacket(pk)
			if err != nil {
				return nil, err
			}
			p.Data = m
		} else if r.Has("data") || r.Bool("_set_data") {
			p.SetData(Own(r.Bytes("data")))
		}
		setXid(&p.Header, r)
		return p, nil
	case "port_mod":
		p := of.NewPortMod(int(r.U32("port_no")))
		p.HWAddr = Own(r.Bytes("hw_addr")) // any length the exported field accepts (nil, EUI-64, IPoIB ...); the wire slot is 6 bytes
		if len(p.HWAddr) == 0 {
			p.HWAddr = nil
		}
		p.Config = r.U32("config")
		p.Mask = r.U32("mask")
		p.Advertise = r.U32("advertise")
		if r.Has("xid") && !r.Bool("_keep_header") {
			p.Header.Xid = r.U32("xid")
		}
		return p, nil
	case "mp_request":
		m := &of.MultipartRequest{Header: of.NewOfp13Header(), Type: r.U16("type"), Flags: r.U16("flags")}
		m.Header.Type = of.Type_MultiPartRequest
		b := r.Sub("body")
		switch {
		case b == nil || b.K == "empty":
			m.Body = util.NewBuffer([]byte{})
		case b.K == "flow_stats_request":
			q := of.NewFlowStatsRequest()
			if err := fillFlowStatsReq(b, &q.TableId, &q.OutPort, &q.OutGroup, &q.Cookie, &q.CookieMask, &q.Match); err != nil {
				return nil, err
			}
			m.Body = q
		case b.K == "aggregate_stats_request":
			q := of.NewAggregateStatsRequest()
			if err := fillFlowStatsReq(b, &q.TableId, &q.OutPort, &q.OutGroup, &q.Cookie, &q.CookieMask, &q.Match); err != nil {
				return nil, err
			}
			m.Body = q
		case b.K == "port_stats_request":
			q := of.NewPortStatsRequest()
			if err := SetUintField(q, "PortNo", b.U("port_no")); err != nil {
				return nil, err
			}
			m.Body = q
		case b.K == "queue_stats_request":
			q := of.NewQueueStatsRequest()
			if err := SetUintField(q, "PortNo", b.U("port_no")); err != nil {
				return nil, err
			}
			q.QueueId = b.U32("queue_id")
			m.Body = q
		default:
			return nil, fmt.Errorf("lib: multipart request body %q", b.K)
		}
		setXid(&m.Header, r)
		return m, nil
	case "nx_set_controller_id":
		v := of.NewSetControllerID(r.U16("id"))
		setXid(&v.Header, r)
		return v, nil
	case "nx_tlv_table_mod":
		var maps []*of.TLVTableMap
		for _, t := range r.List("maps") {
			maps = append(maps, &of.TLVTableMap{OptClass: t.U16("opt_class"), OptType: t.U8("opt_type"), OptLength: t.U8("opt_len"), Index: t.U16("index")})
		}
		v := of.NewTLVTableModMessage(of.NewTLVTableMod(r.U16("command"), maps))
		setXid(&v.Header, r)
		return v, nil
	case "nx_tlv_table_request":
		v := of.NewTLVTableRequest()
		setXid(&v.Header, r)
		return v, nil
	case "bundle_control":
		v := of.NewBundleControl(&of.BundleControl{BundleID: r.U32("bundle_id"), Type: r.U16("type"), Flags: r.U16("flags")})
		setXid(&v.Header, r)
		return v, nil
	case "bundle_add":
		inner, err := BuildMessage(r.Sub("message"))
		if err != nil {
			return nil, err
		}
		ba := &of.BundleAdd{BundleID: r.U32("bundle_id"), Flags: r.U16("flags"), Message: inner}
		for _, pr := range r.List("properties") {
			body := pr.Bytes("body")
			if len(body) != 8 {
				return nil, fmt.Errorf("lib: a bundle property with a payload cannot be built through the API")
			}
			bp := of.NewBundlePropertyExperimenter()
			bp.Type = pr.U16("type")
			bp.ExperimenterID, bp.ExperimenterType = u32(body[:4]), u32(body[4:])
			ba.Properties = append(ba.Properties, *bp)
		}
		v := of.NewBundleAdd(ba)
		setXid(&v.Header, r)
		return v, nil
	}
	return nil, fmt.Errorf("lib: message kind %q is not constructible through the API", r.K)
}

func pad6(b []byte) []byte {
	o := make([]byte, 6)
	copy(o, b)
	return o
}

var _ = net.IP{}

// ApplyNATRanges calls the NAT action's range setters as the recipe says (order hints, double-set histories).
func ApplyNATRanges(a *of.NXActionCTNAT, r *rec.Rec) {
	rp := r.U16("range_present")
	order := r.Bytes("_order")
	if len(order) != 6 {
		order = []byte{0, 1, 2, 3, 4, 5}
	}
	if rp%5 == 2 { // a history in which every bound is first set to something else: the last call per bound counts
		dummy := uint16(0x1234)
		for _, k := range order {
			if rp>>k&1 == 0 {
				continue
			}
			switch k {
			case 0:
				a.SetRangeIPv4Min(net.IPv4(9, 9, 9, 9))
			case 1:
				a.SetRangeIPv4Max(net.IPv4(9, 9, 9, 10))
			case 2:
				a.SetRangeIPv6Min(net.ParseIP("2001:db8::1"))
			case 3:
				a.SetRangeIPv6Max(net.ParseIP("2001:db8::2"))
			case 4:
				a.SetRangeProtoMin(&dummy)
			case 5:
				a.SetRangeProtoMax(&dummy)
			}
		}
	}
	for _, k := range order {
		if rp>>k&1 == 0 {
			continue
		}
		switch k {
		case 0:
			a.SetRangeIPv4Min(ip4(r.Bytes("ipv4_min"), r))
		case 1:
			a.SetRangeIPv4Max(ip4(r.Bytes("ipv4_max"), r))
		case 2:
			a.SetRangeIPv6Min(ip6(r.Bytes("ipv6_min")))
		case 3:
			a.SetRangeIPv6Max(ip6(r.Bytes("ipv6_max")))
		case 4:
			v := r.U16("proto_min")
			a.SetRangeProtoMin(&v)
		case 5:
			v := r.U16("proto_max")
			a.SetRangeProtoMax(&v)
		}
	}
}
