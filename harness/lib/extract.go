package lib

import (
	"encoding/binary"
	"fmt"
	"net"
	"reflect"

	"github.com/contiv/libOpenflow/common"
	of "github.com/contiv/libOpenflow/openflow13"
	"github.com/contiv/libOpenflow/protocol"
	"github.com/contiv/libOpenflow/util"

	"vh/rec"
	"vh/spec"
)

// payloadBytes reads the stored value of a match-field payload object (InPortField, EthDstField, Uint32Message,
// ByteArrayField, CTLabel, ...) directly from its single field, without using the library's encoders.
func payloadBytes(m util.Message, width int) ([]byte, error) {
	if m == nil {
		return nil, fmt.Errorf("nil payload")
	}
	if b, ok := m.(*util.Buffer); ok {
		return append([]byte(nil), b.Bytes()...), nil
	}
	v := reflect.ValueOf(m)
	if v.Kind() != reflect.Ptr || v.IsNil() || v.Elem().Kind() != reflect.Struct || v.Elem().NumField() < 1 {
		return nil, fmt.Errorf("unexpected payload type %T", m)
	}
	name := v.Elem().Type().Field(0).Name
	f, ok := Priv(m, name)
	if !ok {
		return nil, fmt.Errorf("cannot read %T.%s", m, name)
	}
	switch f.Kind() {
	case reflect.Uint8:
		return []byte{byte(f.Uint())}, nil
	case reflect.Uint16:
		return binary.BigEndian.AppendUint16(nil, uint16(f.Uint())), nil
	case reflect.Uint32:
		return binary.BigEndian.AppendUint32(nil, uint32(f.Uint())), nil
	case reflect.Uint64:
		return binary.BigEndian.AppendUint64(nil, f.Uint()), nil
	case reflect.Slice:
		b := append([]byte(nil), f.Bytes()...)
		if f.Type() == reflect.TypeOf(net.IP{}) && width == 4 && len(b) == 16 {
			if v4 := net.IP(b).To4(); v4 != nil {
				b = append([]byte(nil), v4...)
			}
		}
		return b, nil
	case reflect.Array:
		b := make([]byte, f.Len())
		for i := range b {
			b[i] = byte(f.Index(i).Uint())
		}
		return b, nil
	}
	return nil, fmt.Errorf("unexpected payload field kind %s in %T", f.Kind(), m)
}

func ExtractMatchField(f *of.MatchField) (*rec.Rec, error) {
	r := rec.New("mf").Set("class", uint64(f.Class)).Set("field", uint64(f.Field)).SetBool("hasmask", f.HasMask)
	width := 0
	if ref := spec.OXMByCode(f.Class, f.Field); ref != nil {
		width = ref.Width
	}
	v, err := payloadBytes(f.Value, width)
	if err != nil {
		return nil, fmt.Errorf("match field class %#x field %d value: %v", f.Class, f.Field, err)
	}
	r.SetB("value", v)
	if f.HasMask {
		m, err := payloadBytes(f.Mask, width)
		if err != nil {
			return nil, fmt.Errorf("match field class %#x field %d mask: %v", f.Class, f.Field, err)
		}
		r.SetB("mask", m)
	}
	r.Set("_length", uint64(f.Length))
	if f.ExperimenterID != 0 {
		r.Set("experimenter", uint64(f.ExperimenterID))
	}
	if !f.HasMask && !isNilMsg(f.Mask) { // a mask on a field that says it has none
		if m, err := payloadBytes(f.Mask, width); err == nil {
			r.SetB("mask", m)
		}
	}
	return r, nil
}

func isNilMsg(m util.Message) bool {
	if m == nil {
		return true
	}
	v := reflect.ValueOf(m)
	return v.Kind() == reflect.Ptr && v.IsNil()
}

func ExtractMatch(m *of.Match) (*rec.Rec, error) {
	r := rec.New("match").SetL("fields", nil)
	for i := range m.Fields {
		f, err := ExtractMatchField(&m.Fields[i])
		if err != nil {
			return nil, err
		}
		r.Add("fields", f)
	}
	r.Set("_type", uint64(m.Type)).Set("_length", uint64(m.Length))
	return r, nil
}

func ExtractActions(as []of.Action) ([]*rec.Rec, error) {
	out := []*rec.Rec{}
	for _, a := range as {
		r, err := ExtractAction(a)
		if err != nil {
			return nil, err
		}
		out = append(out, r)
	}
	return out, nil
}

func headerWord(f *of.MatchField) uint64 {
	if f == nil {
		return 0
	}
	return uint64(spec.HeaderWord(f.Class, f.Field, f.HasMask, f.Length))
}

func ExtractAction(a of.Action) (*rec.Rec, error) {
	if a == nil || (reflect.ValueOf(a).Kind() == reflect.Ptr && reflect.ValueOf(a).IsNil()) {
		return nil, fmt.Errorf("nil action")
	}
	hdr := a.Header()
	var r *rec.Rec
	switch x := a.(type) {
	case *of.ActionOutput:
		r = rec.New("output").Set("port", uint64(x.Port)).Set("max_len", uint64(x.MaxLen))
	case *of.ActionSetqueue:
		r = rec.New("set_queue").Set("queue_id", uint64(x.QueueId))
	case *of.ActionGroup:
		r = rec.New("group").Set("group_id", uint64(x.GroupId))
	case *of.ActionDecNwTtl:
		r = rec.New("dec_nw_ttl")
	case *of.ActionPopVlan:
		r = rec.New("pop_vlan")
	case *of.ActionPopMpls:
		r = rec.New("pop_mpls").Set("ethertype", uint64(x.EtherType))
	case *of.ActionPush:
		k := map[uint16]string{17: "push_vlan", 19: "push_mpls", 26: "push_pbb"}[x.Type]
		if k == "" {
			return nil, fmt.Errorf("ActionPush with type %d", x.Type)
		}
		r = rec.New(k).Set("ethertype", uint64(x.EtherType))
	case *of.ActionMplsTtl:
		r = rec.New("set_mpls_ttl").Set("ttl", uint64(x.MplsTtl))
	case *of.ActionNwTtl:
		r = rec.New("set_nw_ttl").Set("ttl", uint64(x.NwTtl))
	case *of.ActionEmpty:
		k := map[uint16]string{11: "copy_ttl_out", 12: "copy_ttl_in", 16: "dec_mpls_ttl", 27: "pop_pbb"}[x.Type]
		if k == "" {
			return nil, fmt.Errorf("ActionEmpty with type %d", x.Type)
		}
		r = rec.New(k)
	case *of.ActionHeader:
		return nil, fmt.Errorf("bare ActionHeader (type %d) in an action list", x.Type)
	case *of.ActionSetField:
		f, err := ExtractMatchField(&x.Field)
		if err != nil {
			return nil, err
		}
		r = rec.New("set_field").SetS("field", f)
	case *of.NXActionConjunction:
		r = rec.New("nx_conjunction").Set("clause", uint64(x.Clause)).Set("n_clauses", uint64(x.NClause)).Set("id", uint64(x.ID))
	case *of.NXActionConnTrack:
		r = rec.New("nx_ct").Set("flags", uint64(x.Flags)).Set("zone_src", uint64(x.ZoneSrc)).Set("zone_ofs_nbits", uint64(x.ZoneOfsNbits)).
			Set("recirc_table", uint64(x.RecircTable)).Set("alg", uint64(x.Alg))
		pv, ok := Priv(x, "actions")
		if !ok {
			return nil, fmt.Errorf("cannot read conntrack actions")
		}
		nested, _ := pv.Interface().([]of.Action)
		as, err := ExtractActions(nested)
		if err != nil {
			return nil, err
		}
		r.SetL("actions", as)
	case *of.NXActionRegLoad:
		r = rec.New("nx_reg_load").Set("ofs_nbits", uint64(x.OfsNbits)).Set("dst", headerWord(x.DstReg)).Set("value", x.Value)
	case *of.NXActionRegMove:
		r = rec.New("nx_reg_move").Set("n_bits", uint64(x.Nbits)).Set("src_ofs", uint64(x.SrcOfs)).Set("dst_ofs", uint64(x.DstOfs)).
			Set("src", headerWord(x.SrcField)).Set("dst", headerWord(x.DstField))
	case *of.NXActionResubmit:
		r = rec.New("nx_resubmit").Set("in_port", uint64(x.InPort))
	case *of.NXActionResubmitTable:
		k := "nx_resubmit_table"
		if x.IsCT() {
			k = "nx_ct_resubmit"
		}
		r = rec.New(k).Set("in_port", uint64(x.InPort)).Set("table", uint64(x.TableID))
	case *of.NXActionOutputReg:
		r = rec.New("nx_output_reg").Set("ofs_nbits", uint64(x.OfsNbits)).Set("src", headerWord(x.SrcField)).Set("max_len", uint64(x.MaxLen))
	case *of.NXActionCTClear:
		r = rec.New("nx_ct_clear")
	case *of.NXActionDecTTL:
		r = rec.New("nx_dec_ttl")
	case *of.NXActionDecTTLCntIDs:
		r = rec.New("nx_dec_ttl_cnt_ids").Set("n_controllers", GetUintField(x, "controllers"))
		pv, ok := Priv(x, "cntIDs")
		if !ok {
			return nil, fmt.Errorf("cannot read cntIDs")
		}
		ids, _ := pv.Interface().([]uint16)
		var b []byte
		for _, id := range ids {
			b = binary.BigEndian.AppendUint16(b, id)
		}
		r.SetB("ids", b)
	case *of.NXActionLearn:
		r = rec.New("nx_learn").Set("idle_timeout", uint64(x.IdleTimeout)).Set("hard_timeout", uint64(x.HardTimeout)).Set("priority", uint64(x.Priority)).
			Set("cookie", x.Cookie).Set("flags", uint64(x.Flags)).Set("table_id", uint64(x.TableID)).Set("fin_idle_timeout", uint64(x.FinIdleTimeout)).Set("fin_hard_timeout", uint64(x.FinHardTimeout))
		r.SetL("specs", nil)
		for _, s := range x.LearnSpecs {
			ls := rec.New("learn_spec")
			if s == nil || s.Header == nil {
				return nil, fmt.Errorf("learn spec without header")
			}
			src, _ := PrivUint(s.Header, "src")
			dst, _ := PrivUint(s.Header, "dst")
			out, _ := PrivUint(s.Header, "output")
			n, _ := PrivUint(s.Header, "nBits")
			kind := ""
			switch {
			case out != 0:
				kind = "output_field"
			case src != 0 && dst != 0:
				kind = "load_value"
			case src != 0:
				kind = "match_value"
			case dst != 0:
				kind = "load_field"
			default:
				kind = "match_field"
			}
			ls.SetT("kind", kind).Set("n_bits", n)
			if src != 0 && out == 0 {
				v := s.SrcValue
				if need := 2 * ((int(n) + 15) / 16); len(v) > need { // only the first 2*ceil(n_bits/16) bytes of the buffer are the immediate
					v = v[:need]
				}
				ls.SetB("value", v)
			} else if s.SrcField != nil {
				ls.Set("src", headerWord(s.SrcField.Field)).Set("src_ofs", uint64(s.SrcField.Ofs))
			} else {
				return nil, fmt.Errorf("learn spec %s without source field", kind)
			}
			if out == 0 {
				if s.DstField == nil {
					return nil, fmt.Errorf("learn spec %s without destination field", kind)
				}
				ls.Set("dst", headerWord(s.DstField.Field)).Set("dst_ofs", uint64(s.DstField.Ofs))
			}
			r.Add("specs", ls)
		}
	case *of.NXActionNote:
		r = rec.New("nx_note").SetB("note", x.Note)
	case *of.NXActionRegLoad2:
		if x.DstField == nil {
			return nil, fmt.Errorf("reg_load2 without field")
		}
		f, err := ExtractMatchField(x.DstField)
		if err != nil {
			return nil, err
		}
		r = rec.New("nx_reg_load2").SetS("field", f)
	case *of.NXActionController:
		r = rec.New("nx_controller").Set("max_len", uint64(x.MaxLen)).Set("controller_id", uint64(x.ControllerID)).Set("reason", uint64(x.Reason))
	case *of.NXActionCTNAT:
		rp := uint16(GetUintField(x, "rangePresent"))
		r = rec.New("nx_nat").Set("flags", uint64(x.Flags)).Set("range_present", uint64(rp))
		ipf := func(name, key string, w int) {
			if pv, ok := Priv(x, name); ok {
				if ip, _ := pv.Interface().(net.IP); ip != nil {
					b := []byte(ip)
					if w == 4 && len(b) == 16 && ip.To4() != nil {
						b = ip.To4()
					}
					r.SetB(key, b)
				}
			}
		}
		ipf("rangeIPv4Min", "ipv4_min", 4)
		ipf("rangeIPv4Max", "ipv4_max", 4)
		ipf("rangeIPv6Min", "ipv6_min", 16)
		ipf("rangeIPv6Max", "ipv6_max", 16)
		for _, p := range [][2]string{{"rangeProtoMin", "proto_min"}, {"rangeProtoMax", "proto_max"}} {
			if pv, ok := Priv(x, p[0]); ok {
				if ptr, _ := pv.Interface().(*uint16); ptr != nil {
					r.Set(p[1], uint64(*ptr))
				}
			}
		}
	default:
		return nil, fmt.Errorf("extract: unexpected action type %T", a)
	}
	if hdr != nil {
		r.Set("_type", uint64(hdr.Type)).Set("_length", uint64(hdr.Length))
	}
	return r, nil
}

func ExtractInstruction(in of.Instruction) (*rec.Rec, error) {
	if in == nil || (reflect.ValueOf(in).Kind() == reflect.Ptr && reflect.ValueOf(in).IsNil()) {
		return nil, fmt.Errorf("nil instruction")
	}
	switch x := in.(type) {
	case *of.InstrGotoTable:
		return rec.New("goto_table").Set("table_id", uint64(x.TableId)).Set("_type", uint64(x.Type)).Set("_length", uint64(x.Length)), nil
	case *of.InstrWriteMetadata:
		return rec.New("write_metadata").Set("metadata", x.Metadata).Set("mask", x.MetadataMask).Set("_type", uint64(x.Type)).Set("_length", uint64(x.Length)), nil
	case *of.InstrActions:
		k := map[uint16]string{3: "write_actions", 4: "apply_actions", 5: "clear_actions"}[x.Type]
		if k == "" {
			return nil, fmt.Errorf("InstrActions with type %d", x.Type)
		}
		r := rec.New(k).Set("_type", uint64(x.Type)).Set("_length", uint64(x.Length))
		as, err := ExtractActions(x.Actions)
		if err != nil {
			return nil, err
		}
		if k != "clear_actions" || len(as) > 0 {
			r.SetL("actions", as)
		}
		return r, nil
	case *of.InstrMeter:
		return rec.New("meter").Set("meter_id", uint64(x.MeterId)).Set("_type", uint64(x.Type)).Set("_length", uint64(x.Length)), nil
	}
	return nil, fmt.Errorf("extract: unexpected instruction type %T", in)
}

func ExtractInstructions(ins []of.Instruction) ([]*rec.Rec, error) {
	out := []*rec.Rec{}
	for _, in := range ins {
		r, err := ExtractInstruction(in)
		if err != nil {
			return nil, err
		}
		out = append(out, r)
	}
	return out, nil
}

func ExtractBucket(b *of.Bucket) (*rec.Rec, error) {
	r := rec.New("bucket").Set("weight", uint64(b.Weight)).Set("watch_port", uint64(b.WatchPort)).Set("watch_group", uint64(b.WatchGroup)).Set("_length", uint64(b.Length))
	as, err := ExtractActions(b.Actions)
	if err != nil {
		return nil, err
	}
	return r.SetL("actions", as), nil
}

func ExtractPort(p *of.PhyPort) *rec.Rec {
	r := rec.New("port").Set("port_no", uint64(p.PortNo)).SetB("hw_addr", p.HWAddr).SetB("name", p.Name)
	r.Set("config", uint64(p.Config)).Set("state", uint64(p.State)).Set("curr", uint64(p.Curr)).Set("advertised", uint64(p.Advertised)).
		Set("supported", uint64(p.Supported)).Set("peer", uint64(p.Peer)).Set("curr_speed", uint64(p.CurrSpeed)).Set("max_speed", uint64(p.MaxSpeed))
	return r
}

func hdrFields(r *rec.Rec, h *common.Header) *rec.Rec {
	return r.Set("xid", uint64(h.Xid)).Set("_version", uint64(h.Version)).Set("_type", uint64(h.Type)).Set("_length", uint64(h.Length))
}

// ExtractData returns the raw bytes of a payload: for typed packets through their encoder (the payload comparison
// of C04 is "re-encode(value.Data) == payload").
func encodeOf(m util.Message) ([]byte, error) {
	if m == nil || (reflect.ValueOf(m).Kind() == reflect.Ptr && reflect.ValueOf(m).IsNil()) {
		return nil, nil
	}
	return m.MarshalBinary()
}

// headerKind names the header-only kinds by type code.
var headerKind = map[uint8]string{2: "echo_request", 3: "echo_reply", 5: "features_request", 7: "get_config_request", 20: "barrier_request", 21: "barrier_reply"}

// ExtractMessage turns a library message value into a recipe-shaped tree using exported fields (and reflection for
// unexported ones).
func ExtractMessage(m util.Message) (*rec.Rec, error) {
	if m == nil || (reflect.ValueOf(m).Kind() == reflect.Ptr && reflect.ValueOf(m).IsNil()) {
		return nil, fmt.Errorf("nil message")
	}
	switch x := m.(type) {
	case *common.Header:
		k := headerKind[x.Type]
		if k == "" {
			return nil, fmt.Errorf("bare header with type %d", x.Type)
		}
		return hdrFields(rec.New(k), x), nil
	case *common.Hello:
		r := hdrFields(rec.New("hello"), &x.Header).SetL("elements", nil)
		for _, e := range x.Elements {
			vb, ok := e.(*common.HelloElemVersionBitmap)
			if !ok {
				return nil, fmt.Errorf("hello element %T", e)
			}
			var b []byte
			for _, bm := range vb.Bitmaps {
				b = binary.BigEndian.AppendUint32(b, bm)
			}
			r.Add("elements", rec.New("hello_versionbitmap").SetB("bitmaps", b).Set("_type", uint64(vb.Type)).Set("_length", uint64(vb.Length)))
		}
		return r, nil
	case *of.ErrorMsg:
		return hdrFields(rec.New("error"), &x.Header).Set("type", uint64(x.Type)).Set("code", uint64(x.Code)).SetB("data", x.Data.Bytes()), nil
	case *of.VendorError:
		if x.ErrorMsg == nil {
			return nil, fmt.Errorf("VendorError without ErrorMsg")
		}
		if x.Type != 0xffff {
			return nil, fmt.Errorf("VendorError with type %d", x.Type)
		}
		return hdrFields(rec.New("exp_error"), &x.Header).Set("exp_type", uint64(x.Code)).Set("experimenter", uint64(x.ExperimenterID)).SetB("data", x.Data.Bytes()), nil
	case *of.SwitchFeatures:
		r := hdrFields(rec.New("features_reply"), &x.Header)
		r.Set("datapath_id", binary.BigEndian.Uint64(pad(x.DPID, 8))).Set("n_buffers", uint64(x.Buffers)).Set("n_tables", uint64(x.NumTables)).
			Set("auxiliary_id", uint64(x.AuxilaryId)).Set("capabilities", uint64(x.Capabilities)).Set("reserved", uint64(x.Actions))
		for i := range x.Ports {
			r.Add("ports", ExtractPort(&x.Ports[i]))
		}
		return r, nil
	case *of.SwitchConfig:
		k := map[uint8]string{8: "get_config_reply", 9: "set_config"}[x.Header.Type]
		if k == "" {
			return nil, fmt.Errorf("SwitchConfig with type %d", x.Header.Type)
		}
		return hdrFields(rec.New(k), &x.Header).Set("flags", uint64(x.Flags)).Set("miss_send_len", uint64(x.MissSendLen)), nil
	case *of.PacketIn:
		r := hdrFields(rec.New("packet_in"), &x.Header).Set("buffer_id", uint64(x.BufferId)).Set("total_len", uint64(x.TotalLen)).
			Set("reason", uint64(x.Reason)).Set("table_id", uint64(x.TableId)).Set("cookie", x.Cookie)
		mt, err := ExtractMatch(&x.Match)
		if err != nil {
			return nil, err
		}
		r.SetS("match", mt)
		d, err := x.Data.MarshalBinary()
		if err != nil {
			return nil, fmt.Errorf("packet-in payload re-encoding: %v", err)
		}
		return r.SetB("data", d), nil
	case *of.FlowRemoved:
		r := hdrFields(rec.New("flow_removed"), &x.Header).Set("cookie", x.Cookie).Set("priority", uint64(x.Priority)).Set("reason", uint64(x.Reason)).
			Set("table_id", uint64(x.TableId)).Set("duration_sec", uint64(x.DurationSec)).Set("duration_nsec", uint64(x.DurationNSec)).
			Set("idle_timeout", uint64(x.IdleTimeout)).Set("hard_timeout", uint64(x.HardTimeout)).Set("packet_count", x.PacketCount).Set("byte_count", x.ByteCount)
		mt, err := ExtractMatch(&x.Match)
		if err != nil {
			return nil, err
		}
		return r.SetS("match", mt), nil
	case *of.PortStatus:
		return hdrFields(rec.New("port_status"), &x.Header).Set("reason", uint64(x.Reason)).SetS("port", ExtractPort(&x.Desc)), nil
	case *of.PacketOut:
		r := hdrFields(rec.New("packet_out"), &x.Header).Set("buffer_id", uint64(x.BufferId)).Set("in_port", uint64(x.InPort)).Set("_actions_len", uint64(x.ActionsLen))
		as, err := ExtractActions(x.Actions)
		if err != nil {
			return nil, err
		}
		r.SetL("actions", as)
		d, err := encodeOf(x.Data)
		if err != nil {
			return nil, err
		}
		return r.SetB("data", d), nil
	case *of.FlowMod:
		r := hdrFields(rec.New("flow_mod"), &x.Header).Set("cookie", x.Cookie).Set("cookie_mask", x.CookieMask).Set("table_id", uint64(x.TableId)).
			Set("command", uint64(x.Command)).Set("idle_timeout", uint64(x.IdleTimeout)).Set("hard_timeout", uint64(x.HardTimeout)).Set("priority", uint64(x.Priority)).
			Set("buffer_id", uint64(x.BufferId)).Set("out_port", uint64(x.OutPort)).Set("out_group", uint64(x.OutGroup)).Set("flags", uint64(x.Flags))
		mt, err := ExtractMatch(&x.Match)
		if err != nil {
			return nil, err
		}
		r.SetS("match", mt)
		ins, err := ExtractInstructions(x.Instructions)
		if err != nil {
			return nil, err
		}
		return r.SetL("instructions", ins), nil
	case *of.GroupMod:
		r := hdrFields(rec.New("group_mod"), &x.Header).Set("command", uint64(x.Command)).Set("type", uint64(x.Type)).Set("group_id", uint64(x.GroupId)).SetL("buckets", nil)
		for i := range x.Buckets {
			b, err := ExtractBucket(&x.Buckets[i])
			if err != nil {
				return nil, err
			}
			r.Add("buckets", b)
		}
		return r, nil
	case *of.PortMod:
		return hdrFields(rec.New("port_mod"), &x.Header).Set("port_no", uint64(x.PortNo)).SetB("hw_addr", x.HWAddr).Set("config", uint64(x.Config)).
			Set("mask", uint64(x.Mask)).Set("advertise", uint64(x.Advertise)), nil
	case *of.MultipartRequest:
		r := hdrFields(rec.New("mp_request"), &x.Header).Set("type", uint64(x.Type)).Set("flags", uint64(x.Flags))
		if x.Body != nil {
			b, err := ExtractMPBody(x.Body)
			if err != nil {
				return nil, err
			}
			if b != nil {
				r.SetS("body", b)
			}
		}
		return r, nil
	case *of.MultipartReply:
		r := hdrFields(rec.New("mp_reply"), &x.Header).Set("type", uint64(x.Type)).Set("flags", uint64(x.Flags)).SetL("body", nil)
		for _, b := range x.Body {
			br, err := ExtractMPBody(b)
			if err != nil {
				return nil, err
			}
			r.Add("body", br)
		}
		return r, nil
	case *of.VendorHeader:
		return extractVendor(x)
	}
	return nil, fmt.Errorf("extract: unexpected message type %T", m)
}

func extractVendor(x *of.VendorHeader) (*rec.Rec, error) {
	nilData := x.VendorData == nil || (reflect.ValueOf(x.VendorData).Kind() == reflect.Ptr && reflect.ValueOf(x.VendorData).IsNil())
	var r *rec.Rec
	switch {
	case x.Vendor == spec.NXVendor && x.ExperimenterType == 20:
		d, ok := x.VendorData.(*of.ControllerID)
		if !ok || nilData {
			return nil, fmt.Errorf("set-controller-id payload %T", x.VendorData)
		}
		r = rec.New("nx_set_controller_id").Set("id", uint64(d.ID))
	case x.Vendor == spec.NXVendor && x.ExperimenterType == 24:
		d, ok := x.VendorData.(*of.TLVTableMod)
		if !ok || nilData {
			return nil, fmt.Errorf("tlv-table-mod payload %T", x.VendorData)
		}
		r = rec.New("nx_tlv_table_mod").Set("command", uint64(d.Command)).SetL("maps", extractMaps(d.TlvMaps))
	case x.Vendor == spec.NXVendor && x.ExperimenterType == 25:
		if !nilData {
			return nil, fmt.Errorf("tlv-table-request with payload %T", x.VendorData)
		}
		r = rec.New("nx_tlv_table_request")
	case x.Vendor == spec.NXVendor && x.ExperimenterType == 26:
		d, ok := x.VendorData.(*of.TLVTableReply)
		if !ok || nilData {
			return nil, fmt.Errorf("tlv-table-reply payload %T", x.VendorData)
		}
		r = rec.New("nx_tlv_table_reply").Set("max_space", uint64(d.MaxSpace)).Set("max_fields", uint64(d.MaxFields)).SetL("maps", extractMaps(d.TlvMaps))
	case x.Vendor == spec.ONFVendor && x.ExperimenterType == 2300:
		d, ok := x.VendorData.(*of.BundleControl)
		if !ok || nilData {
			return nil, fmt.Errorf("bundle-control payload %T", x.VendorData)
		}
		r = rec.New("bundle_control").Set("bundle_id", uint64(d.BundleID)).Set("type", uint64(d.Type)).Set("flags", uint64(d.Flags))
	case x.Vendor == spec.ONFVendor && x.ExperimenterType == 2301:
		d, ok := x.VendorData.(*of.BundleAdd)
		if !ok || nilData {
			return nil, fmt.Errorf("bundle-add payload %T", x.VendorData)
		}
		inner, err := ExtractMessage(d.Message)
		if err != nil {
			return nil, fmt.Errorf("bundle-add embedded message: %v", err)
		}
		r = rec.New("bundle_add").Set("bundle_id", uint64(d.BundleID)).Set("flags", uint64(d.Flags)).SetS("message", inner)
		for i := range d.Properties {
			p := &d.Properties[i]
			data, _ := PrivBytes(p, "data")
			body := binary.BigEndian.AppendUint32(nil, p.ExperimenterID)
			body = binary.BigEndian.AppendUint32(body, p.ExperimenterType)
			body = append(body, data...)
			r.Add("properties", rec.New("bundle_property").Set("type", uint64(p.Type)).SetB("body", body))
		}
	default:
		return nil, fmt.Errorf("vendor message %#x/%d", x.Vendor, x.ExperimenterType)
	}
	return hdrFields(r, &x.Header), nil
}

func extractMaps(ms []*of.TLVTableMap) []*rec.Rec {
	out := []*rec.Rec{}
	for _, t := range ms {
		if t == nil {
			continue
		}
		out = append(out, rec.New("tlv_map").Set("opt_class", uint64(t.OptClass)).Set("opt_type", uint64(t.OptType)).Set("opt_len", uint64(t.OptLength)).Set("index", uint64(t.Index)))
	}
	return out
}

// ExtractMPBody handles multipart request bodies and reply records.
func ExtractMPBody(b util.Message) (*rec.Rec, error) {
	if b == nil || (reflect.ValueOf(b).Kind() == reflect.Ptr && reflect.ValueOf(b).IsNil()) {
		return nil, fmt.Errorf("nil multipart body")
	}
	switch x := b.(type) {
	case *util.Buffer:
		if x.Len() == 0 {
			return nil, nil
		}
		return rec.New("raw").SetB("data", x.Bytes()), nil
	case *of.FlowStatsRequest:
		mt, err := ExtractMatch(&x.Match)
		if err != nil {
			return nil, err
		}
		return rec.New("flow_stats_request").Set("table_id", uint64(x.TableId)).Set("out_port", uint64(x.OutPort)).Set("out_group", uint64(x.OutGroup)).
			Set("cookie", x.Cookie).Set("cookie_mask", x.CookieMask).SetS("match", mt), nil
	case *of.AggregateStatsRequest:
		mt, err := ExtractMatch(&x.Match)
		if err != nil {
			return nil, err
		}
		return rec.New("aggregate_stats_request").Set("table_id", uint64(x.TableId)).Set("out_port", uint64(x.OutPort)).Set("out_group", uint64(x.OutGroup)).
			Set("cookie", x.Cookie).Set("cookie_mask", x.CookieMask).SetS("match", mt), nil
	case *of.PortStatsRequest:
		return rec.New("port_stats_request").Set("port_no", GetUintField(x, "PortNo")), nil
	case *of.QueueStatsRequest:
		return rec.New("queue_stats_request").Set("port_no", GetUintField(x, "PortNo")).Set("queue_id", uint64(x.QueueId)), nil
	case *of.DescStats:
		return rec.New("desc_stats").SetB("mfr_desc", x.MfrDesc).SetB("hw_desc", x.HWDesc).SetB("sw_desc", x.SWDesc).SetB("serial_num", x.SerialNum).SetB("dp_desc", x.DPDesc), nil
	case *of.FlowStats:
		r := rec.New("flow_stats").Set("table_id", uint64(x.TableId)).Set("duration_sec", uint64(x.DurationSec)).Set("duration_nsec", uint64(x.DurationNSec)).
			Set("priority", uint64(x.Priority)).Set("idle_timeout", uint64(x.IdleTimeout)).Set("hard_timeout", uint64(x.HardTimeout)).Set("flags", uint64(x.Flags)).
			Set("cookie", x.Cookie).Set("packet_count", x.PacketCount).Set("byte_count", x.ByteCount).Set("_length", uint64(x.Length))
		mt, err := ExtractMatch(&x.Match)
		if err != nil {
			return nil, err
		}
		r.SetS("match", mt)
		ins, err := ExtractInstructions(x.Instructions)
		if err != nil {
			return nil, err
		}
		return r.SetL("instructions", ins), nil
	case *of.AggregateStats:
		return rec.New("aggregate_stats").Set("packet_count", x.PacketCount).Set("byte_count", x.ByteCount).Set("flow_count", uint64(x.FlowCount)), nil
	case *of.TableStats:
		return rec.New("table_stats").Set("table_id", uint64(x.TableId)).Set("active_count", uint64(x.ActiveCount)).Set("lookup_count", x.LookupCount).Set("matched_count", x.MatchedCount), nil
	case *of.PortStats:
		r := rec.New("port_stats").Set("port_no", GetUintField(x, "PortNo"))
		names := []string{"RxPackets", "TxPackets", "RxBytes", "TxBytes", "RxDropped", "TxDropped", "RxErrors", "TxErrors", "RxFrameErr", "RxOverErr", "RxCRCErr", "Collisions"}
		for i, n := range names {
			r.Set(spec.PortStatsCounters[i], GetUintField(x, n))
		}
		r.Set("duration_sec", GetUintField(x, "DurationSec")).Set("duration_nsec", GetUintField(x, "DurationNSec"))
		return r, nil
	case *of.QueueStats:
		return rec.New("queue_stats").Set("port_no", GetUintField(x, "PortNo")).Set("queue_id", uint64(x.QueueId)).Set("tx_bytes", x.TxBytes).
			Set("tx_packets", x.TxPackets).Set("tx_errors", x.TxErrors).Set("duration_sec", GetUintField(x, "DurationSec")).Set("duration_nsec", GetUintField(x, "DurationNSec")), nil
	case *of.PhyPort:
		return ExtractPort(x), nil
	}
	return nil, fmt.Errorf("extract: unexpected multipart body type %T", b)
}

var _ = protocol.IPv4_MSG
