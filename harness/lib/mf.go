// Package lib turns recipes into library values strictly through the library's exported constructors, adder/setter
// methods and exported fields, and turns library values back into recipe-shaped trees (extractors).
package lib

import (
	"encoding/binary"
	"fmt"
	"math/big"
	"net"

	of "github.com/contiv/libOpenflow/openflow13"

	"vh/prng"
	"vh/rec"
	"vh/spec"
)

// MFCtor describes one way the API offers to construct a match field.
type MFCtor struct {
	Name     string
	Class    uint16
	Field    uint8
	Width    int  // payload width the specification assigns (0 = variable)
	Maskable bool // the constructor accepts a mask
	Decodes  bool // the library has a decoder case for (class, field): the kind is two-way
	Build    func(v, m []byte, r *rec.Rec) (*of.MatchField, error)
}

func u16(b []byte) uint16 { return binary.BigEndian.Uint16(pad(b, 2)) }
func u32(b []byte) uint32 { return binary.BigEndian.Uint32(pad(b, 4)) }
func u64(b []byte) uint64 { return binary.BigEndian.Uint64(pad(b, 8)) }
func pad(b []byte, n int) []byte {
	if len(b) >= n {
		return b[len(b)-n:]
	}
	o := make([]byte, n)
	copy(o[n-len(b):], b)
	return o
}

func ip4(b []byte, r *rec.Rec) net.IP {
	b = pad(b, 4)
	if r != nil && r.Bool("_ip16") {
		return net.IPv4(b[0], b[1], b[2], b[3]) // 16-byte representation of an IPv4 address
	}
	return net.IP(Own(b))
}
func ip6(b []byte) net.IP             { return net.IP(Own(pad(b, 16))) }
func mac(b []byte) net.HardwareAddr   { return net.HardwareAddr(Own(pad(b, 6))) }
func macp(b []byte) *net.HardwareAddr { m := mac(b); return &m }

var MFCtors []*MFCtor
var mfByName = map[string]*MFCtor{}

func addCtor(c *MFCtor) {
	ref := spec.OXMByCode(c.Class, c.Field)
	if ref == nil {
		panic(fmt.Sprintf("ctor %s: no reference entry", c.Name))
	}
	c.Width = ref.Width
	MFCtors = append(MFCtors, c)
	mfByName[c.Name] = c
}

func MFCtorByName(n string) *MFCtor { return mfByName[n] }

const (
	basic = spec.ClassBasic
	nxm1  = spec.ClassNXM1
	nxm0  = spec.ClassNXM0
)

func init() {
	type mf = *of.MatchField
	simple := func(name string, class uint16, field uint8, dec bool, f func(v []byte, r *rec.Rec) mf) {
		addCtor(&MFCtor{Name: name, Class: class, Field: field, Decodes: dec, Build: func(v, m []byte, r *rec.Rec) (*of.MatchField, error) { return f(v, r), nil }})
	}
	masked := func(name string, class uint16, field uint8, dec bool, f func(v, m []byte, r *rec.Rec) mf) {
		addCtor(&MFCtor{Name: name, Class: class, Field: field, Maskable: true, Decodes: dec, Build: func(v, m []byte, r *rec.Rec) (*of.MatchField, error) { return f(v, m, r), nil }})
	}
	simple("NewInPortField", basic, 0, true, func(v []byte, _ *rec.Rec) mf { return of.NewInPortField(u32(v)) })
	masked("NewEthDstField", basic, 3, true, func(v, m []byte, _ *rec.Rec) mf {
		if m == nil {
			return of.NewEthDstField(mac(v), nil)
		}
		return of.NewEthDstField(mac(v), macp(m))
	})
	masked("NewEthSrcField", basic, 4, true, func(v, m []byte, _ *rec.Rec) mf {
		if m == nil {
			return of.NewEthSrcField(mac(v), nil)
		}
		return of.NewEthSrcField(mac(v), macp(m))
	})
	simple("NewEthTypeField", basic, 5, true, func(v []byte, _ *rec.Rec) mf { return of.NewEthTypeField(u16(v)) })
	masked("NewVlanIdField", basic, 6, true, func(v, m []byte, _ *rec.Rec) mf {
		// the constructor adds OFPVID_PRESENT itself: pass the id without it
		id := u16(v) &^ 0x1000
		if m == nil {
			return of.NewVlanIdField(id, nil)
		}
		mm := u16(m)
		return of.NewVlanIdField(id, &mm)
	})
	simple("NewMplsLabelField", basic, 34, true, func(v []byte, _ *rec.Rec) mf { return of.NewMplsLabelField(u32(v)) })
	simple("NewMplsBosField", basic, 36, true, func(v []byte, _ *rec.Rec) mf { return of.NewMplsBosField(v[0]) })
	ipm := func(f func(net.IP, *net.IP) mf, six bool) func(v, m []byte, r *rec.Rec) mf {
		return func(v, m []byte, r *rec.Rec) mf {
			conv := func(b []byte) net.IP {
				if six {
					return ip6(b)
				}
				return ip4(b, r)
			}
			if m == nil {
				return f(conv(v), nil)
			}
			mm := conv(m)
			return f(conv(v), &mm)
		}
	}
	masked("NewIpv4SrcField", basic, 11, true, ipm(of.NewIpv4SrcField, false))
	masked("NewIpv4DstField", basic, 12, true, ipm(of.NewIpv4DstField, false))
	masked("NewIpv6SrcField", basic, 26, true, ipm(of.NewIpv6SrcField, true))
	masked("NewIpv6DstField", basic, 27, true, ipm(of.NewIpv6DstField, true))
	masked("NewIPV6FlowLabelField", basic, 28, true, func(v, m []byte, _ *rec.Rec) mf {
		if m == nil {
			return of.NewIPV6FlowLabelField(u32(v), nil)
		}
		mm := u32(m)
		return of.NewIPV6FlowLabelField(u32(v), &mm)
	})
	simple("NewIpProtoField", basic, 10, true, func(v []byte, _ *rec.Rec) mf { return of.NewIpProtoField(v[0]) })
	simple("NewIpDscpField", basic, 8, true, func(v []byte, _ *rec.Rec) mf { return of.NewIpDscpField(v[0]) })
	simple("NewTunnelIdField", basic, 38, true, func(v []byte, _ *rec.Rec) mf { return of.NewTunnelIdField(u64(v)) })
	masked("NewMetadataField", basic, 2, true, func(v, m []byte, _ *rec.Rec) mf {
		if m == nil {
			return of.NewMetadataField(u64(v), nil)
		}
		mm := u64(m)
		return of.NewMetadataField(u64(v), &mm)
	})
	simple("NewTcpSrcField", basic, 13, true, func(v []byte, _ *rec.Rec) mf { return of.NewTcpSrcField(u16(v)) })
	simple("NewTcpDstField", basic, 14, true, func(v []byte, _ *rec.Rec) mf { return of.NewTcpDstField(u16(v)) })
	simple("NewUdpSrcField", basic, 15, true, func(v []byte, _ *rec.Rec) mf { return of.NewUdpSrcField(u16(v)) })
	simple("NewUdpDstField", basic, 16, true, func(v []byte, _ *rec.Rec) mf { return of.NewUdpDstField(u16(v)) })
	simple("NewSctpSrcField", basic, 17, true, func(v []byte, _ *rec.Rec) mf { return of.NewSctpSrcField(u16(v)) })
	simple("NewSctpDstField", basic, 18, true, func(v []byte, _ *rec.Rec) mf { return of.NewSctpDstField(u16(v)) })
	masked("NewTcpFlagsField", basic, 42, true, func(v, m []byte, _ *rec.Rec) mf {
		if m == nil {
			return of.NewTcpFlagsField(u16(v), nil)
		}
		mm := u16(m)
		return of.NewTcpFlagsField(u16(v), &mm)
	})
	simple("NewArpOperField", basic, 21, true, func(v []byte, _ *rec.Rec) mf { return of.NewArpOperField(u16(v)) })
	masked("NewTunnelIpv4SrcField", nxm1, 31, true, ipm(of.NewTunnelIpv4SrcField, false))
	masked("NewTunnelIpv4DstField", nxm1, 32, true, ipm(of.NewTunnelIpv4DstField, false))
	simple("NewArpThaField", basic, 25, true, func(v []byte, _ *rec.Rec) mf { return of.NewArpThaField(mac(v)) })
	simple("NewArpShaField", basic, 24, true, func(v []byte, _ *rec.Rec) mf { return of.NewArpShaField(mac(v)) })
	simple("NewArpTpaField", basic, 23, true, func(v []byte, r *rec.Rec) mf { return of.NewArpTpaField(ip4(v, r)) })
	simple("NewArpSpaField", basic, 22, true, func(v []byte, r *rec.Rec) mf { return of.NewArpSpaField(ip4(v, r)) })
	simple("NewActsetOutputField", basic, 43, false, func(v []byte, _ *rec.Rec) mf { return of.NewActsetOutputField(u32(v)) })
	simple("NewIcmpCodeField", basic, 20, true, func(v []byte, _ *rec.Rec) mf { return of.NewIcmpCodeField(v[0]) })
	simple("NewIcmpTypeField", basic, 19, true, func(v []byte, _ *rec.Rec) mf { return of.NewIcmpTypeField(v[0]) })
	// Nicira
	for i := 0; i < 16; i++ {
		idx := i
		addCtor(&MFCtor{Name: fmt.Sprintf("NewRegMatchField%d", idx), Class: nxm1, Field: uint8(idx), Maskable: true, Decodes: true,
			Build: func(v, m []byte, r *rec.Rec) (*of.MatchField, error) {
				if m == nil {
					return of.NewRegMatchField(idx, u32(v), nil), nil
				}
				// the mask comes from a bit range: hints _first/_last give the range that produces m
				return of.NewRegMatchField(idx, u32(v), of.NewNXRange(int(r.U("_first")), int(r.U("_last")))), nil
			}})
	}
	for i := 0; i < 8; i++ {
		idx := i
		addCtor(&MFCtor{Name: fmt.Sprintf("NewTunMetadataField%d", idx), Class: nxm1, Field: uint8(40 + idx), Maskable: true, Decodes: true,
			Build: func(v, m []byte, r *rec.Rec) (*of.MatchField, error) {
				return of.NewTunMetadataField(idx, Own(v), Own(m)), nil
			}})
	}
	addCtor(&MFCtor{Name: "NewCTStateMatchField", Class: nxm1, Field: 105, Maskable: true, Decodes: true,
		Build: func(v, m []byte, r *rec.Rec) (*of.MatchField, error) {
			if m == nil {
				return nil, fmt.Errorf("ct_state is always masked")
			}
			st := of.NewCTStates()
			val, mask := u32(v), u32(m)
			sets := []func(){st.SetNew, st.SetEst, st.SetRel, st.SetRpl, st.SetInv, st.SetTrk, st.SetSNAT, st.SetDNAT}
			unsets := []func(){st.UnsetNew, st.UnsetEst, st.UnsetRel, st.UnsetRpl, st.UnsetInv, st.UnsetTrk, st.UnsetSNAT, st.UnsetDNAT}
			// a call history determined by (value, mask): flags in a permuted order, some preceded by the opposite call
			// (the builder's contract is "last call per flag")
			pr := prng.Derive(uint64(val)<<32|uint64(mask), 105)
			for _, i := range pr.Perm(8) {
				if mask>>uint(i)&1 == 1 {
					want := val>>uint(i)&1 == 1
					if pr.Chance(1, 3) {
						if want {
							unsets[i]()
						} else {
							sets[i]()
						}
					}
					if want {
						sets[i]()
					} else {
						unsets[i]()
					}
				}
			}
			return of.NewCTStateMatchField(st), nil
		}})
	simple("NewCTZoneMatchField", nxm1, 106, true, func(v []byte, _ *rec.Rec) mf { return of.NewCTZoneMatchField(u16(v)) })
	masked("NewCTMarkMatchField", nxm1, 107, true, func(v, m []byte, _ *rec.Rec) mf {
		if m == nil {
			return of.NewCTMarkMatchField(u32(v), nil)
		}
		mm := u32(m)
		return of.NewCTMarkMatchField(u32(v), &mm)
	})
	masked("NewCTLabelMatchField", nxm1, 108, true, func(v, m []byte, _ *rec.Rec) mf {
		var l [16]byte
		copy(l[:], pad(v, 16))
		if m == nil {
			return of.NewCTLabelMatchField(l, nil)
		}
		var mm [16]byte
		copy(mm[:], pad(m, 16))
		return of.NewCTLabelMatchField(l, &mm)
	})
	simple("NewConjIDMatchField", nxm1, 37, true, func(v []byte, _ *rec.Rec) mf { return of.NewConjIDMatchField(u32(v)) })
	masked("NewNxARPShaMatchField", nxm1, 17, true, func(v, m []byte, _ *rec.Rec) mf {
		if m == nil {
			return of.NewNxARPShaMatchField(mac(v), nil)
		}
		return of.NewNxARPShaMatchField(mac(v), mac(m))
	})
	masked("NewNxARPThaMatchField", nxm1, 18, true, func(v, m []byte, _ *rec.Rec) mf {
		if m == nil {
			return of.NewNxARPThaMatchField(mac(v), nil)
		}
		return of.NewNxARPThaMatchField(mac(v), mac(m))
	})
	masked("NewNxARPSpaMatchField", nxm0, 16, false, func(v, m []byte, r *rec.Rec) mf {
		if m == nil {
			return of.NewNxARPSpaMatchField(ip4(v, r), nil)
		}
		return of.NewNxARPSpaMatchField(ip4(v, r), ip4(m, r))
	})
	masked("NewNxARPTpaMatchField", nxm0, 17, false, func(v, m []byte, r *rec.Rec) mf {
		if m == nil {
			return of.NewNxARPTpaMatchField(ip4(v, r), nil)
		}
		return of.NewNxARPTpaMatchField(ip4(v, r), ip4(m, r))
	})
	// generic builder for every registered fixed-width name
	for i := range spec.OXMTable {
		ref := spec.OXMTable[i]
		if ref.Width == 0 {
			continue
		}
		if !registered(ref.Name) {
			continue
		}
		name := ref.Name
		addCtor(&MFCtor{Name: "generic:" + name, Class: ref.Class, Field: ref.Field, Maskable: true, Decodes: libDecodes(ref.Class, ref.Field),
			Build: func(v, m []byte, r *rec.Rec) (*of.MatchField, error) {
				if m == nil {
					return of.NewMatchField[[]byte, int](name, Own(v))
				}
				// the window (_ofs, _n) produces the mask; the builder is given the unshifted value
				ofs, n := int(r.U("_ofs")), int(r.U("_n"))
				val := new(big.Int).Rsh(new(big.Int).SetBytes(v), uint(ofs))
				if r.Bool("_noshift") {
					return of.NewMatchField[[]byte, int](name, Own(v), ofs, n, 0)
				}
				return of.NewMatchField[*big.Int, int](name, val, ofs, n)
			}})
	}
}

// libDecodes lists the (class, field) pairs for which the library has a match-field decoder case today
// (DESIGN.md section 5/C04: "supported match-field kinds").
func libDecodes(class uint16, field uint8) bool {
	switch class {
	case basic:
		switch field {
		case 0, 2, 3, 4, 5, 6, 8, 10, 11, 12, 13, 14, 15, 16, 17, 18, 19, 20, 21, 22, 23, 24, 25, 26, 27, 28, 29, 30, 31, 32, 33, 34, 36, 38, 42:
			return true
		}
	case nxm1:
		switch {
		case field <= 15, field >= 17 && field <= 25, field == 27, field >= 31 && field <= 33, field == 37,
			field >= 40 && field <= 47, field >= 105 && field <= 114, field >= 119 && field <= 125:
			return true
		}
	}
	return false
}

// LibDecodes is exported for generators.
func LibDecodes(class uint16, field uint8) bool { return libDecodes(class, field) }

// BuildMatchField constructs the field described by r through the constructor named in its _ctor hint.
func BuildMatchField(r *rec.Rec) (*of.MatchField, error) {
	c := mfByName[r.Text("_ctor")]
	if c == nil {
		return nil, fmt.Errorf("lib: match field recipe without a known constructor hint (%q)", r.Text("_ctor"))
	}
	var m []byte
	if r.Bool("hasmask") {
		m = r.Bytes("mask")
		if m == nil {
			m = []byte{}
		}
	}
	return c.Build(r.Bytes("value"), m, r)
}

// HeaderField makes the header-only MatchField (class, field, hasmask, length) used by reg_load / reg_move /
// output_reg / learn / ct zone: through the registry when the name hint is present, else from exported fields.
func HeaderField(word uint32, nameHint string) *of.MatchField {
	if nameHint != "" {
		if f, err := of.FindFieldHeaderByName(nameHint, word>>8&1 == 1); err == nil {
			return f
		}
	}
	return &of.MatchField{Class: uint16(word >> 16), Field: uint8(word>>9) & 0x7f, HasMask: word>>8&1 == 1, Length: uint8(word)}
}
