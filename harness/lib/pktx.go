package lib

import (
	"encoding/binary"
	"fmt"

	"github.com/contiv/libOpenflow/protocol"
	"github.com/contiv/libOpenflow/util"

	"vh/rec"
)

// NewPacketValue returns a fresh value for decoding a header of the given kind, made the way a user makes one.
func NewPacketValue(kind string) util.Message {
	switch kind {
	case "ethernet":
		return protocol.NewEthernet()
	case "vlan":
		return protocol.NewVLAN()
	case "arp":
		return new(protocol.ARP)
	case "ipv4":
		return protocol.NewIPv4()
	case "ipv6":
		return new(protocol.IPv6)
	case "hbh":
		return protocol.NewHopByHopHeader()
	case "routing":
		return protocol.NewRoutingHeader()
	case "fragment":
		return protocol.NewFragmentHeader()
	case "ip6opt":
		return new(protocol.Option)
	case "icmp":
		return protocol.NewICMP()
	case "udp":
		return protocol.NewUDP()
	case "tcp":
		return protocol.NewTCP()
	case "igmp12":
		return new(protocol.IGMPv1or2)
	case "igmp3_query":
		return new(protocol.IGMPv3Query)
	case "igmp3_record":
		return new(protocol.IGMPv3GroupRecord)
	case "igmp3_report":
		return new(protocol.IGMPv3MembershipReport)
	case "raw":
		return new(util.Buffer)
	}
	return nil
}

// payloadOf records the payload of a header: typed payloads as a sub-record (plus, for kinds the library may or may
// not dispatch to, their own encoding under "payload_bytes"), opaque ones as "data".
func payloadOf(r *rec.Rec, m util.Message) error {
	if m == nil {
		return nil
	}
	if b, ok := m.(*util.Buffer); ok {
		if b == nil {
			return nil
		}
		r.SetB("data", append([]byte(nil), b.Bytes()...))
		return nil
	}
	s, err := ExtractPacket(m)
	if err != nil {
		return err
	}
	r.SetS("payload", s)
	return nil
}

// ExtractPacket turns a (decoded) packet header value into the recipe tree the generators use.
func ExtractPacket(m util.Message) (*rec.Rec, error) {
	switch x := m.(type) {
	case *protocol.Ethernet:
		r := rec.New("ethernet").SetB("dst", x.HWDst).SetB("src", x.HWSrc).Set("ethertype", uint64(x.Ethertype))
		if x.VLANID.VID != 0 {
			r.SetBool("has_vlan", true).Set("pcp", uint64(x.VLANID.PCP)).Set("dei", uint64(x.VLANID.DEI)).Set("vid", uint64(x.VLANID.VID))
		} else if x.VLANID.PCP != 0 || x.VLANID.DEI != 0 {
			// a priority tag (VID 0) as far as the value can express it
			r.SetBool("has_vlan", true).Set("pcp", uint64(x.VLANID.PCP)).Set("dei", uint64(x.VLANID.DEI)).Set("vid", 0)
		}
		return r, payloadOf(r, x.Data)
	case *protocol.VLAN:
		return rec.New("vlan").Set("tpid", uint64(x.TPID)).Set("pcp", uint64(x.PCP)).Set("dei", uint64(x.DEI)).Set("vid", uint64(x.VID)), nil
	case *protocol.ARP:
		return rec.New("arp").Set("htype", uint64(x.HWType)).Set("ptype", uint64(x.ProtoType)).Set("hlen", uint64(x.HWLength)).Set("plen", uint64(x.ProtoLength)).
			Set("oper", uint64(x.Operation)).SetB("sha", x.HWSrc).SetB("spa", x.IPSrc).SetB("tha", x.HWDst).SetB("tpa", x.IPDst), nil
	case *protocol.IPv4:
		r := rec.New("ipv4").Set("version", uint64(x.Version)).Set("ihl", uint64(x.IHL)).Set("dscp", uint64(x.DSCP)).Set("ecn", uint64(x.ECN)).
			Set("length", uint64(x.Length)).Set("id", uint64(x.Id)).Set("flags", uint64(x.Flags)).Set("frag_off", uint64(x.FragmentOffset)).
			Set("ttl", uint64(x.TTL)).Set("protocol", uint64(x.Protocol)).Set("checksum", uint64(x.Checksum)).SetB("src", x.NWSrc).SetB("dst", x.NWDst)
		if o := x.Options.Bytes(); len(o) > 0 {
			r.SetB("options", append([]byte(nil), o...))
		}
		return r, payloadOf(r, x.Data)
	case *protocol.IPv6:
		r := rec.New("ipv6").Set("version", uint64(x.Version)).Set("tclass", uint64(x.TrafficClass)).Set("flow_label", uint64(x.FlowLabel)).
			Set("length", uint64(x.Length)).Set("next_header", uint64(x.NextHeader)).Set("hop_limit", uint64(x.HopLimit)).SetB("src", x.NWSrc).SetB("dst", x.NWDst)
		r.SetL("ext", nil)
		// the value holds at most one header of each kind; their wire order is given by the next-header chain
		next := x.NextHeader
		seen := map[uint8]bool{}
		for !seen[next] {
			seen[next] = true
			var h util.Message
			switch {
			case next == protocol.Type_HBH && x.HbhHeader != nil:
				h = x.HbhHeader
				next = x.HbhHeader.NextHeader
			case next == protocol.Type_Routing && x.RoutingHeader != nil:
				h = x.RoutingHeader
				next = x.RoutingHeader.NextHeader
			case next == protocol.Type_Fragment && x.FragmentHeader != nil:
				h = x.FragmentHeader
				next = x.FragmentHeader.NextHeader
			}
			if h == nil {
				break
			}
			e, err := ExtractPacket(h)
			if err != nil {
				return nil, err
			}
			r.Add("ext", e)
		}
		return r, payloadOf(r, x.Data)
	case *protocol.HopByHopHeader:
		r := rec.New("hbh").Set("next_header", uint64(x.NextHeader)).Set("hel", uint64(x.HEL)).SetL("options", nil)
		for _, o := range x.Options {
			r.Add("options", rec.New("ip6opt").Set("type", uint64(o.Type)).Set("length", uint64(o.Length)).SetB("data", o.Data))
		}
		return r, nil
	case *protocol.Option:
		return rec.New("ip6opt").Set("type", uint64(x.Type)).Set("length", uint64(x.Length)).SetB("data", x.Data), nil
	case *protocol.RoutingHeader:
		r := rec.New("routing").Set("next_header", uint64(x.NextHeader)).Set("hel", uint64(x.HEL)).Set("type", uint64(x.RoutingType)).Set("segments_left", uint64(x.SegmentsLeft))
		if x.Data != nil {
			r.SetB("data", append([]byte(nil), x.Data.Bytes()...))
		}
		return r, nil
	case *protocol.FragmentHeader:
		return rec.New("fragment").Set("next_header", uint64(x.NextHeader)).Set("reserved", uint64(x.Reserved)).Set("frag_off", uint64(x.FragmentOffset)).SetBool("more", x.MoreFragments).Set("id", uint64(x.Identification)), nil
	case *protocol.ICMP:
		return rec.New("icmp").Set("type", uint64(x.Type)).Set("code", uint64(x.Code)).Set("checksum", uint64(x.Checksum)).SetB("data", x.Data), nil
	case *protocol.UDP:
		return rec.New("udp").Set("sport", uint64(x.PortSrc)).Set("dport", uint64(x.PortDst)).Set("length", uint64(x.Length)).Set("checksum", uint64(x.Checksum)).SetB("data", x.Data), nil
	case *protocol.TCP:
		return rec.New("tcp").Set("sport", uint64(x.PortSrc)).Set("dport", uint64(x.PortDst)).Set("seq", uint64(x.SeqNum)).Set("ack", uint64(x.AckNum)).
			Set("data_off", uint64(x.HdrLen)).Set("flags", uint64(x.Code)).Set("window", uint64(x.WinSize)).Set("checksum", uint64(x.Checksum)).Set("urgent", uint64(x.UrgFlag)).SetB("data", x.Data), nil
	case *protocol.IGMPv1or2:
		return rec.New("igmp12").Set("type", uint64(x.Type)).Set("max_resp", uint64(x.MaxResponseTime)).Set("checksum", uint64(x.Checksum)).SetB("group", x.GroupAddress), nil
	case *protocol.IGMPv3Query:
		r := rec.New("igmp3_query").Set("type", uint64(x.Type)).Set("max_resp", uint64(x.MaxResponseTime)).Set("checksum", uint64(x.Checksum)).SetB("group", x.GroupAddress).
			SetBool("s", x.SuppressRouterProcessing).Set("qrv", uint64(x.RobustnessValue)).Set("qqic", uint64(x.IntervalTime)).Set("nsrc", uint64(x.NumberOfSources))
		var src []byte
		for _, ip := range x.SourceAddresses {
			src = append(src, ip...)
		}
		return r.SetB("sources", src), nil
	case *protocol.IGMPv3GroupRecord:
		r := rec.New("igmp3_record").Set("type", uint64(x.Type)).SetB("mcast", x.MulticastAddress).Set("nsrc", uint64(x.NumberOfSources)).Set("auxlen", uint64(x.AuxDataLen))
		var src, aux []byte
		for _, ip := range x.SourceAddresses {
			src = append(src, ip...)
		}
		for _, a := range x.AuxData {
			aux = binary.BigEndian.AppendUint32(aux, a)
		}
		return r.SetB("sources", src).SetB("aux", aux), nil
	case *protocol.IGMPv3MembershipReport:
		r := rec.New("igmp3_report").Set("type", uint64(x.Type)).Set("checksum", uint64(x.Checksum)).Set("ngroups", uint64(x.NumberOfGroups)).SetL("records", nil)
		for i := range x.GroupRecords {
			g, err := ExtractPacket(&x.GroupRecords[i])
			if err != nil {
				return nil, err
			}
			r.Add("records", g)
		}
		return r, nil
	case *util.Buffer:
		return rec.New("raw").SetB("data", append([]byte(nil), x.Bytes()...)), nil
	}
	return nil, fmt.Errorf("lib: no extractor for packet value of type %T", m)
}

func ExtractDHCP(d *protocol.DHCP) *rec.Rec {
	r := rec.New("dhcp").Set("op", uint64(d.Operation)).Set("htype", uint64(d.HardwareType)).Set("hlen", uint64(d.HardwareLen)).Set("hops", uint64(d.HardwareOpts)).
		Set("xid", uint64(d.Xid)).Set("secs", uint64(d.Secs)).Set("flags", uint64(d.Flags)).SetB("ciaddr", d.ClientIP).SetB("yiaddr", d.YourIP).
		SetB("siaddr", d.ServerIP).SetB("giaddr", d.GatewayIP).SetB("sname", d.ServerName[:]).SetB("file", d.File[:])
	ch := make([]byte, 16)
	copy(ch, d.ClientHWAddr)
	r.SetB("chaddr", ch).SetL("options", nil)
	for _, o := range d.Options {
		or := rec.New("dhcp_opt").Set("tag", uint64(o.OptionType()))
		if o.OptionType() != 0 && o.OptionType() != 255 {
			or.SetB("data", append([]byte(nil), o.Bytes()...))
		}
		r.Add("options", or)
	}
	return r
}

func ExtractLLDP(l *protocol.LLDP) *rec.Rec {
	return rec.New("lldp").
		SetS("chassis", rec.New("lldp_chassis").Set("tlv_type", uint64(l.Chassis.Type)).Set("tlv_length", uint64(l.Chassis.Length)).Set("subtype", uint64(l.Chassis.Subtype)).SetB("id", l.Chassis.Data)).
		SetS("port", rec.New("lldp_port").Set("tlv_type", uint64(l.Port.Type)).Set("tlv_length", uint64(l.Port.Length)).Set("subtype", uint64(l.Port.Subtype)).SetB("id", l.Port.Data)).
		SetS("ttl", rec.New("lldp_ttl").Set("tlv_type", uint64(l.TTL.Type)).Set("tlv_length", uint64(l.TTL.Length)).Set("seconds", uint64(l.TTL.Seconds)))
}
