package lib

import (
	"fmt"

	of "github.com/contiv/libOpenflow/openflow13"
	"github.com/contiv/libOpenflow/util"

	"vh/rec"
)

// BuildMessageLate builds a flow-mod, group-mod or packet-out (also inside a bundle-add) in a top-down history: the
// variable-size Nicira actions (conntrack with nested actions, note, learn) are attached to their list while still
// empty and grow afterwards through their own adders/fields. Returns the number of actions that grew late.
func BuildMessageLate(r *rec.Rec, deep ...bool) (util.Message, int, error) {
	// deep[1]: the message is encoded once before anything grows.
	// deep[0]: NAT actions nested in a conntrack action are in turn attached to it without their ranges and get them
	// afterwards (growth two levels down; the conntrack action caches its length when the NAT is attached)
	goDeep := len(deep) > 0 && deep[0]
	stripped := r.Clone()
	var full, bare [][]*rec.Rec
	collect(r, &full)
	collect(stripped, &bare)
	late := 0
	for i := range bare {
		for j, a := range bare[i] {
			if grows(full[i][j]) {
				late++
				switch a.K {
				case "nx_ct":
					a.SetL("actions", nil)
				case "nx_note":
					a.SetB("note", nil)
				case "nx_learn":
					a.SetL("specs", nil)
				}
			}
		}
	}
	if late == 0 {
		return nil, 0, nil
	}
	msg, err := BuildMessage(stripped)
	if err != nil {
		return nil, 0, err
	}
	if len(deep) > 1 && deep[1] {
		// the message is sized and encoded once before its actions grow (a message sent, then extended and sent again)
		msg.Len()
		msg.MarshalBinary()
	}
	var lists [][]of.Action
	collectBuilt(msg, &lists)
	if len(lists) != len(full) {
		return nil, 0, fmt.Errorf("lib: built message has %d action lists, recipe %d", len(lists), len(full))
	}
	for i := range full {
		if len(lists[i]) != len(full[i]) {
			return nil, 0, fmt.Errorf("lib: action list %d has %d actions, recipe %d", i, len(lists[i]), len(full[i]))
		}
		for j, a := range full[i] {
			if !grows(a) {
				continue
			}
			switch x := lists[i][j].(type) {
			case *of.NXActionConnTrack:
				nrecs := a.List("actions")
				if goDeep {
					bare := make([]*rec.Rec, len(nrecs))
					for k, nr := range nrecs {
						bare[k] = nr
						if nr.K == "nx_nat" && nr.U("range_present") != 0 {
							bare[k] = nr.Clone().Set("range_present", 0)
						}
					}
					nrecs = bare
				}
				nested, err := BuildActions(nrecs)
				if err != nil {
					return nil, 0, err
				}
				if j%2 == 0 {
					scratch := make([]of.Action, len(nested), len(nested)+2)
					copy(scratch, nested)
					x.AddAction(scratch...)
					for i := range scratch { // the caller's scratch slice is reused at once
						scratch[i] = of.NewActionGroup(0xdead0000 + uint32(i))
					}
				} else {
					for _, n := range nested {
						x.AddAction(n)
					}
				}
				if goDeep {
					for k, nr := range a.List("actions") {
						if nat, ok := nested[k].(*of.NXActionCTNAT); ok && nr.K == "nx_nat" && nr.U("range_present") != 0 {
							ApplyNATRanges(nat, nr)
							late++
						}
					}
				}
			case *of.NXActionNote:
				x.Note = Own(a.Bytes("note"))
			case *of.NXActionLearn:
				donor, err := BuildAction(a)
				if err != nil {
					return nil, 0, err
				}
				x.LearnSpecs = append(x.LearnSpecs, donor.(*of.NXActionLearn).LearnSpecs...)
			default:
				return nil, 0, fmt.Errorf("lib: action %d/%d is a %T, recipe says %s", i, j, lists[i][j], a.K)
			}
		}
	}
	return msg, late, nil
}

func grows(a *rec.Rec) bool {
	switch a.K {
	case "nx_ct":
		return len(a.List("actions")) > 0
	case "nx_note":
		return len(a.Bytes("note")) > 0
	case "nx_learn":
		return len(a.List("specs")) > 0
	}
	return false
}

// collect lists the top-level action lists of a message recipe in a fixed order.
func collect(r *rec.Rec, out *[][]*rec.Rec) {
	switch r.K {
	case "flow_mod":
		for _, in := range r.List("instructions") {
			if in.K == "apply_actions" || in.K == "write_actions" {
				*out = append(*out, in.List("actions"))
			}
		}
	case "group_mod":
		for _, b := range r.List("buckets") {
			*out = append(*out, b.List("actions"))
		}
	case "packet_out":
		*out = append(*out, r.List("actions"))
	case "bundle_add":
		if m := r.Sub("message"); m != nil {
			collect(m, out)
		}
	}
}

func collectBuilt(m util.Message, out *[][]of.Action) {
	switch x := m.(type) {
	case *of.FlowMod:
		for _, in := range x.Instructions {
			if ia, ok := in.(*of.InstrActions); ok {
				*out = append(*out, ia.Actions)
			}
		}
	case *of.GroupMod:
		for i := range x.Buckets {
			*out = append(*out, x.Buckets[i].Actions)
		}
	case *of.PacketOut:
		*out = append(*out, x.Actions)
	case *of.VendorHeader:
		if ba, ok := x.VendorData.(*of.BundleAdd); ok && ba != nil {
			collectBuilt(ba.Message, out)
		}
	}
}
