package lib

import (
	"fmt"
	"reflect"
	"sort"
	"strings"
	"unsafe"
)

// Region is the backing array of a slice found in an object graph.
type Region struct {
	Ptr  uintptr
	Size uintptr // capacity in bytes
	Path string
}

type walker struct {
	sb      *strings.Builder
	regions *[]Region
	seen    map[uintptr]bool
	budget  int
	ptrs    bool // also record pointer targets as regions
}

// Dump prints the whole object graph reachable from v (exported and unexported fields, through pointers,
// interfaces, slices, arrays and maps) deterministically. Two values with equal dumps are observably equal.
func Dump(v any) string {
	var sb strings.Builder
	w := &walker{sb: &sb, seen: map[uintptr]bool{}, budget: 4 << 20}
	w.visit(reflect.ValueOf(v), "")
	return sb.String()
}

// Objects lists, besides the backing arrays of all slices, the target of every pointer reachable from v (below the
// top-level value itself): memory that two independently built values must not have in common if either can be edited.
func Objects(v any) []Region {
	var rs []Region
	w := &walker{regions: &rs, seen: map[uintptr]bool{}, budget: 4 << 20, ptrs: true}
	w.visit(reflect.ValueOf(v), "")
	return rs
}

// Regions lists the backing arrays of all slices reachable from v.
func Regions(v any) []Region {
	var rs []Region
	w := &walker{regions: &rs, seen: map[uintptr]bool{}, budget: 4 << 20}
	w.visit(reflect.ValueOf(v), "")
	return rs
}

func (w *walker) put(s string) {
	if w.sb != nil && w.budget > 0 {
		w.budget -= len(s)
		w.sb.WriteString(s)
	}
}

// open removes the read-only flag of a value obtained through an unexported field (needs addressability).
func open(v reflect.Value) reflect.Value {
	if v.CanInterface() || !v.CanAddr() {
		return v
	}
	return reflect.NewAt(v.Type(), unsafe.Pointer(v.UnsafeAddr())).Elem()
}

// addressable returns an addressable copy of v when it is not addressable (values inside interfaces and maps).
func addressable(v reflect.Value) reflect.Value {
	if v.CanAddr() {
		return v
	}
	nv := reflect.New(v.Type()).Elem()
	if v.CanInterface() {
		nv.Set(v)
	}
	return nv
}

func (w *walker) visit(v reflect.Value, path string) {
	if !v.IsValid() {
		w.put("<nil>")
		return
	}
	v = open(v)
	switch v.Kind() {
	case reflect.Ptr:
		if v.IsNil() {
			w.put("nil")
			return
		}
		p := v.Pointer()
		if w.seen[p] && v.Elem().Kind() == reflect.Struct {
			w.put("&<seen>")
			return
		}
		w.seen[p] = true
		if w.ptrs && w.regions != nil && path != "" && v.Elem().Type().Size() > 0 {
			*w.regions = append(*w.regions, Region{Ptr: p, Size: v.Elem().Type().Size(), Path: path + "(*)"})
		}
		w.put("&")
		w.visit(v.Elem(), path)
	case reflect.Interface:
		if v.IsNil() {
			w.put("nil")
			return
		}
		e := v.Elem()
		w.put("(" + e.Type().String() + ")")
		w.visit(e, path)
	case reflect.Struct:
		v = addressable(v)
		t := v.Type()
		w.put(t.String() + "{")
		for i := 0; i < v.NumField(); i++ {
			w.put(t.Field(i).Name + ":")
			w.visit(v.Field(i), path+"."+t.Field(i).Name)
			w.put(" ")
		}
		w.put("}")
	case reflect.Slice:
		if v.IsNil() {
			w.put("nil[]")
			return
		}
		if w.regions != nil && v.Cap() > 0 {
			*w.regions = append(*w.regions, Region{Ptr: v.Pointer(), Size: uintptr(v.Cap()) * v.Type().Elem().Size(), Path: path})
		}
		if v.Type().Elem().Kind() == reflect.Uint8 {
			if w.sb != nil {
				w.put(fmt.Sprintf("[%d]%x", v.Len(), v.Bytes()))
			}
			return
		}
		w.put(fmt.Sprintf("[%d](", v.Len()))
		for i := 0; i < v.Len(); i++ {
			w.visit(v.Index(i), fmt.Sprintf("%s[%d]", path, i))
			w.put(",")
		}
		w.put(")")
	case reflect.Array:
		v = addressable(v)
		if v.Type().Elem().Kind() == reflect.Uint8 {
			if w.sb != nil {
				b := make([]byte, v.Len())
				for i := range b {
					b[i] = byte(open(v.Index(i)).Uint())
				}
				w.put(fmt.Sprintf("[%d]%x", len(b), b))
			}
			return
		}
		w.put("[(")
		for i := 0; i < v.Len(); i++ {
			w.visit(v.Index(i), fmt.Sprintf("%s[%d]", path, i))
			w.put(",")
		}
		w.put(")]")
	case reflect.Map:
		if v.IsNil() {
			w.put("nilmap")
			return
		}
		keys := v.MapKeys()
		sort.Slice(keys, func(i, j int) bool { return fmt.Sprint(keys[i]) < fmt.Sprint(keys[j]) })
		w.put("map{")
		for _, k := range keys {
			w.put(fmt.Sprint(k) + ":")
			w.visit(addressable(v.MapIndex(k)), path+"["+fmt.Sprint(k)+"]")
			w.put(",")
		}
		w.put("}")
	case reflect.String:
		w.put(fmt.Sprintf("%q", v.String()))
	case reflect.Bool:
		w.put(fmt.Sprint(v.Bool()))
	case reflect.Int, reflect.Int8, reflect.Int16, reflect.Int32, reflect.Int64:
		w.put(fmt.Sprint(v.Int()))
	case reflect.Uint, reflect.Uint8, reflect.Uint16, reflect.Uint32, reflect.Uint64, reflect.Uintptr:
		w.put(fmt.Sprint(v.Uint()))
	case reflect.Float32, reflect.Float64:
		w.put(fmt.Sprint(v.Float()))
	default:
		w.put("<" + v.Kind().String() + ">")
	}
}
