package lib

import (
	"fmt"
	"sync"
)

// Own returns a copy of b that the caller hands over to a library value. The copy is the front part of a larger
// array whose tail holds a canary pattern (cap > len, like a slice cut out of a bigger buffer): a library function that
// appends to or writes past a slice it was given - instead of allocating its own - overwrites the canary, which
// CheckCanaries reports.
func Own(b []byte) []byte {
	const tail = 24
	blob := make([]byte, len(b)+tail)
	copy(blob, b)
	for i := len(b); i < len(blob); i++ {
		blob[i] = canaryByte
	}
	canaryMu.Lock()
	if len(canaries) < 1<<16 {
		canaries = append(canaries, canary{blob, len(b)})
	}
	canaryMu.Unlock()
	return blob[:len(b)]
}

const canaryByte = 0xC5

type canary struct {
	blob []byte
	n    int
}

var (
	canaryMu sync.Mutex
	canaries []canary
)

// ResetCanaries forgets all registered slices (start of a case).
func ResetCanaries() {
	canaryMu.Lock()
	canaries = canaries[:0]
	canaryMu.Unlock()
}

// CheckCanaries returns a description of the first slice whose spare capacity was written to, or "".
func CheckCanaries() string {
	canaryMu.Lock()
	defer canaryMu.Unlock()
	for _, c := range canaries {
		for i := c.n; i < len(c.blob); i++ {
			if c.blob[i] != canaryByte {
				return fmt.Sprintf("a %d-byte slice handed to the library (cut from a larger array) had the memory behind it overwritten at offset +%d: % x (slice contents % x)", c.n, i-c.n, c.blob[c.n:], c.blob[:c.n])
			}
		}
	}
	return ""
}
