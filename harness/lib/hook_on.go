//go:build verif

package lib

import of "github.com/contiv/libOpenflow/openflow13"

// registered reports whether the registry has the (canonical, upper-case) name. With the hooks compiled in this is a
// plain look at the registry map: going through FindFieldHeaderByName at package-initialisation time would make the
// harness itself the first user of whatever that function sets up lazily on a miss.
func registered(name string) bool {
	_, _, _, _, ok := of.VerifRegistryRaw(name)
	return ok
}
