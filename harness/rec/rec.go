// Package rec is the generic, JSON-serialisable description ("recipe") of a
// message, element or packet. One recipe is consumed by the reference encoder,
// by the library builder, and is what extractors/decoders produce, so trees can
// be compared field by field.
package rec

import (
	"encoding/hex"
	"encoding/json"
	"fmt"
	"sort"
)

type Rec struct {
	K string            `json:"k"`
	N map[string]uint64 `json:"n,omitempty"`
	B map[string]string `json:"b,omitempty"`
	T map[string]string `json:"t,omitempty"`
	S map[string]*Rec   `json:"s,omitempty"`
	L map[string][]*Rec `json:"l,omitempty"`
}

func New(kind string) *Rec { return &Rec{K: kind} }

func (r *Rec) Set(name string, v uint64) *Rec {
	if r.N == nil {
		r.N = map[string]uint64{}
	}
	r.N[name] = v
	return r
}

func (r *Rec) SetBool(name string, v bool) *Rec {
	if v {
		return r.Set(name, 1)
	}
	return r.Set(name, 0)
}

func (r *Rec) SetB(name string, b []byte) *Rec {
	if r.B == nil {
		r.B = map[string]string{}
	}
	r.B[name] = hex.EncodeToString(b)
	return r
}

// SetT sets a text field. Names starting with "_" (in any map) are builder hints: ignored by Diff and by the
// reference encoder.
func (r *Rec) SetT(name, v string) *Rec {
	if r.T == nil {
		r.T = map[string]string{}
	}
	r.T[name] = v
	return r
}

func (r *Rec) Text(name string) string {
	if r == nil {
		return ""
	}
	return r.T[name]
}

func (r *Rec) SetS(name string, s *Rec) *Rec {
	if r.S == nil {
		r.S = map[string]*Rec{}
	}
	r.S[name] = s
	return r
}

func (r *Rec) SetL(name string, l []*Rec) *Rec {
	if r.L == nil {
		r.L = map[string][]*Rec{}
	}
	if l == nil {
		l = []*Rec{}
	}
	r.L[name] = l
	return r
}

func (r *Rec) Add(name string, e *Rec) *Rec {
	if r.L == nil {
		r.L = map[string][]*Rec{}
	}
	r.L[name] = append(r.L[name], e)
	return r
}

func (r *Rec) U(name string) uint64 {
	if r == nil {
		return 0
	}
	return r.N[name]
}
func (r *Rec) U8(name string) uint8   { return uint8(r.U(name)) }
func (r *Rec) U16(name string) uint16 { return uint16(r.U(name)) }
func (r *Rec) U32(name string) uint32 { return uint32(r.U(name)) }
func (r *Rec) Bool(name string) bool  { return r.U(name) != 0 }

func (r *Rec) Has(name string) bool {
	if r == nil {
		return false
	}
	if _, ok := r.N[name]; ok {
		return true
	}
	if _, ok := r.B[name]; ok {
		return true
	}
	if _, ok := r.S[name]; ok {
		return true
	}
	if _, ok := r.L[name]; ok {
		return true
	}
	return false
}

func (r *Rec) Bytes(name string) []byte {
	if r == nil {
		return nil
	}
	s, ok := r.B[name]
	if !ok {
		return nil
	}
	b, err := hex.DecodeString(s)
	if err != nil {
		panic("rec: bad hex in field " + name)
	}
	return b
}

func (r *Rec) Sub(name string) *Rec {
	if r == nil {
		return nil
	}
	return r.S[name]
}

func (r *Rec) List(name string) []*Rec {
	if r == nil {
		return nil
	}
	return r.L[name]
}

func (r *Rec) JSON() []byte {
	b, err := json.Marshal(r)
	if err != nil {
		panic(err)
	}
	return b
}

func (r *Rec) String() string { return string(r.JSON()) }

func Parse(b []byte) (*Rec, error) {
	r := new(Rec)
	if err := json.Unmarshal(b, r); err != nil {
		return nil, err
	}
	return r, nil
}

func (r *Rec) Clone() *Rec {
	if r == nil {
		return nil
	}
	c, err := Parse(r.JSON())
	if err != nil {
		panic(err)
	}
	return c
}

// Normalize removes empty containers so that structurally equal trees have equal JSON.
func (r *Rec) Normalize() *Rec {
	if r == nil {
		return nil
	}
	if len(r.N) == 0 {
		r.N = nil
	}
	if len(r.B) == 0 {
		r.B = nil
	}
	if len(r.T) == 0 {
		r.T = nil
	}
	for k, s := range r.S {
		if s == nil {
			delete(r.S, k)
		} else {
			s.Normalize()
		}
	}
	if len(r.S) == 0 {
		r.S = nil
	}
	for k, l := range r.L {
		if len(l) == 0 {
			delete(r.L, k)
			continue
		}
		for _, e := range l {
			e.Normalize()
		}
	}
	if len(r.L) == 0 {
		r.L = nil
	}
	return r
}

// DiffEntry is one differing field.
type DiffEntry struct{ Path, Detail string }

// Diff returns "" if a and b are equal after normalisation, else the path of
// the first difference (stable order) and a short description.
func Diff(a, b *Rec) (path string, detail string) {
	d := DiffAll(a, b, 1)
	if len(d) == 0 {
		return "", ""
	}
	return d[0].Path, d[0].Detail
}

// DiffAll returns up to max differing fields (stable order), so that one known difference cannot hide another.
func DiffAll(a, b *Rec, max int) []DiffEntry {
	var out []DiffEntry
	diff("", a, b, &out, max)
	return out
}

func diff(p string, a, b *Rec, out *[]DiffEntry, max int) {
	add := func(path, detail string) {
		if len(*out) < max {
			if path == "" {
				path = "."
			}
			*out = append(*out, DiffEntry{path, detail})
		}
	}
	if len(*out) >= max || (a == nil && b == nil) {
		return
	}
	if a == nil || b == nil {
		add(p, fmt.Sprintf("present=%v vs present=%v", a != nil, b != nil))
		return
	}
	if a.K != b.K {
		add(p+".k", fmt.Sprintf("kind %q vs %q", a.K, b.K))
		return
	}
	keys := map[string]bool{}
	for k := range a.N {
		keys[k] = true
	}
	for k := range b.N {
		keys[k] = true
	}
	for _, k := range sorted(keys) {
		if k[0] == '_' {
			continue
		}
		if av, bv := a.N[k], b.N[k]; av != bv { // an absent number equals zero
			add(p+"."+k, fmt.Sprintf("%d (%#x) vs %d (%#x)", av, av, bv, bv))
		}
	}
	keys = map[string]bool{}
	for k := range a.B {
		keys[k] = true
	}
	for k := range b.B {
		keys[k] = true
	}
	for _, k := range sorted(keys) {
		if k[0] == '_' {
			continue
		}
		if av, bv := a.B[k], b.B[k]; av != bv { // absent bytes equal empty bytes
			add(p+"."+k, fmt.Sprintf("%s vs %s", trunc(av), trunc(bv)))
		}
	}
	keys = map[string]bool{}
	for k := range a.T {
		keys[k] = true
	}
	for k := range b.T {
		keys[k] = true
	}
	for _, k := range sorted(keys) {
		if k[0] == '_' {
			continue
		}
		if a.T[k] != b.T[k] {
			add(p+"."+k, fmt.Sprintf("%q vs %q", a.T[k], b.T[k]))
		}
	}
	keys = map[string]bool{}
	for k := range a.S {
		keys[k] = true
	}
	for k := range b.S {
		keys[k] = true
	}
	for _, k := range sorted(keys) {
		diff(p+"."+k, a.S[k], b.S[k], out, max)
	}
	keys = map[string]bool{}
	for k, l := range a.L {
		if len(l) > 0 {
			keys[k] = true
		}
	}
	for k, l := range b.L {
		if len(l) > 0 {
			keys[k] = true
		}
	}
	for _, k := range sorted(keys) {
		al, bl := a.L[k], b.L[k]
		if len(al) != len(bl) {
			add(p+"."+k+".len", fmt.Sprintf("%d vs %d elements", len(al), len(bl)))
			continue
		}
		for i := range al {
			diff(fmt.Sprintf("%s.%s[%d]", p, k, i), al[i], bl[i], out, max)
		}
	}
}

func trunc(s string) string {
	if len(s) > 64 {
		return s[:64] + "…"
	}
	return s
}

func sorted(m map[string]bool) []string {
	s := make([]string, 0, len(m))
	for k := range m {
		s = append(s, k)
	}
	sort.Strings(s)
	return s
}

// Walk calls f for r and every nested record (depth-first).
func (r *Rec) Walk(f func(*Rec)) {
	if r == nil {
		return
	}
	f(r)
	for _, k := range sortedKeysS(r.S) {
		r.S[k].Walk(f)
	}
	for _, k := range sortedKeysL(r.L) {
		for _, e := range r.L[k] {
			e.Walk(f)
		}
	}
}

func sortedKeysS(m map[string]*Rec) []string {
	s := make([]string, 0, len(m))
	for k := range m {
		s = append(s, k)
	}
	sort.Strings(s)
	return s
}
func sortedKeysL(m map[string][]*Rec) []string {
	s := make([]string, 0, len(m))
	for k := range m {
		s = append(s, k)
	}
	sort.Strings(s)
	return s
}
