package spec

import (
	"fmt"

	"vh/rec"
)

// Message type codes, OpenFlow 1.3.5 section 7.1 (ofp_type).
var MsgType = map[string]uint8{
	"hello": 0, "error": 1, "exp_error": 1, "echo_request": 2, "echo_reply": 3,
	"features_request": 5, "features_reply": 6, "get_config_request": 7, "get_config_reply": 8, "set_config": 9,
	"packet_in": 10, "flow_removed": 11, "port_status": 12, "packet_out": 13, "flow_mod": 14, "group_mod": 15,
	"port_mod": 16, "mp_request": 18, "mp_reply": 19, "barrier_request": 20, "barrier_reply": 21,
	// OFPT_EXPERIMENTER (4)
	"nx_set_controller_id": 4, "nx_tlv_table_mod": 4, "nx_tlv_table_request": 4, "nx_tlv_table_reply": 4,
	"bundle_control": 4, "bundle_add": 4,
}

const (
	NXVendor  = 0x00002320
	ONFVendor = 0x4f4e4600
)

// vendor message subtypes
var vendorCode = map[string][2]uint32{
	"nx_set_controller_id": {NXVendor, 20}, "nx_tlv_table_mod": {NXVendor, 24}, "nx_tlv_table_request": {NXVendor, 25},
	"nx_tlv_table_reply": {NXVendor, 26}, "bundle_control": {ONFVendor, 2300}, "bundle_add": {ONFVendor, 2301},
}

// EncodeMessage is the reference encoder for a whole OpenFlow message.
func EncodeMessage(m *rec.Rec) (out []byte, err error) {
	defer func() {
		if p := recover(); p != nil {
			err = fmt.Errorf("spec encoder: %v", p)
		}
	}()
	t, ok := MsgType[m.K]
	if !ok {
		return nil, fmt.Errorf("spec: unknown message kind %q", m.K)
	}
	w := &W{}
	w.U8(4)
	w.U8(t)
	w.U16(0)
	w.U32(m.U32("xid"))
	if err := encodeBody(w, m); err != nil {
		return nil, err
	}
	if w.Len() > 65535 {
		return nil, fmt.Errorf("spec: message of %d bytes exceeds 65535", w.Len())
	}
	w.SetU16(2, uint16(w.Len()))
	return w.Bytes(), nil
}

func encodeBody(w *W, m *rec.Rec) error {
	switch m.K {
	case "hello":
		for _, e := range m.List("elements") {
			start := w.Len()
			switch e.K {
			case "hello_versionbitmap":
				bm := e.Bytes("bitmaps")
				w.U16(1)
				w.U16(uint16(4 + len(bm)))
				w.Raw(bm)
			case "hello_unknown":
				d := e.Bytes("data")
				w.U16(e.U16("type"))
				w.U16(uint16(4 + len(d)))
				w.Raw(d)
			default:
				return fmt.Errorf("spec: hello element %q", e.K)
			}
			w.PadTo8From(start)
		}
	case "error":
		w.U16(m.U16("type"))
		w.U16(m.U16("code"))
		w.Raw(m.Bytes("data"))
	case "exp_error":
		w.U16(0xffff)
		w.U16(m.U16("exp_type"))
		w.U32(m.U32("experimenter"))
		w.Raw(m.Bytes("data"))
	case "echo_request", "echo_reply":
		w.Raw(m.Bytes("data"))
	case "features_request", "get_config_request", "barrier_request", "barrier_reply":
	case "features_reply":
		w.U64(m.U("datapath_id"))
		w.U32(m.U32("n_buffers"))
		w.U8(m.U8("n_tables"))
		w.U8(m.U8("auxiliary_id"))
		w.Pad(2)
		w.U32(m.U32("capabilities"))
		w.U32(m.U32("reserved"))
	case "get_config_reply", "set_config":
		w.U16(m.U16("flags"))
		w.U16(m.U16("miss_send_len"))
	case "packet_in":
		w.U32(m.U32("buffer_id"))
		w.U16(m.U16("total_len"))
		w.U8(m.U8("reason"))
		w.U8(m.U8("table_id"))
		w.U64(m.U("cookie"))
		encodeMatch(w, m.Sub("match"))
		w.Pad(2)
		if err := encodePayload(w, m); err != nil {
			return err
		}
	case "flow_removed":
		w.U64(m.U("cookie"))
		w.U16(m.U16("priority"))
		w.U8(m.U8("reason"))
		w.U8(m.U8("table_id"))
		w.U32(m.U32("duration_sec"))
		w.U32(m.U32("duration_nsec"))
		w.U16(m.U16("idle_timeout"))
		w.U16(m.U16("hard_timeout"))
		w.U64(m.U("packet_count"))
		w.U64(m.U("byte_count"))
		encodeMatch(w, m.Sub("match"))
	case "port_status":
		w.U8(m.U8("reason"))
		w.Pad(7)
		encodePort(w, m.Sub("port"))
	case "packet_out":
		w.U32(m.U32("buffer_id"))
		w.U32(m.U32("in_port"))
		at := w.Len()
		w.U16(0)
		w.Pad(6)
		start := w.Len()
		if err := encodeActions(w, m.List("actions")); err != nil {
			return err
		}
		w.SetU16(at, uint16(w.Len()-start))
		if err := encodePayload(w, m); err != nil {
			return err
		}
	case "flow_mod":
		w.U64(m.U("cookie"))
		w.U64(m.U("cookie_mask"))
		w.U8(m.U8("table_id"))
		w.U8(m.U8("command"))
		w.U16(m.U16("idle_timeout"))
		w.U16(m.U16("hard_timeout"))
		w.U16(m.U16("priority"))
		w.U32(m.U32("buffer_id"))
		w.U32(m.U32("out_port"))
		w.U32(m.U32("out_group"))
		w.U16(m.U16("flags"))
		w.Pad(2)
		encodeMatch(w, m.Sub("match"))
		for _, in := range m.List("instructions") {
			if err := encodeInstruction(w, in); err != nil {
				return err
			}
		}
	case "group_mod":
		w.U16(m.U16("command"))
		w.U8(m.U8("type"))
		w.Pad(1)
		w.U32(m.U32("group_id"))
		for _, b := range m.List("buckets") {
			if err := encodeBucket(w, b); err != nil {
				return err
			}
		}
	case "port_mod":
		w.U32(m.U32("port_no"))
		w.Pad(4)
		w.Fixed(m.Bytes("hw_addr"), 6)
		w.Pad(2)
		w.U32(m.U32("config"))
		w.U32(m.U32("mask"))
		w.U32(m.U32("advertise"))
		w.Pad(4)
	case "mp_request":
		w.U16(m.U16("type"))
		w.U16(m.U16("flags"))
		w.Pad(4)
		if b := m.Sub("body"); b != nil {
			if err := encodeMPRequestBody(w, b); err != nil {
				return err
			}
		}
	case "mp_reply":
		w.U16(m.U16("type"))
		w.U16(m.U16("flags"))
		w.Pad(4)
		for _, b := range m.List("body") {
			if err := encodeMPReplyRecord(w, b); err != nil {
				return err
			}
		}
	case "nx_set_controller_id", "nx_tlv_table_mod", "nx_tlv_table_request", "nx_tlv_table_reply", "bundle_control", "bundle_add":
		vc := vendorCode[m.K]
		w.U32(vc[0])
		w.U32(vc[1])
		switch m.K {
		case "nx_set_controller_id":
			w.Pad(6)
			w.U16(m.U16("id"))
		case "nx_tlv_table_mod":
			w.U16(m.U16("command"))
			w.Pad(6)
			encodeTLVMaps(w, m.List("maps"))
		case "nx_tlv_table_request":
		case "nx_tlv_table_reply":
			w.U32(m.U32("max_space"))
			w.U16(m.U16("max_fields"))
			w.Pad(10)
			encodeTLVMaps(w, m.List("maps"))
		case "bundle_control":
			w.U32(m.U32("bundle_id"))
			w.U16(m.U16("type"))
			w.U16(m.U16("flags"))
		case "bundle_add":
			w.U32(m.U32("bundle_id"))
			w.Pad(2)
			w.U16(m.U16("flags"))
			inner, err := EncodeMessage(m.Sub("message"))
			if err != nil {
				return err
			}
			w.Raw(inner)
			// ONF bundle properties (ofp_bundle_prop_experimenter): type, length (excluding padding), body, pad to 8
			for _, p := range m.List("properties") {
				start := w.Len()
				body := p.Bytes("body")
				w.U16(p.U16("type"))
				w.U16(uint16(4 + len(body)))
				w.Raw(body)
				w.PadTo8From(start)
			}
		}
	default:
		return fmt.Errorf("spec: no body encoder for %q", m.K)
	}
	return nil
}

func encodePayload(w *W, m *rec.Rec) error {
	if p := m.Sub("packet"); p != nil {
		b, err := EncodePacket(p)
		if err != nil {
			return err
		}
		w.Raw(b)
		return nil
	}
	w.Raw(m.Bytes("data"))
	return nil
}

func encodeTLVMaps(w *W, maps []*rec.Rec) {
	for _, t := range maps {
		w.U16(t.U16("opt_class"))
		w.U8(t.U8("opt_type"))
		w.U8(t.U8("opt_len"))
		w.U16(t.U16("index"))
		w.Pad(2)
	}
}

func encodePort(w *W, p *rec.Rec) {
	w.U32(p.U32("port_no"))
	w.Pad(4)
	w.Fixed(p.Bytes("hw_addr"), 6)
	w.Pad(2)
	w.Fixed(p.Bytes("name"), 16)
	for _, f := range []string{"config", "state", "curr", "advertised", "supported", "peer", "curr_speed", "max_speed"} {
		w.U32(p.U32(f))
	}
}

// EncodeMatch / EncodeMatchField / EncodeAction / EncodeInstruction / EncodeBucket are exported for element-level checks.
func EncodeMatch(m *rec.Rec) []byte { w := &W{}; encodeMatch(w, m); return w.Bytes() }
func EncodeMatchField(f *rec.Rec) []byte {
	w := &W{}
	encodeMatchField(w, f)
	return w.Bytes()
}
func EncodeAction(a *rec.Rec) ([]byte, error) {
	w := &W{}
	err := encodeAction(w, a)
	return w.Bytes(), err
}
func EncodeInstruction(a *rec.Rec) ([]byte, error) {
	w := &W{}
	err := encodeInstruction(w, a)
	return w.Bytes(), err
}
func EncodeBucket(a *rec.Rec) ([]byte, error) {
	w := &W{}
	err := encodeBucket(w, a)
	return w.Bytes(), err
}

func encodeMatch(w *W, m *rec.Rec) {
	start := w.Len()
	w.U16(1)
	at := w.Len()
	w.U16(0)
	for _, f := range m.List("fields") {
		encodeMatchField(w, f)
	}
	w.SetU16(at, uint16(w.Len()-start))
	w.PadTo8From(start)
}

func encodeMatchField(w *W, f *rec.Rec) {
	v, m := f.Bytes("value"), f.Bytes("mask")
	w.U16(f.U16("class"))
	hm := uint8(0)
	if f.Bool("hasmask") {
		hm = 1
	}
	w.U8(f.U8("field")<<1 | hm)
	n := len(v)
	if f.Bool("hasmask") {
		n += len(m)
	}
	if f.U16("class") == ClassExp { // experimenter id follows the header and counts in the length
		w.U8(uint8(n + 4))
		w.U32(f.U32("experimenter"))
	} else {
		w.U8(uint8(n))
	}
	w.Raw(v)
	if f.Bool("hasmask") {
		w.Raw(m)
	}
}

func encodeActions(w *W, as []*rec.Rec) error {
	for _, a := range as {
		if err := encodeAction(w, a); err != nil {
			return err
		}
	}
	return nil
}

// Standard action type codes (ofp_action_type) and Nicira subtypes (nicira-ext.h).
var ActionType = map[string]uint16{
	"output": 0, "copy_ttl_out": 11, "copy_ttl_in": 12, "set_mpls_ttl": 15, "dec_mpls_ttl": 16, "push_vlan": 17,
	"pop_vlan": 18, "push_mpls": 19, "pop_mpls": 20, "set_queue": 21, "group": 22, "set_nw_ttl": 23, "dec_nw_ttl": 24,
	"set_field": 25, "push_pbb": 26, "pop_pbb": 27,
}
var NXSubtype = map[string]uint16{
	"nx_resubmit": 1, "nx_reg_move": 6, "nx_reg_load": 7, "nx_note": 8, "nx_resubmit_table": 14, "nx_output_reg": 15,
	"nx_learn": 16, "nx_dec_ttl": 18, "nx_controller": 20, "nx_dec_ttl_cnt_ids": 21, "nx_reg_load2": 33,
	"nx_conjunction": 34, "nx_ct": 35, "nx_nat": 36, "nx_ct_clear": 43, "nx_ct_resubmit": 44,
}

func encodeAction(w *W, a *rec.Rec) error {
	start := w.Len()
	if t, ok := ActionType[a.K]; ok {
		w.U16(t)
		at := w.Len()
		w.U16(8)
		switch a.K {
		case "output":
			w.U32(a.U32("port"))
			w.U16(a.U16("max_len"))
			w.Pad(6)
		case "copy_ttl_out", "copy_ttl_in", "dec_mpls_ttl", "pop_vlan", "dec_nw_ttl", "pop_pbb":
			w.Pad(4)
		case "set_mpls_ttl", "set_nw_ttl":
			w.U8(a.U8("ttl"))
			w.Pad(3)
		case "push_vlan", "push_mpls", "push_pbb", "pop_mpls":
			w.U16(a.U16("ethertype"))
			w.Pad(2)
		case "set_queue":
			w.U32(a.U32("queue_id"))
		case "group":
			w.U32(a.U32("group_id"))
		case "set_field":
			encodeMatchField(w, a.Sub("field"))
			w.PadTo8From(start)
		}
		w.SetU16(at, uint16(w.Len()-start))
		return nil
	}
	st, ok := NXSubtype[a.K]
	if !ok {
		return fmt.Errorf("spec: unknown action kind %q", a.K)
	}
	w.U16(0xffff)
	at := w.Len()
	w.U16(0)
	w.U32(NXVendor)
	w.U16(st)
	switch a.K {
	case "nx_resubmit":
		w.U16(a.U16("in_port"))
		w.U8(0)
		w.Pad(3)
	case "nx_resubmit_table", "nx_ct_resubmit":
		w.U16(a.U16("in_port"))
		w.U8(a.U8("table"))
		w.Pad(3)
	case "nx_reg_move":
		w.U16(a.U16("n_bits"))
		w.U16(a.U16("src_ofs"))
		w.U16(a.U16("dst_ofs"))
		w.U32(a.U32("src"))
		w.U32(a.U32("dst"))
	case "nx_reg_load":
		w.U16(a.U16("ofs_nbits"))
		w.U32(a.U32("dst"))
		w.U64(a.U("value"))
	case "nx_note":
		w.Raw(a.Bytes("note"))
		w.PadTo8From(start)
	case "nx_output_reg":
		w.U16(a.U16("ofs_nbits"))
		w.U32(a.U32("src"))
		w.U16(a.U16("max_len"))
		w.Pad(6)
	case "nx_learn":
		w.U16(a.U16("idle_timeout"))
		w.U16(a.U16("hard_timeout"))
		w.U16(a.U16("priority"))
		w.U64(a.U("cookie"))
		w.U16(a.U16("flags"))
		w.U8(a.U8("table_id"))
		w.Pad(1)
		w.U16(a.U16("fin_idle_timeout"))
		w.U16(a.U16("fin_hard_timeout"))
		for _, s := range a.List("specs") {
			if err := encodeLearnSpec(w, s); err != nil {
				return err
			}
		}
		w.PadTo8From(start)
	case "nx_dec_ttl", "nx_ct_clear":
		w.Pad(6)
	case "nx_dec_ttl_cnt_ids":
		w.U16(a.U16("n_controllers"))
		w.Pad(4)
		w.Raw(a.Bytes("ids"))
		w.PadTo8From(start)
	case "nx_controller":
		w.U16(a.U16("max_len"))
		w.U16(a.U16("controller_id"))
		w.U8(a.U8("reason"))
		w.Pad(1)
	case "nx_reg_load2":
		encodeMatchField(w, a.Sub("field"))
		w.PadTo8From(start)
	case "nx_conjunction":
		w.U8(a.U8("clause"))
		w.U8(a.U8("n_clauses"))
		w.U32(a.U32("id"))
	case "nx_ct":
		w.U16(a.U16("flags"))
		w.U32(a.U32("zone_src"))
		w.U16(a.U16("zone_ofs_nbits"))
		w.U8(a.U8("recirc_table"))
		w.Pad(3)
		w.U16(a.U16("alg"))
		if err := encodeActions(w, a.List("actions")); err != nil {
			return err
		}
	case "nx_nat":
		w.Pad(2)
		w.U16(a.U16("flags"))
		rp := a.U16("range_present")
		w.U16(rp)
		if rp&1 != 0 {
			w.Fixed(a.Bytes("ipv4_min"), 4)
		}
		if rp&2 != 0 {
			w.Fixed(a.Bytes("ipv4_max"), 4)
		}
		if rp&4 != 0 {
			w.Fixed(a.Bytes("ipv6_min"), 16)
		}
		if rp&8 != 0 {
			w.Fixed(a.Bytes("ipv6_max"), 16)
		}
		if rp&16 != 0 {
			w.U16(a.U16("proto_min"))
		}
		if rp&32 != 0 {
			w.U16(a.U16("proto_max"))
		}
		w.PadTo8From(start)
	}
	w.SetU16(at, uint16(w.Len()-start))
	return nil
}

// LearnSpecHeader computes the 16-bit learn spec header (nicira-ext.h NX_LEARN_*).
func LearnSpecHeader(kind string, nBits uint16) (uint16, error) {
	var src, dst uint16
	switch kind {
	case "match_field":
		src, dst = 0, 0
	case "match_value":
		src, dst = 1, 0
	case "load_field":
		src, dst = 0, 1
	case "load_value":
		src, dst = 1, 1
	case "output_field":
		src, dst = 0, 2
	default:
		return 0, fmt.Errorf("spec: learn spec kind %q", kind)
	}
	return src<<13 | dst<<11 | (nBits & 0x3ff), nil
}

func encodeLearnSpec(w *W, s *rec.Rec) error {
	kind := s.Text("kind")
	n := s.U16("n_bits")
	h, err := LearnSpecHeader(kind, n)
	if err != nil {
		return err
	}
	w.U16(h)
	switch kind {
	case "match_value", "load_value":
		w.Fixed(s.Bytes("value"), 2*int((n+15)/16))
	default:
		w.U32(s.U32("src"))
		w.U16(s.U16("src_ofs"))
	}
	if kind != "output_field" {
		w.U32(s.U32("dst"))
		w.U16(s.U16("dst_ofs"))
	}
	return nil
}

var InstrType = map[string]uint16{"goto_table": 1, "write_metadata": 2, "write_actions": 3, "apply_actions": 4, "clear_actions": 5, "meter": 6}

func encodeInstruction(w *W, in *rec.Rec) error {
	t, ok := InstrType[in.K]
	if !ok {
		return fmt.Errorf("spec: unknown instruction kind %q", in.K)
	}
	start := w.Len()
	w.U16(t)
	at := w.Len()
	w.U16(0)
	switch in.K {
	case "goto_table":
		w.U8(in.U8("table_id"))
		w.Pad(3)
	case "write_metadata":
		w.Pad(4)
		w.U64(in.U("metadata"))
		w.U64(in.U("mask"))
	case "write_actions", "apply_actions":
		w.Pad(4)
		if err := encodeActions(w, in.List("actions")); err != nil {
			return err
		}
	case "clear_actions":
		w.Pad(4)
	case "meter":
		w.U32(in.U32("meter_id"))
	}
	w.SetU16(at, uint16(w.Len()-start))
	return nil
}

func encodeBucket(w *W, b *rec.Rec) error {
	start := w.Len()
	w.U16(0)
	w.U16(b.U16("weight"))
	w.U32(b.U32("watch_port"))
	w.U32(b.U32("watch_group"))
	w.Pad(4)
	if err := encodeActions(w, b.List("actions")); err != nil {
		return err
	}
	w.SetU16(start, uint16(w.Len()-start))
	return nil
}

func encodeFlowStatsRequestBody(w *W, b *rec.Rec) {
	w.U8(b.U8("table_id"))
	w.Pad(3)
	w.U32(b.U32("out_port"))
	w.U32(b.U32("out_group"))
	w.Pad(4)
	w.U64(b.U("cookie"))
	w.U64(b.U("cookie_mask"))
	encodeMatch(w, b.Sub("match"))
}

func encodeMPRequestBody(w *W, b *rec.Rec) error {
	switch b.K {
	case "flow_stats_request", "aggregate_stats_request":
		encodeFlowStatsRequestBody(w, b)
	case "port_stats_request":
		w.U32(b.U32("port_no"))
		w.Pad(4)
	case "queue_stats_request":
		w.U32(b.U32("port_no"))
		w.U32(b.U32("queue_id"))
	case "empty":
	default:
		return fmt.Errorf("spec: multipart request body %q", b.K)
	}
	return nil
}

// EncodeMPRequestBody / EncodeMPReplyRecord for element-level checks.
func EncodeMPRequestBody(b *rec.Rec) ([]byte, error) {
	w := &W{}
	err := encodeMPRequestBody(w, b)
	return w.Bytes(), err
}
func EncodeMPReplyRecord(b *rec.Rec) ([]byte, error) {
	w := &W{}
	err := encodeMPReplyRecord(w, b)
	return w.Bytes(), err
}

var PortStatsCounters = []string{"rx_packets", "tx_packets", "rx_bytes", "tx_bytes", "rx_dropped", "tx_dropped", "rx_errors", "tx_errors", "rx_frame_err", "rx_over_err", "rx_crc_err", "collisions"}

func encodeMPReplyRecord(w *W, b *rec.Rec) error {
	switch b.K {
	case "desc_stats":
		w.Fixed(b.Bytes("mfr_desc"), 256)
		w.Fixed(b.Bytes("hw_desc"), 256)
		w.Fixed(b.Bytes("sw_desc"), 256)
		w.Fixed(b.Bytes("serial_num"), 32)
		w.Fixed(b.Bytes("dp_desc"), 256)
	case "flow_stats":
		start := w.Len()
		w.U16(0)
		w.U8(b.U8("table_id"))
		w.Pad(1)
		w.U32(b.U32("duration_sec"))
		w.U32(b.U32("duration_nsec"))
		w.U16(b.U16("priority"))
		w.U16(b.U16("idle_timeout"))
		w.U16(b.U16("hard_timeout"))
		w.U16(b.U16("flags"))
		w.Pad(4)
		w.U64(b.U("cookie"))
		w.U64(b.U("packet_count"))
		w.U64(b.U("byte_count"))
		encodeMatch(w, b.Sub("match"))
		for _, in := range b.List("instructions") {
			if err := encodeInstruction(w, in); err != nil {
				return err
			}
		}
		w.SetU16(start, uint16(w.Len()-start))
	case "aggregate_stats":
		w.U64(b.U("packet_count"))
		w.U64(b.U("byte_count"))
		w.U32(b.U32("flow_count"))
		w.Pad(4)
	case "table_stats":
		w.U8(b.U8("table_id"))
		w.Pad(3)
		w.U32(b.U32("active_count"))
		w.U64(b.U("lookup_count"))
		w.U64(b.U("matched_count"))
	case "port_stats":
		w.U32(b.U32("port_no"))
		w.Pad(4)
		for _, f := range PortStatsCounters {
			w.U64(b.U(f))
		}
		w.U32(b.U32("duration_sec"))
		w.U32(b.U32("duration_nsec"))
	case "queue_stats":
		w.U32(b.U32("port_no"))
		w.U32(b.U32("queue_id"))
		w.U64(b.U("tx_bytes"))
		w.U64(b.U("tx_packets"))
		w.U64(b.U("tx_errors"))
		w.U32(b.U32("duration_sec"))
		w.U32(b.U32("duration_nsec"))
	case "port":
		encodePort(w, b)
	default:
		return fmt.Errorf("spec: multipart reply record %q", b.K)
	}
	return nil
}

// HeaderWord is the 32-bit NXM/OXM header: class<<16 | field<<9 | hasmask<<8 | length.
func HeaderWord(class uint16, field uint8, hasMask bool, length uint8) uint32 {
	w := uint32(class)<<16 | uint32(field&0x7f)<<9 | uint32(length)
	if hasMask {
		w |= 1 << 8
	}
	return w
}

// OfsNbits is ofs<<6 | (nbits-1).
func OfsNbits(ofs, nbits int) uint16 { return uint16(ofs<<6 | (nbits - 1)) }
