// Package spec is the independent reference model of the wire formats. It is written from the OpenFlow 1.3.5
// specification, OVS nicira-ext.h / meta-flow.h and the packet RFCs (see /verif/SPEC_NOTES.md), never from the
// library's code.
package spec

import "fmt"

type OXMField struct {
	Class    uint16
	Field    uint8
	Name     string // OVS name: NXM_OF_*, NXM_NX_*, OXM_OF_*
	Width    int    // payload bytes (value); 0 = variable (tunnel metadata, 1..124)
	Maskable bool
}

const (
	ClassNXM0  = 0x0000
	ClassNXM1  = 0x0001
	ClassBasic = 0x8000
	ClassExp   = 0xffff
)

// OXMTable is transcribed from SPEC_NOTES.md section D.
var OXMTable = []OXMField{
	// OXM_OF (class 0x8000), OpenFlow 1.3.5 section 7.2.3.7 (+ 41..43 from later versions, accepted)
	{ClassBasic, 0, "OXM_OF_IN_PORT", 4, false},
	{ClassBasic, 1, "OXM_OF_IN_PHY_PORT", 4, false},
	{ClassBasic, 2, "OXM_OF_METADATA", 8, true},
	{ClassBasic, 3, "OXM_OF_ETH_DST", 6, true},
	{ClassBasic, 4, "OXM_OF_ETH_SRC", 6, true},
	{ClassBasic, 5, "OXM_OF_ETH_TYPE", 2, false},
	{ClassBasic, 6, "OXM_OF_VLAN_VID", 2, true},
	{ClassBasic, 7, "OXM_OF_VLAN_PCP", 1, false},
	{ClassBasic, 8, "OXM_OF_IP_DSCP", 1, false},
	{ClassBasic, 9, "OXM_OF_IP_ECN", 1, false},
	{ClassBasic, 10, "OXM_OF_IP_PROTO", 1, false},
	{ClassBasic, 11, "OXM_OF_IPV4_SRC", 4, true},
	{ClassBasic, 12, "OXM_OF_IPV4_DST", 4, true},
	{ClassBasic, 13, "OXM_OF_TCP_SRC", 2, false},
	{ClassBasic, 14, "OXM_OF_TCP_DST", 2, false},
	{ClassBasic, 15, "OXM_OF_UDP_SRC", 2, false},
	{ClassBasic, 16, "OXM_OF_UDP_DST", 2, false},
	{ClassBasic, 17, "OXM_OF_SCTP_SRC", 2, false},
	{ClassBasic, 18, "OXM_OF_SCTP_DST", 2, false},
	{ClassBasic, 19, "OXM_OF_ICMPV4_TYPE", 1, false},
	{ClassBasic, 20, "OXM_OF_ICMPV4_CODE", 1, false},
	{ClassBasic, 21, "OXM_OF_ARP_OP", 2, false},
	{ClassBasic, 22, "OXM_OF_ARP_SPA", 4, true},
	{ClassBasic, 23, "OXM_OF_ARP_TPA", 4, true},
	{ClassBasic, 24, "OXM_OF_ARP_SHA", 6, true},
	{ClassBasic, 25, "OXM_OF_ARP_THA", 6, true},
	{ClassBasic, 26, "OXM_OF_IPV6_SRC", 16, true},
	{ClassBasic, 27, "OXM_OF_IPV6_DST", 16, true},
	{ClassBasic, 28, "OXM_OF_IPV6_FLABEL", 4, true},
	{ClassBasic, 29, "OXM_OF_ICMPV6_TYPE", 1, false},
	{ClassBasic, 30, "OXM_OF_ICMPV6_CODE", 1, false},
	{ClassBasic, 31, "OXM_OF_IPV6_ND_TARGET", 16, false},
	{ClassBasic, 32, "OXM_OF_IPV6_ND_SLL", 6, false},
	{ClassBasic, 33, "OXM_OF_IPV6_ND_TLL", 6, false},
	{ClassBasic, 34, "OXM_OF_MPLS_LABEL", 4, false},
	{ClassBasic, 35, "OXM_OF_MPLS_TC", 1, false},
	{ClassBasic, 36, "OXM_OF_MPLS_BOS", 1, false},
	{ClassBasic, 37, "OXM_OF_PBB_ISID", 3, true},
	{ClassBasic, 38, "OXM_OF_TUNNEL_ID", 8, true},
	{ClassBasic, 39, "OXM_OF_IPV6_EXTHDR", 2, true},
	{ClassBasic, 41, "OXM_OF_PBB_UCA", 1, false},
	{ClassBasic, 42, "OXM_OF_TCP_FLAGS", 2, true},
	{ClassBasic, 43, "OXM_OF_ACTSET_OUTPUT", 4, false},

	// NXM_OF (class 0)
	{ClassNXM0, 0, "NXM_OF_IN_PORT", 2, false},
	{ClassNXM0, 1, "NXM_OF_ETH_DST", 6, true},
	{ClassNXM0, 2, "NXM_OF_ETH_SRC", 6, true},
	{ClassNXM0, 3, "NXM_OF_ETH_TYPE", 2, false},
	{ClassNXM0, 4, "NXM_OF_VLAN_TCI", 2, true},
	{ClassNXM0, 5, "NXM_OF_IP_TOS", 1, false},
	{ClassNXM0, 6, "NXM_OF_IP_PROTO", 1, false},
	{ClassNXM0, 7, "NXM_OF_IP_SRC", 4, true},
	{ClassNXM0, 8, "NXM_OF_IP_DST", 4, true},
	{ClassNXM0, 9, "NXM_OF_TCP_SRC", 2, true},
	{ClassNXM0, 10, "NXM_OF_TCP_DST", 2, true},
	{ClassNXM0, 11, "NXM_OF_UDP_SRC", 2, true},
	{ClassNXM0, 12, "NXM_OF_UDP_DST", 2, true},
	{ClassNXM0, 13, "NXM_OF_ICMP_TYPE", 1, false},
	{ClassNXM0, 14, "NXM_OF_ICMP_CODE", 1, false},
	{ClassNXM0, 15, "NXM_OF_ARP_OP", 2, false},
	{ClassNXM0, 16, "NXM_OF_ARP_SPA", 4, true},
	{ClassNXM0, 17, "NXM_OF_ARP_TPA", 4, true},

	// NXM_NX (class 1)
	{ClassNXM1, 0, "NXM_NX_REG0", 4, true}, {ClassNXM1, 1, "NXM_NX_REG1", 4, true},
	{ClassNXM1, 2, "NXM_NX_REG2", 4, true}, {ClassNXM1, 3, "NXM_NX_REG3", 4, true},
	{ClassNXM1, 4, "NXM_NX_REG4", 4, true}, {ClassNXM1, 5, "NXM_NX_REG5", 4, true},
	{ClassNXM1, 6, "NXM_NX_REG6", 4, true}, {ClassNXM1, 7, "NXM_NX_REG7", 4, true},
	{ClassNXM1, 8, "NXM_NX_REG8", 4, true}, {ClassNXM1, 9, "NXM_NX_REG9", 4, true},
	{ClassNXM1, 10, "NXM_NX_REG10", 4, true}, {ClassNXM1, 11, "NXM_NX_REG11", 4, true},
	{ClassNXM1, 12, "NXM_NX_REG12", 4, true}, {ClassNXM1, 13, "NXM_NX_REG13", 4, true},
	{ClassNXM1, 14, "NXM_NX_REG14", 4, true}, {ClassNXM1, 15, "NXM_NX_REG15", 4, true},
	{ClassNXM1, 16, "NXM_NX_TUN_ID", 8, true},
	{ClassNXM1, 17, "NXM_NX_ARP_SHA", 6, true},
	{ClassNXM1, 18, "NXM_NX_ARP_THA", 6, true},
	{ClassNXM1, 19, "NXM_NX_IPV6_SRC", 16, true},
	{ClassNXM1, 20, "NXM_NX_IPV6_DST", 16, true},
	{ClassNXM1, 21, "NXM_NX_ICMPV6_TYPE", 1, false},
	{ClassNXM1, 22, "NXM_NX_ICMPV6_CODE", 1, false},
	{ClassNXM1, 23, "NXM_NX_ND_TARGET", 16, true},
	{ClassNXM1, 24, "NXM_NX_ND_SLL", 6, true},
	{ClassNXM1, 25, "NXM_NX_ND_TLL", 6, true},
	{ClassNXM1, 26, "NXM_NX_IP_FRAG", 1, true},
	{ClassNXM1, 27, "NXM_NX_IPV6_LABEL", 4, true},
	{ClassNXM1, 28, "NXM_NX_IP_ECN", 1, false},
	{ClassNXM1, 29, "NXM_NX_IP_TTL", 1, false},
	{ClassNXM1, 30, "NXM_NX_MPLS_TTL", 1, false},
	{ClassNXM1, 31, "NXM_NX_TUN_IPV4_SRC", 4, true},
	{ClassNXM1, 32, "NXM_NX_TUN_IPV4_DST", 4, true},
	{ClassNXM1, 33, "NXM_NX_PKT_MARK", 4, true},
	{ClassNXM1, 34, "NXM_NX_TCP_FLAGS", 2, true},
	{ClassNXM1, 35, "NXM_NX_DP_HASH", 4, true},
	{ClassNXM1, 36, "NXM_NX_RECIRC_ID", 4, false},
	{ClassNXM1, 37, "NXM_NX_CONJ_ID", 4, false},
	{ClassNXM1, 38, "NXM_NX_TUN_GBP_ID", 2, true},
	{ClassNXM1, 39, "NXM_NX_TUN_GBP_FLAGS", 1, true},
	{ClassNXM1, 40, "NXM_NX_TUN_METADATA0", 0, true}, {ClassNXM1, 41, "NXM_NX_TUN_METADATA1", 0, true},
	{ClassNXM1, 42, "NXM_NX_TUN_METADATA2", 0, true}, {ClassNXM1, 43, "NXM_NX_TUN_METADATA3", 0, true},
	{ClassNXM1, 44, "NXM_NX_TUN_METADATA4", 0, true}, {ClassNXM1, 45, "NXM_NX_TUN_METADATA5", 0, true},
	{ClassNXM1, 46, "NXM_NX_TUN_METADATA6", 0, true}, {ClassNXM1, 47, "NXM_NX_TUN_METADATA7", 0, true},
	{ClassNXM1, 104, "NXM_NX_TUN_FLAGS", 2, true},
	{ClassNXM1, 105, "NXM_NX_CT_STATE", 4, true},
	{ClassNXM1, 106, "NXM_NX_CT_ZONE", 2, false},
	{ClassNXM1, 107, "NXM_NX_CT_MARK", 4, true},
	{ClassNXM1, 108, "NXM_NX_CT_LABEL", 16, true},
	{ClassNXM1, 109, "NXM_NX_TUN_IPV6_SRC", 16, true},
	{ClassNXM1, 110, "NXM_NX_TUN_IPV6_DST", 16, true},
	{ClassNXM1, 111, "NXM_NX_XXREG0", 16, true}, {ClassNXM1, 112, "NXM_NX_XXREG1", 16, true},
	{ClassNXM1, 113, "NXM_NX_XXREG2", 16, true}, {ClassNXM1, 114, "NXM_NX_XXREG3", 16, true},
	{ClassNXM1, 119, "NXM_NX_CT_NW_PROTO", 1, false},
	{ClassNXM1, 120, "NXM_NX_CT_NW_SRC", 4, true},
	{ClassNXM1, 121, "NXM_NX_CT_NW_DST", 4, true},
	{ClassNXM1, 122, "NXM_NX_CT_IPV6_SRC", 16, true},
	{ClassNXM1, 123, "NXM_NX_CT_IPV6_DST", 16, true},
	{ClassNXM1, 124, "NXM_NX_CT_TP_SRC", 2, true},
	{ClassNXM1, 125, "NXM_NX_CT_TP_DST", 2, true},
	// ONF experimenter class (0xffff, experimenter id 0x4f4e4600 after the OXM header; ONF extensions EXT-109 / EXT-233):
	// what an OpenFlow 1.3 switch sends for TCP flags and action-set output
	{ClassExp, 42, "ONFOXM_ET_TCP_FLAGS", 2, true},
	{ClassExp, 43, "ONFOXM_ET_ACTSET_OUTPUT", 4, false},
}

// TunMetadataMaxWidth is the largest tunnel-metadata payload OVS defines (be124).
const TunMetadataMaxWidth = 124

var oxmByName = map[string]*OXMField{}
var oxmByCode = map[uint32]*OXMField{}

func init() {
	for i := range OXMTable {
		f := &OXMTable[i]
		if oxmByName[f.Name] != nil {
			panic("duplicate name " + f.Name)
		}
		oxmByName[f.Name] = f
		k := uint32(f.Class)<<8 | uint32(f.Field)
		if oxmByCode[k] != nil {
			panic(fmt.Sprintf("duplicate code %x", k))
		}
		oxmByCode[k] = f
	}
}

func OXMByName(name string) *OXMField { return oxmByName[name] }

func OXMByCode(class uint16, field uint8) *OXMField {
	return oxmByCode[uint32(class)<<8|uint32(field)]
}
