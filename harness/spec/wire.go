package spec

import (
	"encoding/binary"
	"fmt"
)

// W is a big-endian byte writer.
type W struct{ b []byte }

func (w *W) U8(v uint8)   { w.b = append(w.b, v) }
func (w *W) U16(v uint16) { w.b = binary.BigEndian.AppendUint16(w.b, v) }
func (w *W) U32(v uint32) { w.b = binary.BigEndian.AppendUint32(w.b, v) }
func (w *W) U64(v uint64) { w.b = binary.BigEndian.AppendUint64(w.b, v) }
func (w *W) Raw(b []byte) { w.b = append(w.b, b...) }
func (w *W) Pad(n int) {
	for i := 0; i < n; i++ {
		w.b = append(w.b, 0)
	}
}

// Fixed writes b into exactly n bytes (zero padded or truncated).
func (w *W) Fixed(b []byte, n int) {
	if len(b) >= n {
		w.b = append(w.b, b[:n]...)
		return
	}
	w.b = append(w.b, b...)
	w.Pad(n - len(b))
}

// PadTo8From pads with zeros so that the bytes written since position start are a multiple of 8.
func (w *W) PadTo8From(start int) {
	for (len(w.b)-start)%8 != 0 {
		w.b = append(w.b, 0)
	}
}
func (w *W) Len() int      { return len(w.b) }
func (w *W) Bytes() []byte { return w.b }
func (w *W) SetU16(at int, v uint16) {
	binary.BigEndian.PutUint16(w.b[at:], v)
}

// Err is a grammar error of the strict walker: Rule names the violated rule (stable, used as violation locus).
type Err struct {
	Rule string
	Msg  string
}

func (e *Err) Error() string { return e.Rule + ": " + e.Msg }

func errf(rule, format string, a ...any) *Err {
	return &Err{Rule: rule, Msg: fmt.Sprintf(format, a...)}
}

// R is a bounds-checked big-endian reader; the first failure sticks.
type R struct {
	b   []byte
	off int
	err *Err
	ctx string
}

func NewR(b []byte, ctx string) *R { return &R{b: b, ctx: ctx} }

func (r *R) fail(n int) {
	if r.err == nil {
		r.err = errf(r.ctx+".truncated", "need %d bytes at offset %d, have %d", n, r.off, len(r.b)-r.off)
	}
}
func (r *R) Left() int { return len(r.b) - r.off }
func (r *R) U8() uint8 {
	if r.err != nil || r.Left() < 1 {
		r.fail(1)
		return 0
	}
	v := r.b[r.off]
	r.off++
	return v
}
func (r *R) U16() uint16 {
	if r.err != nil || r.Left() < 2 {
		r.fail(2)
		return 0
	}
	v := binary.BigEndian.Uint16(r.b[r.off:])
	r.off += 2
	return v
}
func (r *R) U32() uint32 {
	if r.err != nil || r.Left() < 4 {
		r.fail(4)
		return 0
	}
	v := binary.BigEndian.Uint32(r.b[r.off:])
	r.off += 4
	return v
}
func (r *R) U64() uint64 {
	if r.err != nil || r.Left() < 8 {
		r.fail(8)
		return 0
	}
	v := binary.BigEndian.Uint64(r.b[r.off:])
	r.off += 8
	return v
}
func (r *R) Raw(n int) []byte {
	if r.err != nil || n < 0 || r.Left() < n {
		r.fail(n)
		return nil
	}
	v := r.b[r.off : r.off+n]
	r.off += n
	return v
}
func (r *R) Rest() []byte { return r.Raw(r.Left()) }

// Zero consumes n bytes that must be zero (padding).
func (r *R) Zero(n int, what string) {
	b := r.Raw(n)
	if r.err != nil {
		return
	}
	for _, c := range b {
		if c != 0 {
			r.err = errf(r.ctx+".pad-nonzero", "%s: padding bytes %x are not zero", what, b)
			return
		}
	}
}
func (r *R) Err() error {
	if r.err == nil {
		return nil
	}
	return r.err
}
func (r *R) SetErr(e *Err) {
	if r.err == nil {
		r.err = e
	}
}
