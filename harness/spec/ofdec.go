package spec

import (
	"encoding/binary"
	"fmt"

	"vh/rec"
)

// The strict, length-driven walker/decoder: written from the specifications. It verifies every declared length,
// alignment, zero padding and code, and returns the element tree in the same shape as the recipes.

var msgKindByType = map[uint8]string{
	0: "hello", 1: "error", 2: "echo_request", 3: "echo_reply", 4: "experimenter", 5: "features_request", 6: "features_reply",
	7: "get_config_request", 8: "get_config_reply", 9: "set_config", 10: "packet_in", 11: "flow_removed", 12: "port_status",
	13: "packet_out", 14: "flow_mod", 15: "group_mod", 16: "port_mod", 18: "mp_request", 19: "mp_reply",
	20: "barrier_request", 21: "barrier_reply",
}

// DecodeMessage walks one complete message (len(b) must equal the header length).
func DecodeMessage(b []byte) (m *rec.Rec, err error) {
	defer func() {
		if p := recover(); p != nil {
			m, err = nil, errf("walker.internal", "%v", p)
		}
	}()
	if len(b) < 8 {
		return nil, errf("header.truncated", "%d bytes", len(b))
	}
	if b[0] != 4 {
		return nil, errf("header.version", "version %d, want 4", b[0])
	}
	kind, ok := msgKindByType[b[1]]
	if !ok {
		return nil, errf("header.type", "type code %d is not an OpenFlow 1.3 message this model knows", b[1])
	}
	if l := int(binary.BigEndian.Uint16(b[2:4])); l != len(b) {
		return nil, errf("header.length", "header length %d, message has %d bytes", l, len(b))
	}
	r := NewR(b[8:], kind)
	m = rec.New(kind)
	m.Set("xid", uint64(binary.BigEndian.Uint32(b[4:8])))
	if e := decodeBody(r, m); e != nil {
		return nil, e
	}
	if r.Err() != nil {
		return nil, r.Err()
	}
	if r.Left() != 0 {
		return nil, errf(kind+".trailing", "%d bytes after the end of the body", r.Left())
	}
	return m, nil
}

func decodeBody(r *R, m *rec.Rec) error {
	switch m.K {
	case "hello":
		m.SetL("elements", nil)
		for r.Left() > 0 && r.Err() == nil {
			if r.Left() < 4 {
				return errf("hello.element-truncated", "%d bytes left", r.Left())
			}
			t := r.U16()
			l := int(r.U16())
			if l < 4 {
				return errf("hello.element-length", "element length %d < 4", l)
			}
			body := r.Raw(l - 4)
			if r.Err() != nil {
				return errf("hello.element-length", "element length %d exceeds the message", l)
			}
			pad := (8 - l%8) % 8
			if r.Left() < pad {
				return errf("hello.element-padding", "element of length %d is not padded to 8 bytes", l)
			}
			r.Zero(pad, "hello element")
			switch t {
			case 1:
				if len(body)%4 != 0 {
					return errf("hello.bitmap-length", "bitmap bytes %d not a multiple of 4", len(body))
				}
				m.Add("elements", rec.New("hello_versionbitmap").SetB("bitmaps", body))
			default:
				return errf("hello.element-type", "hello element type %d is not defined by OpenFlow 1.3", t)
			}
		}
	case "error":
		t := r.U16()
		if t == 0xffff {
			m.K = "exp_error"
			m.Set("exp_type", uint64(r.U16()))
			m.Set("experimenter", uint64(r.U32()))
			m.SetB("data", r.Rest())
			return nil
		}
		m.Set("type", uint64(t))
		m.Set("code", uint64(r.U16()))
		m.SetB("data", r.Rest())
	case "echo_request", "echo_reply":
		if d := r.Rest(); len(d) > 0 {
			m.SetB("data", d)
		}
	case "features_request", "get_config_request", "barrier_request", "barrier_reply":
	case "features_reply":
		m.Set("datapath_id", r.U64())
		m.Set("n_buffers", uint64(r.U32()))
		m.Set("n_tables", uint64(r.U8()))
		m.Set("auxiliary_id", uint64(r.U8()))
		r.Zero(2, "features pad")
		m.Set("capabilities", uint64(r.U32()))
		m.Set("reserved", uint64(r.U32()))
	case "get_config_reply", "set_config":
		m.Set("flags", uint64(r.U16()))
		m.Set("miss_send_len", uint64(r.U16()))
	case "packet_in":
		m.Set("buffer_id", uint64(r.U32()))
		m.Set("total_len", uint64(r.U16()))
		m.Set("reason", uint64(r.U8()))
		m.Set("table_id", uint64(r.U8()))
		m.Set("cookie", r.U64())
		mt, e := decodeMatch(r)
		if e != nil {
			return e
		}
		m.SetS("match", mt)
		r.Zero(2, "packet-in pad")
		m.SetB("data", r.Rest())
	case "flow_removed":
		m.Set("cookie", r.U64())
		m.Set("priority", uint64(r.U16()))
		m.Set("reason", uint64(r.U8()))
		m.Set("table_id", uint64(r.U8()))
		m.Set("duration_sec", uint64(r.U32()))
		m.Set("duration_nsec", uint64(r.U32()))
		m.Set("idle_timeout", uint64(r.U16()))
		m.Set("hard_timeout", uint64(r.U16()))
		m.Set("packet_count", r.U64())
		m.Set("byte_count", r.U64())
		mt, e := decodeMatch(r)
		if e != nil {
			return e
		}
		m.SetS("match", mt)
	case "port_status":
		m.Set("reason", uint64(r.U8()))
		r.Zero(7, "port-status pad")
		m.SetS("port", decodePort(r))
	case "packet_out":
		m.Set("buffer_id", uint64(r.U32()))
		m.Set("in_port", uint64(r.U32()))
		al := int(r.U16())
		r.Zero(6, "packet-out pad")
		ab := r.Raw(al)
		if r.Err() != nil {
			return errf("packet_out.actions_len", "actions_len %d exceeds the message", al)
		}
		as, e := decodeActions(ab, "packet_out.actions")
		if e != nil {
			return e
		}
		m.SetL("actions", as)
		m.SetB("data", r.Rest())
	case "flow_mod":
		m.Set("cookie", r.U64())
		m.Set("cookie_mask", r.U64())
		m.Set("table_id", uint64(r.U8()))
		m.Set("command", uint64(r.U8()))
		m.Set("idle_timeout", uint64(r.U16()))
		m.Set("hard_timeout", uint64(r.U16()))
		m.Set("priority", uint64(r.U16()))
		m.Set("buffer_id", uint64(r.U32()))
		m.Set("out_port", uint64(r.U32()))
		m.Set("out_group", uint64(r.U32()))
		m.Set("flags", uint64(r.U16()))
		r.Zero(2, "flow-mod pad")
		mt, e := decodeMatch(r)
		if e != nil {
			return e
		}
		m.SetS("match", mt)
		ins, e := decodeInstructions(r.Rest())
		if e != nil {
			return e
		}
		m.SetL("instructions", ins)
	case "group_mod":
		m.Set("command", uint64(r.U16()))
		m.Set("type", uint64(r.U8()))
		r.Zero(1, "group-mod pad")
		m.Set("group_id", uint64(r.U32()))
		m.SetL("buckets", nil)
		for r.Left() > 0 && r.Err() == nil {
			bk, e := decodeBucket(r)
			if e != nil {
				return e
			}
			m.Add("buckets", bk)
		}
	case "port_mod":
		m.Set("port_no", uint64(r.U32()))
		r.Zero(4, "port-mod pad")
		m.SetB("hw_addr", r.Raw(6))
		r.Zero(2, "port-mod pad2")
		m.Set("config", uint64(r.U32()))
		m.Set("mask", uint64(r.U32()))
		m.Set("advertise", uint64(r.U32()))
		r.Zero(4, "port-mod pad3")
	case "mp_request":
		t := r.U16()
		m.Set("type", uint64(t))
		m.Set("flags", uint64(r.U16()))
		r.Zero(4, "multipart pad")
		if r.Err() != nil {
			return r.Err()
		}
		switch t {
		case 0, 3, 13, 7, 8, 11:
			if r.Left() != 0 {
				return errf("mp_request.body", "type %d has an empty body, %d bytes present", t, r.Left())
			}
		case 1, 2:
			b := rec.New(map[uint16]string{1: "flow_stats_request", 2: "aggregate_stats_request"}[t])
			b.Set("table_id", uint64(r.U8()))
			r.Zero(3, "flow-stats-request pad")
			b.Set("out_port", uint64(r.U32()))
			b.Set("out_group", uint64(r.U32()))
			r.Zero(4, "flow-stats-request pad2")
			b.Set("cookie", r.U64())
			b.Set("cookie_mask", r.U64())
			mt, e := decodeMatch(r)
			if e != nil {
				return e
			}
			b.SetS("match", mt)
			m.SetS("body", b)
		case 4:
			b := rec.New("port_stats_request")
			b.Set("port_no", uint64(r.U32()))
			r.Zero(4, "port-stats-request pad")
			m.SetS("body", b)
		case 5:
			b := rec.New("queue_stats_request")
			b.Set("port_no", uint64(r.U32()))
			b.Set("queue_id", uint64(r.U32()))
			m.SetS("body", b)
		default:
			return errf("mp_request.type", "multipart type %d not modelled", t)
		}
	case "mp_reply":
		t := r.U16()
		m.Set("type", uint64(t))
		m.Set("flags", uint64(r.U16()))
		r.Zero(4, "multipart pad")
		m.SetL("body", nil)
		for r.Left() > 0 && r.Err() == nil {
			b, e := decodeMPReplyRecord(r, t)
			if e != nil {
				return e
			}
			m.Add("body", b)
			if t == 0 || t == 2 {
				break
			}
		}
	case "experimenter":
		vendor := r.U32()
		et := r.U32()
		if r.Err() != nil {
			return r.Err()
		}
		switch {
		case vendor == NXVendor && et == 20:
			m.K = "nx_set_controller_id"
			r.Zero(6, "set-controller-id pad")
			m.Set("id", uint64(r.U16()))
		case vendor == NXVendor && et == 24:
			m.K = "nx_tlv_table_mod"
			m.Set("command", uint64(r.U16()))
			r.Zero(6, "tlv-table-mod pad")
			if e := decodeTLVMaps(r, m); e != nil {
				return e
			}
		case vendor == NXVendor && et == 25:
			m.K = "nx_tlv_table_request"
		case vendor == NXVendor && et == 26:
			m.K = "nx_tlv_table_reply"
			m.Set("max_space", uint64(r.U32()))
			m.Set("max_fields", uint64(r.U16()))
			r.Zero(10, "tlv-table-reply reserved")
			if e := decodeTLVMaps(r, m); e != nil {
				return e
			}
		case vendor == ONFVendor && et == 2300:
			m.K = "bundle_control"
			m.Set("bundle_id", uint64(r.U32()))
			m.Set("type", uint64(r.U16()))
			m.Set("flags", uint64(r.U16()))
		case vendor == ONFVendor && et == 2301:
			m.K = "bundle_add"
			m.Set("bundle_id", uint64(r.U32()))
			r.Zero(2, "bundle-add pad")
			m.Set("flags", uint64(r.U16()))
			if r.Err() != nil {
				return r.Err()
			}
			if r.Left() < 8 {
				return errf("bundle_add.message-truncated", "%d bytes left for the embedded message", r.Left())
			}
			il := int(binary.BigEndian.Uint16(r.b[r.off+2:]))
			if il < 8 || il > r.Left() {
				return errf("bundle_add.message-length", "embedded message declares %d bytes, %d available", il, r.Left())
			}
			inner, e := DecodeMessage(r.Raw(il))
			if e != nil {
				if se, ok := e.(*Err); ok {
					return errf("bundle_add/"+se.Rule, "%s", se.Msg)
				}
				return e
			}
			m.SetS("message", inner)
			for r.Left() > 0 && r.Err() == nil {
				if r.Left() < 4 {
					return errf("bundle_add.property-truncated", "%d bytes left", r.Left())
				}
				pt := r.U16()
				pl := int(r.U16())
				if pl < 4 || pl-4 > r.Left() {
					return errf("bundle_add.property-length", "property length %d", pl)
				}
				p := rec.New("bundle_property").Set("type", uint64(pt)).SetB("body", r.Raw(pl-4))
				m.Add("properties", p)
				r.Zero((8-pl%8)%8, "bundle property")
			}
		default:
			return errf("experimenter.code", "experimenter %#x type %d is not a Nicira/ONF message this model knows", vendor, et)
		}
	default:
		return errf("walker.kind", "no body walker for %s", m.K)
	}
	return nil
}

func decodeTLVMaps(r *R, m *rec.Rec) error {
	m.SetL("maps", nil)
	if r.Left()%8 != 0 {
		return errf(m.K+".maps-length", "%d bytes of TLV maps is not a multiple of 8", r.Left())
	}
	for r.Left() > 0 && r.Err() == nil {
		t := rec.New("tlv_map")
		t.Set("opt_class", uint64(r.U16()))
		t.Set("opt_type", uint64(r.U8()))
		t.Set("opt_len", uint64(r.U8()))
		t.Set("index", uint64(r.U16()))
		r.Zero(2, "tlv map pad")
		m.Add("maps", t)
	}
	return nil
}

func decodePort(r *R) *rec.Rec {
	p := rec.New("port")
	p.Set("port_no", uint64(r.U32()))
	r.Zero(4, "port pad")
	p.SetB("hw_addr", r.Raw(6))
	r.Zero(2, "port pad2")
	p.SetB("name", r.Raw(16))
	for _, f := range []string{"config", "state", "curr", "advertised", "supported", "peer", "curr_speed", "max_speed"} {
		p.Set(f, uint64(r.U32()))
	}
	return p
}

// DecodeMatch etc. are exported for element-level checks; they require the input to be exactly one element.
func DecodeMatch(b []byte) (*rec.Rec, error) {
	r := NewR(b, "match")
	m, e := decodeMatch(r)
	if e != nil {
		return nil, e
	}
	if r.Err() != nil {
		return nil, r.Err()
	}
	if r.Left() != 0 {
		return nil, errf("match.trailing", "%d bytes after the match", r.Left())
	}
	return m, nil
}

func decodeMatch(r *R) (*rec.Rec, error) {
	if r.Err() != nil {
		return nil, r.Err()
	}
	if r.Left() < 4 {
		return nil, errf("match.truncated", "%d bytes left for ofp_match", r.Left())
	}
	t := r.U16()
	l := int(r.U16())
	if t != 1 {
		return nil, errf("match.type", "match type %d, want 1 (OXM)", t)
	}
	if l < 4 {
		return nil, errf("match.length", "match length %d < 4", l)
	}
	body := r.Raw(l - 4)
	if r.Err() != nil {
		return nil, errf("match.length", "match length %d exceeds the enclosing element", l)
	}
	pad := (8 - l%8) % 8
	if r.Left() < pad {
		return nil, errf("match.padding", "match of length %d is not padded to a multiple of 8 (%d bytes follow)", l, r.Left())
	}
	r.Zero(pad, "match")
	if r.Err() != nil {
		return nil, r.Err()
	}
	m := rec.New("match").SetL("fields", nil)
	fr := NewR(body, "match")
	for fr.Left() > 0 {
		f, e := decodeOXM(fr)
		if e != nil {
			return nil, e
		}
		m.Add("fields", f)
	}
	return m, nil
}

func DecodeMatchField(b []byte) (*rec.Rec, error) {
	r := NewR(b, "oxm")
	f, e := decodeOXM(r)
	if e != nil {
		return nil, e
	}
	if r.Left() != 0 {
		return nil, errf("oxm.trailing", "%d bytes after the field", r.Left())
	}
	return f, nil
}

func decodeOXM(r *R) (*rec.Rec, error) {
	if r.Left() < 4 {
		return nil, errf("oxm.truncated", "%d bytes left for an OXM header", r.Left())
	}
	class := r.U16()
	fb := r.U8()
	l := int(r.U8())
	field, hm := fb>>1, fb&1 == 1
	expID := uint32(0)
	if class == ClassExp {
		if l < 4 || r.Left() < 4 {
			return nil, errf("oxm.experimenter", "experimenter-class OXM of length %d has no room for the experimenter id", l)
		}
		expID = r.U32()
		l -= 4
		if expID != ONFVendor {
			return nil, errf("oxm.experimenter", "experimenter id %#x is not modelled", expID)
		}
	}
	ref := OXMByCode(class, field)
	if ref == nil {
		return nil, errf("oxm.code", "class %#04x field %d is not an OpenFlow 1.3 / Nicira match field", class, field)
	}
	payload := r.Raw(l)
	if r.Err() != nil {
		return nil, errf("oxm.length", "%s: payload length %d exceeds the enclosing element", ref.Name, l)
	}
	w := ref.Width
	if w == 0 { // variable (tunnel metadata)
		w = l
		if hm {
			if l%2 != 0 {
				return nil, errf("oxm.length", "%s: masked payload length %d is odd", ref.Name, l)
			}
			w = l / 2
		}
		if w < 1 || w > TunMetadataMaxWidth {
			return nil, errf("oxm.length", "%s: width %d outside 1..124", ref.Name, w)
		}
	}
	want := w
	if hm {
		want = 2 * w
	}
	if l != want {
		return nil, errf("oxm.length", "%s: payload length %d, want %d (width %d, mask %v)", ref.Name, l, want, w, hm)
	}
	f := rec.New("mf").Set("class", uint64(class)).Set("field", uint64(field)).SetBool("hasmask", hm)
	if class == ClassExp {
		f.Set("experimenter", uint64(expID))
	}
	f.SetB("value", payload[:w])
	if hm {
		f.SetB("mask", payload[w:])
	}
	return f, nil
}

func DecodeActions(b []byte) ([]*rec.Rec, error) { return decodeActions(b, "actions") }

func decodeActions(b []byte, ctx string) ([]*rec.Rec, error) {
	out := []*rec.Rec{}
	for len(b) > 0 {
		if len(b) < 8 {
			return nil, errf("action.truncated", "%s: %d bytes left, an action needs at least 8", ctx, len(b))
		}
		l := int(binary.BigEndian.Uint16(b[2:4]))
		if l < 8 || l%8 != 0 {
			return nil, errf("action.length-align", "%s: action type %d declares length %d (must be a multiple of 8, >= 8)", ctx, binary.BigEndian.Uint16(b[0:2]), l)
		}
		if l > len(b) {
			return nil, errf("action.length", "%s: action type %d declares length %d, %d bytes left", ctx, binary.BigEndian.Uint16(b[0:2]), l, len(b))
		}
		a, e := decodeAction(b[:l])
		if e != nil {
			return nil, e
		}
		out = append(out, a)
		b = b[l:]
	}
	return out, nil
}

var actionKindByType = map[uint16]string{}
var nxKindBySubtype = map[uint16]string{}
var instrKindByType = map[uint16]string{}

func init() {
	for k, v := range ActionType {
		actionKindByType[v] = k
	}
	for k, v := range NXSubtype {
		nxKindBySubtype[v] = k
	}
	for k, v := range InstrType {
		instrKindByType[v] = k
	}
}

var actionFixedSize = map[string]int{
	"output": 16, "copy_ttl_out": 8, "copy_ttl_in": 8, "set_mpls_ttl": 8, "dec_mpls_ttl": 8, "push_vlan": 8, "pop_vlan": 8,
	"push_mpls": 8, "pop_mpls": 8, "set_queue": 8, "group": 8, "set_nw_ttl": 8, "dec_nw_ttl": 8, "push_pbb": 8, "pop_pbb": 8,
	"nx_resubmit": 16, "nx_resubmit_table": 16, "nx_ct_resubmit": 16, "nx_reg_move": 24, "nx_reg_load": 24, "nx_output_reg": 24,
	"nx_dec_ttl": 16, "nx_ct_clear": 16, "nx_controller": 16, "nx_conjunction": 16,
}

func DecodeAction(b []byte) (*rec.Rec, error) {
	as, e := decodeActions(b, "action")
	if e != nil {
		return nil, e
	}
	if len(as) != 1 {
		return nil, errf("action.count", "%d actions in the buffer, want 1", len(as))
	}
	return as[0], nil
}

// decodeAction: b is exactly the action's declared extent.
func decodeAction(b []byte) (*rec.Rec, error) {
	t := binary.BigEndian.Uint16(b[0:2])
	if t != 0xffff {
		kind, ok := actionKindByType[t]
		if !ok {
			return nil, errf("action.type", "action type %d is not defined by OpenFlow 1.3", t)
		}
		if fs, ok := actionFixedSize[kind]; ok && len(b) != fs {
			return nil, errf("action.size", "%s action declares %d bytes, the format is %d", kind, len(b), fs)
		}
		a := rec.New(kind)
		r := NewR(b[4:], kind)
		switch kind {
		case "output":
			a.Set("port", uint64(r.U32()))
			a.Set("max_len", uint64(r.U16()))
			r.Zero(6, "output pad")
		case "copy_ttl_out", "copy_ttl_in", "dec_mpls_ttl", "pop_vlan", "dec_nw_ttl", "pop_pbb":
			r.Zero(4, kind+" pad")
		case "set_mpls_ttl", "set_nw_ttl":
			a.Set("ttl", uint64(r.U8()))
			r.Zero(3, kind+" pad")
		case "push_vlan", "push_mpls", "push_pbb", "pop_mpls":
			a.Set("ethertype", uint64(r.U16()))
			r.Zero(2, kind+" pad")
		case "set_queue":
			a.Set("queue_id", uint64(r.U32()))
		case "group":
			a.Set("group_id", uint64(r.U32()))
		case "set_field":
			f, e := decodeOXM(r)
			if e != nil {
				return nil, errf("set_field/"+e.(*Err).Rule, "%s", e.(*Err).Msg)
			}
			if r.Left() >= 8 {
				return nil, errf("set_field.size", "set-field action of %d bytes carries %d bytes beyond its field (more than alignment padding)", len(b), r.Left())
			}
			r.Zero(r.Left(), "set-field")
			a.SetS("field", f)
		}
		if r.Err() != nil {
			return nil, r.Err()
		}
		return a, nil
	}
	if len(b) < 16 {
		return nil, errf("nx.size", "experimenter action of %d bytes (Nicira actions are at least 16)", len(b))
	}
	if v := binary.BigEndian.Uint32(b[4:8]); v != NXVendor {
		return nil, errf("nx.vendor", "experimenter id %#x, want 0x00002320", v)
	}
	st := binary.BigEndian.Uint16(b[8:10])
	kind, ok := nxKindBySubtype[st]
	if !ok {
		return nil, errf("nx.subtype", "Nicira action subtype %d is not one this model knows", st)
	}
	if fs, ok := actionFixedSize[kind]; ok && len(b) != fs {
		return nil, errf("nx.size", "%s action declares %d bytes, the format is %d", kind, len(b), fs)
	}
	a := rec.New(kind)
	r := NewR(b[10:], kind)
	switch kind {
	case "nx_resubmit":
		a.Set("in_port", uint64(r.U16()))
		r.Zero(4, "resubmit table+pad")
	case "nx_resubmit_table", "nx_ct_resubmit":
		a.Set("in_port", uint64(r.U16()))
		a.Set("table", uint64(r.U8()))
		r.Zero(3, "resubmit pad")
	case "nx_reg_move":
		a.Set("n_bits", uint64(r.U16()))
		a.Set("src_ofs", uint64(r.U16()))
		a.Set("dst_ofs", uint64(r.U16()))
		a.Set("src", uint64(r.U32()))
		a.Set("dst", uint64(r.U32()))
	case "nx_reg_load":
		a.Set("ofs_nbits", uint64(r.U16()))
		a.Set("dst", uint64(r.U32()))
		a.Set("value", r.U64())
	case "nx_note":
		a.SetB("note", r.Rest())
	case "nx_output_reg":
		a.Set("ofs_nbits", uint64(r.U16()))
		a.Set("src", uint64(r.U32()))
		a.Set("max_len", uint64(r.U16()))
		r.Zero(6, "output-reg zero")
	case "nx_learn":
		if len(b) < 32 {
			return nil, errf("nx.size", "learn action of %d bytes (< 32)", len(b))
		}
		a.Set("idle_timeout", uint64(r.U16()))
		a.Set("hard_timeout", uint64(r.U16()))
		a.Set("priority", uint64(r.U16()))
		a.Set("cookie", r.U64())
		a.Set("flags", uint64(r.U16()))
		a.Set("table_id", uint64(r.U8()))
		r.Zero(1, "learn pad")
		a.Set("fin_idle_timeout", uint64(r.U16()))
		a.Set("fin_hard_timeout", uint64(r.U16()))
		a.SetL("specs", nil)
		for r.Left() >= 2 && r.Err() == nil {
			h := binary.BigEndian.Uint16(r.b[r.off:])
			if h == 0 {
				break
			}
			s, e := decodeLearnSpec(r)
			if e != nil {
				return nil, e
			}
			a.Add("specs", s)
		}
		if r.Left() >= 8 {
			return nil, errf("learn.padding", "%d bytes after the last learn spec (more than alignment padding)", r.Left())
		}
		r.Zero(r.Left(), "learn")
	case "nx_dec_ttl", "nx_ct_clear":
		r.Zero(6, kind+" pad")
	case "nx_dec_ttl_cnt_ids":
		n := int(r.U16())
		r.Zero(4, "dec_ttl_cnt_ids zeros")
		ids := r.Raw(2 * n)
		if r.Err() != nil {
			return nil, errf("dec_ttl_cnt_ids.count", "%d controller ids do not fit the action's %d bytes", n, len(b))
		}
		if r.Left() >= 8 {
			return nil, errf("dec_ttl_cnt_ids.size", "%d bytes after the ids (more than alignment padding)", r.Left())
		}
		r.Zero(r.Left(), "dec_ttl_cnt_ids")
		a.Set("n_controllers", uint64(n))
		a.SetB("ids", ids)
	case "nx_controller":
		a.Set("max_len", uint64(r.U16()))
		a.Set("controller_id", uint64(r.U16()))
		a.Set("reason", uint64(r.U8()))
		r.Zero(1, "controller zero")
	case "nx_reg_load2":
		f, e := decodeOXM(r)
		if e != nil {
			return nil, errf("reg_load2/"+e.(*Err).Rule, "%s", e.(*Err).Msg)
		}
		if r.Left() >= 8 {
			return nil, errf("reg_load2.size", "%d bytes beyond the field (more than alignment padding)", r.Left())
		}
		r.Zero(r.Left(), "reg_load2")
		a.SetS("field", f)
	case "nx_conjunction":
		a.Set("clause", uint64(r.U8()))
		a.Set("n_clauses", uint64(r.U8()))
		a.Set("id", uint64(r.U32()))
	case "nx_ct":
		if len(b) < 24 {
			return nil, errf("nx.size", "ct action of %d bytes (< 24)", len(b))
		}
		a.Set("flags", uint64(r.U16()))
		a.Set("zone_src", uint64(r.U32()))
		a.Set("zone_ofs_nbits", uint64(r.U16()))
		a.Set("recirc_table", uint64(r.U8()))
		r.Zero(3, "ct pad")
		a.Set("alg", uint64(r.U16()))
		as, e := decodeActions(r.Rest(), "ct.actions")
		if e != nil {
			return nil, e
		}
		a.SetL("actions", as)
	case "nx_nat":
		r.Zero(2, "nat pad")
		a.Set("flags", uint64(r.U16()))
		rp := r.U16()
		a.Set("range_present", uint64(rp))
		if rp&^0x3f != 0 {
			return nil, errf("nat.range_present", "undefined range_present bits %#x", rp)
		}
		if rp&1 != 0 {
			a.SetB("ipv4_min", r.Raw(4))
		}
		if rp&2 != 0 {
			a.SetB("ipv4_max", r.Raw(4))
		}
		if rp&4 != 0 {
			a.SetB("ipv6_min", r.Raw(16))
		}
		if rp&8 != 0 {
			a.SetB("ipv6_max", r.Raw(16))
		}
		if rp&16 != 0 {
			a.Set("proto_min", uint64(r.U16()))
		}
		if rp&32 != 0 {
			a.Set("proto_max", uint64(r.U16()))
		}
		if r.Err() != nil {
			return nil, errf("nat.size", "range_present %#x needs more than the action's %d bytes", rp, len(b))
		}
		if r.Left() >= 8 {
			return nil, errf("nat.size", "%d bytes after the ranges (more than alignment padding)", r.Left())
		}
		r.Zero(r.Left(), "nat")
	}
	if r.Err() != nil {
		return nil, r.Err()
	}
	if r.Left() != 0 {
		return nil, errf(kind+".trailing", "%d unread bytes", r.Left())
	}
	return a, nil
}

func decodeLearnSpec(r *R) (*rec.Rec, error) {
	h := r.U16()
	n := h & 0x3ff
	if h&0x0400 != 0 || h&0xc000 != 0 {
		return nil, errf("learn.spec-header", "learn spec header %#04x has reserved bits set", h)
	}
	src := h >> 13 & 1
	dst := h >> 11 & 3
	var kind string
	switch {
	case dst == 0 && src == 0:
		kind = "match_field"
	case dst == 0 && src == 1:
		kind = "match_value"
	case dst == 1 && src == 0:
		kind = "load_field"
	case dst == 1 && src == 1:
		kind = "load_value"
	case dst == 2 && src == 0:
		kind = "output_field"
	default:
		return nil, errf("learn.spec-header", "learn spec header %#04x: undefined src/dst combination", h)
	}
	s := rec.New("learn_spec").SetT("kind", kind).Set("n_bits", uint64(n))
	if src == 1 {
		s.SetB("value", r.Raw(2*int((n+15)/16)))
	} else {
		s.Set("src", uint64(r.U32()))
		s.Set("src_ofs", uint64(r.U16()))
	}
	if dst != 2 {
		s.Set("dst", uint64(r.U32()))
		s.Set("dst_ofs", uint64(r.U16()))
	}
	if r.Err() != nil {
		return nil, errf("learn.spec-truncated", "learn spec %s n_bits %d runs past the action", kind, n)
	}
	return s, nil
}

func DecodeInstructions(b []byte) ([]*rec.Rec, error) { return decodeInstructions(b) }

func decodeInstructions(b []byte) ([]*rec.Rec, error) {
	out := []*rec.Rec{}
	for len(b) > 0 {
		if len(b) < 8 {
			return nil, errf("instruction.truncated", "%d bytes left, an instruction needs at least 8", len(b))
		}
		t := binary.BigEndian.Uint16(b[0:2])
		l := int(binary.BigEndian.Uint16(b[2:4]))
		if l < 8 || l%8 != 0 {
			return nil, errf("instruction.length-align", "instruction type %d declares length %d (must be a multiple of 8, >= 8)", t, l)
		}
		if l > len(b) {
			return nil, errf("instruction.length", "instruction type %d declares length %d, %d bytes left", t, l, len(b))
		}
		kind, ok := instrKindByType[t]
		if !ok {
			return nil, errf("instruction.type", "instruction type %d is not defined by OpenFlow 1.3", t)
		}
		in := rec.New(kind)
		r := NewR(b[4:l], kind)
		switch kind {
		case "goto_table":
			if l != 8 {
				return nil, errf("instruction.size", "goto-table declares %d bytes, the format is 8", l)
			}
			in.Set("table_id", uint64(r.U8()))
			r.Zero(3, "goto-table pad")
		case "write_metadata":
			if l != 24 {
				return nil, errf("instruction.size", "write-metadata declares %d bytes, the format is 24", l)
			}
			r.Zero(4, "write-metadata pad")
			in.Set("metadata", r.U64())
			in.Set("mask", r.U64())
		case "write_actions", "apply_actions", "clear_actions":
			r.Zero(4, kind+" pad")
			as, e := decodeActions(r.Rest(), kind+".actions")
			if e != nil {
				return nil, e
			}
			if kind == "clear_actions" {
				if len(as) != 0 {
					return nil, errf("instruction.size", "clear-actions carries actions")
				}
			} else {
				in.SetL("actions", as)
			}
		case "meter":
			if l != 8 {
				return nil, errf("instruction.size", "meter declares %d bytes, the format is 8", l)
			}
			in.Set("meter_id", uint64(r.U32()))
		}
		if r.Err() != nil {
			return nil, r.Err()
		}
		out = append(out, in)
		b = b[l:]
	}
	return out, nil
}

func DecodeBucket(b []byte) (*rec.Rec, error) {
	r := NewR(b, "bucket")
	bk, e := decodeBucket(r)
	if e != nil {
		return nil, e
	}
	if r.Left() != 0 {
		return nil, errf("bucket.trailing", "%d bytes after the bucket", r.Left())
	}
	return bk, nil
}

func decodeBucket(r *R) (*rec.Rec, error) {
	if r.Left() < 16 {
		return nil, errf("bucket.truncated", "%d bytes left, a bucket needs at least 16", r.Left())
	}
	l := int(binary.BigEndian.Uint16(r.b[r.off:]))
	if l < 16 || l%8 != 0 {
		return nil, errf("bucket.length-align", "bucket declares length %d (must be a multiple of 8, >= 16)", l)
	}
	if l > r.Left() {
		return nil, errf("bucket.length", "bucket declares length %d, %d bytes left", l, r.Left())
	}
	br := NewR(r.Raw(l), "bucket")
	br.U16()
	bk := rec.New("bucket")
	bk.Set("weight", uint64(br.U16()))
	bk.Set("watch_port", uint64(br.U32()))
	bk.Set("watch_group", uint64(br.U32()))
	br.Zero(4, "bucket pad")
	as, e := decodeActions(br.Rest(), "bucket.actions")
	if e != nil {
		return nil, e
	}
	if br.Err() != nil {
		return nil, br.Err()
	}
	bk.SetL("actions", as)
	return bk, nil
}

func decodeMPReplyRecord(r *R, t uint16) (*rec.Rec, error) {
	switch t {
	case 0:
		b := rec.New("desc_stats")
		b.SetB("mfr_desc", r.Raw(256))
		b.SetB("hw_desc", r.Raw(256))
		b.SetB("sw_desc", r.Raw(256))
		b.SetB("serial_num", r.Raw(32))
		b.SetB("dp_desc", r.Raw(256))
		return b, r.Err()
	case 1:
		if r.Left() < 56 {
			return nil, errf("flow_stats.truncated", "%d bytes left, a flow stats record needs at least 56", r.Left())
		}
		l := int(binary.BigEndian.Uint16(r.b[r.off:]))
		if l < 56 || l > r.Left() {
			return nil, errf("flow_stats.length", "flow stats record declares %d bytes, %d left", l, r.Left())
		}
		fr := NewR(r.Raw(l), "flow_stats")
		fr.U16()
		b := rec.New("flow_stats")
		b.Set("table_id", uint64(fr.U8()))
		fr.Zero(1, "flow-stats pad")
		b.Set("duration_sec", uint64(fr.U32()))
		b.Set("duration_nsec", uint64(fr.U32()))
		b.Set("priority", uint64(fr.U16()))
		b.Set("idle_timeout", uint64(fr.U16()))
		b.Set("hard_timeout", uint64(fr.U16()))
		b.Set("flags", uint64(fr.U16()))
		fr.Zero(4, "flow-stats pad2")
		b.Set("cookie", fr.U64())
		b.Set("packet_count", fr.U64())
		b.Set("byte_count", fr.U64())
		mt, e := decodeMatch(fr)
		if e != nil {
			return nil, e
		}
		b.SetS("match", mt)
		ins, e := decodeInstructions(fr.Rest())
		if e != nil {
			return nil, e
		}
		b.SetL("instructions", ins)
		return b, fr.Err()
	case 2:
		b := rec.New("aggregate_stats")
		b.Set("packet_count", r.U64())
		b.Set("byte_count", r.U64())
		b.Set("flow_count", uint64(r.U32()))
		r.Zero(4, "aggregate pad")
		return b, r.Err()
	case 3:
		b := rec.New("table_stats")
		b.Set("table_id", uint64(r.U8()))
		r.Zero(3, "table-stats pad")
		b.Set("active_count", uint64(r.U32()))
		b.Set("lookup_count", r.U64())
		b.Set("matched_count", r.U64())
		return b, r.Err()
	case 4:
		b := rec.New("port_stats")
		b.Set("port_no", uint64(r.U32()))
		r.Zero(4, "port-stats pad")
		for _, f := range PortStatsCounters {
			b.Set(f, r.U64())
		}
		b.Set("duration_sec", uint64(r.U32()))
		b.Set("duration_nsec", uint64(r.U32()))
		return b, r.Err()
	case 5:
		b := rec.New("queue_stats")
		b.Set("port_no", uint64(r.U32()))
		b.Set("queue_id", uint64(r.U32()))
		b.Set("tx_bytes", r.U64())
		b.Set("tx_packets", r.U64())
		b.Set("tx_errors", r.U64())
		b.Set("duration_sec", uint64(r.U32()))
		b.Set("duration_nsec", uint64(r.U32()))
		return b, r.Err()
	case 13:
		p := decodePort(r)
		return p, r.Err()
	}
	return nil, errf("mp_reply.type", "multipart type %d not modelled", t)
}

// Canon normalises representation-only differences before trees are compared: a note is compared modulo
// trailing zero padding.
func Canon(m *rec.Rec) *rec.Rec {
	m.Walk(func(r *rec.Rec) {
		if r.K == "nx_note" {
			n := r.Bytes("note")
			for len(n) > 0 && n[len(n)-1] == 0 {
				n = n[:len(n)-1]
			}
			r.SetB("note", n)
		}
		if r.K == "port_mod" { // the wire slot is 6 bytes whatever the length of the value's address
			a := append([]byte(nil), r.Bytes("hw_addr")...)
			for len(a) < 6 {
				a = append(a, 0)
			}
			r.SetB("hw_addr", a[:6])
		}
		for k := range r.N {
			if k[0] == '_' {
				delete(r.N, k)
			}
		}
		for k := range r.B {
			if k[0] == '_' {
				delete(r.B, k)
			}
		}
		for k := range r.T {
			if k[0] == '_' {
				delete(r.T, k)
			}
		}
	})
	return m.Normalize()
}

var _ = fmt.Sprint
