package spec

import (
	"fmt"

	"vh/rec"
)

// Reference encoders for packet headers (SPEC_NOTES.md section E: 802.3/802.1Q, RFC 826, 791, 2460, 792, 768, 793,
// 1112/2236/3376, 2131, 802.1AB).

func EncodePacket(p *rec.Rec) (out []byte, err error) {
	defer func() {
		if x := recover(); x != nil {
			err = fmt.Errorf("spec packet encoder: %v", x)
		}
	}()
	w := &W{}
	if e := encodePkt(w, p); e != nil {
		return nil, e
	}
	return w.Bytes(), nil
}

func payload(w *W, p *rec.Rec) error {
	if s := p.Sub("payload"); s != nil {
		return encodePkt(w, s)
	}
	w.Raw(p.Bytes("data"))
	return nil
}

func encodePkt(w *W, p *rec.Rec) error {
	switch p.K {
	case "ethernet":
		w.Fixed(p.Bytes("dst"), 6)
		w.Fixed(p.Bytes("src"), 6)
		if p.Bool("has_vlan") {
			w.U16(0x8100)
			w.U16(p.U16("pcp")&7<<13 | p.U16("dei")&1<<12 | p.U16("vid")&0xfff)
		}
		w.U16(p.U16("ethertype"))
		return payload(w, p)
	case "vlan":
		w.U16(p.U16("tpid"))
		w.U16(p.U16("pcp")&7<<13 | p.U16("dei")&1<<12 | p.U16("vid")&0xfff)
	case "arp":
		w.U16(p.U16("htype"))
		w.U16(p.U16("ptype"))
		w.U8(p.U8("hlen"))
		w.U8(p.U8("plen"))
		w.U16(p.U16("oper"))
		w.Fixed(p.Bytes("sha"), int(p.U8("hlen")))
		w.Fixed(p.Bytes("spa"), int(p.U8("plen")))
		w.Fixed(p.Bytes("tha"), int(p.U8("hlen")))
		w.Fixed(p.Bytes("tpa"), int(p.U8("plen")))
	case "ipv4":
		w.U8(p.U8("version")&0xf<<4 | p.U8("ihl")&0xf)
		w.U8(p.U8("dscp")&0x3f<<2 | p.U8("ecn")&3)
		w.U16(p.U16("length"))
		w.U16(p.U16("id"))
		w.U16(p.U16("flags")&7<<13 | p.U16("frag_off")&0x1fff)
		w.U8(p.U8("ttl"))
		w.U8(p.U8("protocol"))
		w.U16(p.U16("checksum"))
		w.Fixed(p.Bytes("src"), 4)
		w.Fixed(p.Bytes("dst"), 4)
		w.Fixed(p.Bytes("options"), 4*(int(p.U8("ihl"))-5))
		return payload(w, p)
	case "ipv6":
		w.U32(p.U32("version")&0xf<<28 | p.U32("tclass")&0xff<<20 | p.U32("flow_label")&0xfffff)
		w.U16(p.U16("length"))
		w.U8(p.U8("next_header"))
		w.U8(p.U8("hop_limit"))
		w.Fixed(p.Bytes("src"), 16)
		w.Fixed(p.Bytes("dst"), 16)
		for _, e := range p.List("ext") {
			if err := encodePkt(w, e); err != nil {
				return err
			}
		}
		return payload(w, p)
	case "hbh":
		start := w.Len()
		w.U8(p.U8("next_header"))
		w.U8(p.U8("hel"))
		for _, o := range p.List("options") {
			d := o.Bytes("data")
			w.U8(o.U8("type"))
			w.U8(uint8(len(d)))
			w.Raw(d)
		}
		if w.Len()-start != 8*(int(p.U8("hel"))+1) {
			return fmt.Errorf("spec: hop-by-hop options occupy %d bytes, header length says %d", w.Len()-start, 8*(int(p.U8("hel"))+1))
		}
	case "ip6opt":
		d := p.Bytes("data")
		w.U8(p.U8("type"))
		w.U8(uint8(len(d)))
		w.Raw(d)
	case "routing":
		w.U8(p.U8("next_header"))
		w.U8(p.U8("hel"))
		w.U8(p.U8("type"))
		w.U8(p.U8("segments_left"))
		w.Fixed(p.Bytes("data"), 8*(int(p.U8("hel"))+1)-4)
	case "fragment":
		w.U8(p.U8("next_header"))
		w.U8(p.U8("reserved"))
		m := uint16(0)
		if p.Bool("more") {
			m = 1
		}
		w.U16(p.U16("frag_off")&0x1fff<<3 | m)
		w.U32(p.U32("id"))
	case "icmp":
		w.U8(p.U8("type"))
		w.U8(p.U8("code"))
		w.U16(p.U16("checksum"))
		w.Raw(p.Bytes("data"))
	case "udp":
		w.U16(p.U16("sport"))
		w.U16(p.U16("dport"))
		w.U16(p.U16("length"))
		w.U16(p.U16("checksum"))
		w.Raw(p.Bytes("data"))
	case "tcp":
		w.U16(p.U16("sport"))
		w.U16(p.U16("dport"))
		w.U32(p.U32("seq"))
		w.U32(p.U32("ack"))
		w.U8(p.U8("data_off") & 0xf << 4)
		w.U8(p.U8("flags") & 0x3f)
		w.U16(p.U16("window"))
		w.U16(p.U16("checksum"))
		w.U16(p.U16("urgent"))
		w.Raw(p.Bytes("data"))
	case "igmp12":
		w.U8(p.U8("type"))
		w.U8(p.U8("max_resp"))
		w.U16(p.U16("checksum"))
		w.Fixed(p.Bytes("group"), 4)
	case "igmp3_query":
		w.U8(p.U8("type"))
		w.U8(p.U8("max_resp"))
		w.U16(p.U16("checksum"))
		w.Fixed(p.Bytes("group"), 4)
		s := uint8(0)
		if p.Bool("s") {
			s = 8
		}
		w.U8(s | p.U8("qrv")&7)
		w.U8(p.U8("qqic"))
		src := p.Bytes("sources")
		w.U16(uint16(len(src) / 4))
		w.Raw(src)
	case "igmp3_record":
		src, aux := p.Bytes("sources"), p.Bytes("aux")
		w.U8(p.U8("type"))
		w.U8(uint8(len(aux) / 4))
		w.U16(uint16(len(src) / 4))
		w.Fixed(p.Bytes("mcast"), 4)
		w.Raw(src)
		w.Raw(aux)
	case "igmp3_report":
		w.U8(0x22)
		w.U8(0)
		w.U16(p.U16("checksum"))
		w.U16(0)
		w.U16(uint16(len(p.List("records"))))
		for _, r := range p.List("records") {
			if err := encodePkt(w, r); err != nil {
				return err
			}
		}
	case "dhcp":
		w.U8(p.U8("op"))
		w.U8(p.U8("htype"))
		w.U8(p.U8("hlen"))
		w.U8(p.U8("hops"))
		w.U32(p.U32("xid"))
		w.U16(p.U16("secs"))
		w.U16(p.U16("flags"))
		w.Fixed(p.Bytes("ciaddr"), 4)
		w.Fixed(p.Bytes("yiaddr"), 4)
		w.Fixed(p.Bytes("siaddr"), 4)
		w.Fixed(p.Bytes("giaddr"), 4)
		w.Fixed(p.Bytes("chaddr"), 16)
		w.Fixed(p.Bytes("sname"), 64)
		w.Fixed(p.Bytes("file"), 128)
		w.U32(0x63825363)
		for _, o := range p.List("options") {
			t := o.U8("tag")
			w.U8(t)
			if t == 0 || t == 255 {
				continue
			}
			d := o.Bytes("data")
			w.U8(uint8(len(d)))
			w.Raw(d)
		}
		w.U8(255)
	case "lldp_chassis", "lldp_port":
		t := uint16(1)
		if p.K == "lldp_port" {
			t = 2
		}
		id := p.Bytes("id")
		w.U16(t<<9 | uint16(1+len(id))&0x1ff)
		w.U8(p.U8("subtype"))
		w.Raw(id)
	case "lldp_ttl":
		w.U16(3<<9 | 2)
		w.U16(p.U16("seconds"))
	case "lldp":
		for _, k := range []string{"chassis", "port", "ttl"} {
			if err := encodePkt(w, p.Sub(k)); err != nil {
				return err
			}
		}
	case "raw":
		w.Raw(p.Bytes("data"))
	default:
		return fmt.Errorf("spec: unknown packet kind %q", p.K)
	}
	return nil
}
