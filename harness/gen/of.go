// Package gen produces recipes from a PRNG: boundary-biased scalars, every optional part present/absent, lists of
// varied lengths and mixed element kinds.
package gen

import (
	"encoding/binary"
	"math/big"
	"strings"

	"vh/lib"
	"vh/prng"
	"vh/rec"
	"vh/spec"
)

func listLen(r *prng.R, cap int) int {
	var n int
	switch r.Intn(10) {
	case 0:
		n = 0
	case 1, 2:
		n = 1
	case 3:
		n = 2
	case 4:
		n = 3
	case 5:
		n = 7
	case 6:
		n = 8
	default:
		n = r.Intn(cap + 1)
	}
	if n > cap {
		n = cap
	}
	return n
}

func patBytes(r *prng.R, n int) []byte {
	b := make([]byte, n)
	if n == 16 && r.Chance(1, 7) { // an IPv4-mapped IPv6 address (::ffff:a.b.c.d): net.IP.To4() is non-nil for it
		b[10], b[11] = 0xff, 0xff
		copy(b[12:], r.Bytes(4))
		return b
	}
	switch r.Intn(10) {
	case 0:
	case 8, 9: // as an integer of that width: boundary values and the constants of the tree under test
		if n >= 1 && n <= 8 {
			v := r.Bits(8 * n)
			for i := n - 1; i >= 0; i-- {
				b[i] = byte(v)
				v >>= 8
			}
		} else {
			b = r.Bytes(n)
		}
	case 1:
		for i := range b {
			b[i] = 0xff
		}
	case 2:
		for i := range b {
			b[i] = 0xaa
		}
	case 3:
		if n > 0 {
			b[n-1] = 1
		}
	case 4:
		if n > 0 {
			b[0] = 0x80
		}
	default:
		b = r.Bytes(n)
	}
	return b
}

// usable constructors by category
var (
	allCtors      []*lib.MFCtor
	decodable     []*lib.MFCtor // two-way kinds
	nonGeneric    []*lib.MFCtor
	regNames      []string // registry names (for header-word hints)
	regNameWidths = map[string]int{}
)

func init() {
	for _, c := range lib.MFCtors {
		allCtors = append(allCtors, c)
		if c.Decodes {
			decodable = append(decodable, c)
		}
		if !strings.HasPrefix(c.Name, "generic:") {
			nonGeneric = append(nonGeneric, c)
		} else {
			n := strings.TrimPrefix(c.Name, "generic:")
			regNames = append(regNames, n)
			regNameWidths[n] = c.Width
		}
	}
}

type MFOpt struct {
	DecodableOnly bool // only (class, field) pairs the library can decode
	NoMask        bool
}

// MatchField generates a match-field recipe with the constructor hint that builds it.
func MatchField(r *prng.R, o MFOpt) *rec.Rec {
	pool := allCtors
	if o.DecodableOnly {
		pool = decodable
	}
	var c *lib.MFCtor
	if r.Chance(2, 3) { // favour the dedicated constructors
		for {
			c = nonGeneric[r.Intn(len(nonGeneric))]
			if !o.DecodableOnly || c.Decodes {
				break
			}
		}
	} else {
		c = pool[r.Intn(len(pool))]
	}
	return MatchFieldFor(r, c, o)
}

func MatchFieldFor(r *prng.R, c *lib.MFCtor, o MFOpt) *rec.Rec {
	f := rec.New("mf").Set("class", uint64(c.Class)).Set("field", uint64(c.Field)).SetT("_ctor", c.Name)
	w := c.Width
	if w == 0 {
		w = []int{1, 2, 4, 8, 16, 64, 124, r.Range(1, 124)}[r.Intn(8)]
	}
	v := patBytes(r, w)
	masked := c.Maskable && !o.NoMask && r.Chance(1, 2)
	if r.Chance(1, 4) {
		f.SetBool("_ip16", true)
	}
	if c.Name == "NewVlanIdField" {
		v[0] |= 0x10 // OFPVID_PRESENT is part of the wire value; the builder passes the id without it
	}
	switch {
	case c.Name == "NewCTStateMatchField":
		masked = true
		m := []byte{0, 0, 0, r.U8()}
		v = []byte{0, 0, 0, r.U8() & m[3]}
		f.SetB("mask", m)
	case strings.HasPrefix(c.Name, "NewRegMatchField"):
		if masked {
			first := r.Intn(32)
			last := r.Range(first, 31)
			n := last - first + 1
			mask := uint32(((uint64(1) << uint(n)) - 1) << uint(first))
			f.SetB("mask", binary.BigEndian.AppendUint32(nil, mask)).Set("_first", uint64(first)).Set("_last", uint64(last))
		}
	case strings.HasPrefix(c.Name, "generic:"):
		if masked {
			bits := 8 * w
			ofs := r.Intn(bits)
			n := r.Range(1, bits-ofs)
			val := new(big.Int).SetBytes(r.Bytes((n + 7) / 8))
			val.And(val, new(big.Int).Sub(new(big.Int).Lsh(big.NewInt(1), uint(n)), big.NewInt(1)))
			if r.Chance(1, 5) {
				val.SetInt64(0)
			}
			placed := new(big.Int).Lsh(val, uint(ofs))
			mask := new(big.Int).Lsh(new(big.Int).Sub(new(big.Int).Lsh(big.NewInt(1), uint(n)), big.NewInt(1)), uint(ofs))
			v = make([]byte, w)
			placed.FillBytes(v)
			mb := make([]byte, w)
			mask.FillBytes(mb)
			f.SetB("mask", mb).Set("_ofs", uint64(ofs)).Set("_n", uint64(n)).SetBool("_noshift", r.Chance(1, 3))
		}
	default:
		if masked {
			f.SetB("mask", patBytes(r, w))
		}
	}
	f.SetBool("hasmask", masked)
	f.SetB("value", v)
	return f
}

func Match(r *prng.R, cap int, o MFOpt) *rec.Rec {
	m := rec.New("match").SetL("fields", nil)
	n := listLen(r, cap)
	for i := 0; i < n; i++ {
		m.Add("fields", MatchField(r, o))
	}
	return m
}

// headerWordHint picks a registered name and returns its (unmasked) header word and the name.
func headerWordHint(r *prng.R) (uint32, string) {
	name := regNames[r.Intn(len(regNames))]
	ref := spec.OXMByName(name)
	return spec.HeaderWord(ref.Class, ref.Field, false, uint8(ref.Width)), name
}

type ActOpt struct {
	Depth         int  // nesting depth so far
	DecodableOnly bool // only kinds/fields the library can decode back (two-way)
	InCT          bool
}

var stdActionKinds = []string{"output", "set_queue", "group", "dec_nw_ttl", "push_vlan", "push_mpls", "pop_vlan", "pop_mpls", "set_field"}
var nxActionKinds = []string{"nx_conjunction", "nx_ct", "nx_reg_load", "nx_reg_move", "nx_resubmit", "nx_resubmit_table", "nx_ct_resubmit",
	"nx_output_reg", "nx_ct_clear", "nx_dec_ttl", "nx_dec_ttl_cnt_ids", "nx_learn", "nx_note", "nx_reg_load2", "nx_controller", "nx_nat"}

// ActionKinds lists every constructible action kind.
func ActionKinds() []string { return append(append([]string{}, stdActionKinds...), nxActionKinds...) }

func Action(r *prng.R, o ActOpt) *rec.Rec {
	var kind string
	if o.InCT {
		kind = []string{"nx_nat", "nx_nat", "nx_reg_load", "set_field", "nx_reg_load2", "nx_note", "output"}[r.Intn(7)]
	} else if r.Bool() {
		kind = stdActionKinds[r.Intn(len(stdActionKinds))]
	} else {
		kind = nxActionKinds[r.Intn(len(nxActionKinds))]
	}
	return ActionOfKind(r, kind, o)
}

func ActionOfKind(r *prng.R, kind string, o ActOpt) *rec.Rec {
	a := rec.New(kind)
	mfo := MFOpt{DecodableOnly: o.DecodableOnly}
	switch kind {
	case "output":
		a.Set("port", r.Bits(32)).Set("max_len", r.Bits(16))
	case "set_queue":
		a.Set("queue_id", r.Bits(32))
	case "group":
		a.Set("group_id", r.Bits(32))
	case "dec_nw_ttl", "pop_vlan", "nx_ct_clear", "nx_dec_ttl":
	case "push_vlan", "push_mpls", "pop_mpls":
		a.Set("ethertype", r.Bits(16))
	case "set_field":
		mfo.NoMask = r.Chance(3, 4)
		a.SetS("field", MatchField(r, mfo))
	case "nx_conjunction":
		a.Set("clause", r.Bits(8)).Set("n_clauses", r.Bits(8)).Set("id", r.Bits(32))
	case "nx_ct":
		a.Set("flags", r.Bits(16)).Set("recirc_table", r.Bits(8)).Set("alg", r.Bits(16))
		if r.Bool() {
			a.SetT("_zone", "imm").Set("zone_src", 0).Set("zone_ofs_nbits", r.Bits(16))
		} else {
			w, name := headerWordHint(r)
			first := r.Intn(32)
			last := r.Range(first, 31)
			a.SetT("_zone", "range").SetT("_zone_name", name).Set("_zone_first", uint64(first)).Set("_zone_last", uint64(last))
			a.Set("zone_src", uint64(w)).Set("zone_ofs_nbits", uint64(spec.OfsNbits(first, last-first+1)))
		}
		a.SetL("actions", nil)
		if o.Depth < 2 {
			n := r.Pick(0, 0, 1, 1, 2, 3)
			for i := 0; i < n; i++ {
				a.Add("actions", Action(r, ActOpt{Depth: o.Depth + 1, DecodableOnly: o.DecodableOnly, InCT: true}))
			}
		}
		a.SetBool("_one_call", r.Bool())
	case "nx_reg_load":
		w, name := headerWordHint(r)
		a.Set("ofs_nbits", r.Bits(16)).Set("dst", uint64(w)).Set("value", r.Bits(64))
		if r.Bool() {
			a.SetT("_dst_name", name)
		}
	case "nx_reg_move":
		sw, sn := headerWordHint(r)
		dw, dn := headerWordHint(r)
		a.Set("n_bits", r.Bits(16)).Set("src_ofs", r.Bits(16)).Set("dst_ofs", r.Bits(16)).Set("src", uint64(sw)).Set("dst", uint64(dw))
		if r.Bool() {
			a.SetT("_src_name", sn).SetT("_dst_name", dn)
		}
	case "nx_resubmit":
		a.Set("in_port", r.Bits(16))
	case "nx_resubmit_table":
		a.Set("in_port", r.Bits(16)).Set("table", r.Bits(8))
	case "nx_ct_resubmit":
		a.Set("in_port", r.Bits(16)).Set("table", r.Bits(8))
		if r.Chance(1, 3) {
			a.Set("in_port", 0xfff8).SetBool("_no_in_port", true)
		}
	case "nx_output_reg":
		w, name := headerWordHint(r)
		a.Set("ofs_nbits", r.Bits(16)).Set("src", uint64(w)).Set("max_len", r.Bits(16))
		if r.Bool() {
			a.SetT("_src_name", name)
		}
		if r.Chance(1, 3) {
			a.Set("max_len", 0xffff).SetBool("_default_max_len", true)
		}
	case "nx_dec_ttl_cnt_ids":
		n := r.Pick(0, 1, 2, 3, 4, 5, 7, 8, 9)
		a.Set("n_controllers", uint64(n)).SetB("ids", r.Bytes(2*n))
	case "nx_learn":
		a.Set("idle_timeout", r.Bits(16)).Set("hard_timeout", r.Bits(16)).Set("priority", r.Bits(16)).Set("cookie", r.Bits(64)).
			Set("flags", r.Bits(16)).Set("table_id", r.Bits(8)).Set("fin_idle_timeout", r.Bits(16)).Set("fin_hard_timeout", r.Bits(16))
		a.SetL("specs", nil)
		n := r.Pick(0, 1, 1, 2, 3, 5, 8)
		for i := 0; i < n; i++ {
			a.Add("specs", LearnSpec(r))
		}
	case "nx_note":
		n := r.Pick(0, 1, 5, 6, 7, 14, 22, r.Range(0, 60))
		b := r.Bytes(n)
		if n > 0 && b[n-1] == 0 {
			b[n-1] = 0x5a // keep the last byte non-zero so padding can be told from content
		}
		a.SetB("note", b)
	case "nx_reg_load2":
		a.SetS("field", MatchField(r, mfo))
	case "nx_controller":
		a.Set("max_len", r.Bits(16)).Set("controller_id", r.Bits(16)).Set("reason", r.Bits(8))
	case "nx_nat":
		fl := r.Bits(5)
		if r.Chance(1, 8) {
			fl = r.Bits(16)
		}
		rp := uint64(r.Intn(64))
		if r.Chance(1, 6) {
			rp = []uint64{0, 63, 3, 12, 48, 16, 32}[r.Intn(7)]
		}
		a.Set("flags", fl).Set("range_present", rp)
		if rp&1 != 0 {
			a.SetB("ipv4_min", patBytes(r, 4))
		}
		if rp&2 != 0 {
			a.SetB("ipv4_max", patBytes(r, 4))
		}
		if rp&4 != 0 {
			a.SetB("ipv6_min", patBytes(r, 16))
		}
		if rp&8 != 0 {
			a.SetB("ipv6_max", patBytes(r, 16))
		}
		if rp&16 != 0 {
			a.Set("proto_min", r.Bits(16))
		}
		if rp&32 != 0 {
			a.Set("proto_max", r.Bits(16))
		}
		if r.Chance(1, 4) { // single-value ranges: the upper bound equals the lower one
			if rp&3 == 3 {
				a.SetB("ipv4_max", a.Bytes("ipv4_min"))
			}
			if rp&12 == 12 {
				a.SetB("ipv6_max", a.Bytes("ipv6_min"))
			}
			if rp&48 == 48 {
				a.Set("proto_max", a.U("proto_min"))
			}
		}
		p := r.Perm(6)
		ord := make([]byte, 6)
		for i := range p {
			ord[i] = byte(p[i])
		}
		a.SetB("_order", ord)
		a.SetBool("_ip16", r.Chance(1, 3))
	}
	return withDefaults(r, a)
}

var learnKinds = []string{"match_field", "match_value", "load_field", "load_value", "output_field"}

func LearnSpec(r *prng.R) *rec.Rec {
	kind := learnKinds[r.Intn(5)]
	var n int
	switch r.Intn(4) {
	case 0:
		n = r.Range(1, 16)
	case 1:
		n = r.Pick(16, 17, 31, 32, 33, 48, 64, 128, 1023, 1008, 1009)
	default:
		n = r.Range(1, 200)
	}
	s := rec.New("learn_spec").SetT("kind", kind).Set("n_bits", uint64(n))
	switch kind {
	case "match_value", "load_value":
		s.SetB("value", r.Bytes(2*((n+15)/16)))
		if r.Chance(1, 5) {
			s.Set("_slack", uint64(r.Pick(1, 2, 6, 14)))
		}
	default:
		w, name := headerWordHint(r)
		s.Set("src", uint64(w)).Set("src_ofs", r.Bits(16))
		if r.Bool() {
			s.SetT("_src_name", name)
		}
	}
	if kind != "output_field" {
		w, name := headerWordHint(r)
		s.Set("dst", uint64(w)).Set("dst_ofs", r.Bits(16))
		if r.Bool() {
			s.SetT("_dst_name", name)
		}
	}
	return s
}

func Actions(r *prng.R, cap int, o ActOpt) []*rec.Rec {
	n := listLen(r, cap)
	out := make([]*rec.Rec, 0, n)
	for i := 0; i < n; i++ {
		out = append(out, Action(r, o))
	}
	return out
}

var instrKinds = []string{"goto_table", "write_metadata", "write_actions", "apply_actions", "apply_actions"}

func Instruction(r *prng.R, o ActOpt, actCap int) *rec.Rec {
	return InstructionOfKind(r, instrKinds[r.Intn(len(instrKinds))], o, actCap)
}

func InstructionOfKind(r *prng.R, kind string, o ActOpt, actCap int) *rec.Rec {
	in := rec.New(kind)
	switch kind {
	case "goto_table":
		in.Set("table_id", r.Bits(8))
	case "write_metadata":
		in.Set("metadata", r.Bits(64)).Set("mask", r.Bits(64))
	case "write_actions", "apply_actions":
		as := Actions(r, actCap, o)
		in.SetL("actions", as)
		if n := len(as); n > 0 && n < 250 {
			// a builder history of append/prepend calls that yields exactly this order
			k := r.Intn(n + 1) // elements 0..k-1 are prepended (in reverse time order), k..n-1 appended
			pre, app := k-1, k
			var h []byte
			for pre >= 0 || app < n {
				if pre >= 0 && (app >= n || r.Bool()) {
					h = append(h, byte(pre), 1)
					pre--
				} else {
					h = append(h, byte(app), 0)
					app++
				}
			}
			in.SetB("_hist", h)
		}
	}
	return in
}

func Bucket(r *prng.R, o ActOpt, actCap int) *rec.Rec {
	b := rec.New("bucket").Set("weight", r.Bits(16)).Set("watch_port", r.Bits(32)).Set("watch_group", r.Bits(32))
	return b.SetL("actions", Actions(r, actCap, o))
}
