package gen

import (
	"encoding/binary"

	"vh/dict"
	"vh/prng"
)

// Hostile enumerates hostile variants of a valid encoding: every truncation, byte-wise and word-wise boundary
// values at (sampled) every offset, deletions/duplications, extensions, random corruption. fix (optional) rewrites
// an outer length field after a size-changing mutation (e.g. the OpenFlow header length); size-changing classes are
// emitted both with and without it. emit returns false to stop. The slice given to emit is freshly allocated.
type HostileOpt struct {
	Fix       func(b []byte) // rewrite the outer length field to len(b)
	MaxPos    int            // positions swept per class (0 = 1536); longer inputs are sampled, both ends swept densely
	Random    int            // number of random multi-byte corruptions (default 64)
	MaxExtend int            // largest size of the "extend" class (default 65535)
}

var hostileBytes = []byte{0, 1, 2, 3, 4, 5, 7, 8, 0x0f, 0x10, 0x1f, 0x20, 0x3f, 0x40, 0x7f, 0x80, 0xfe, 0xff}

func positions(n, max int, r *prng.R) []int {
	if n <= max {
		p := make([]int, n)
		for i := range p {
			p[i] = i
		}
		return p
	}
	// dense head and tail, sampled middle
	head, tail := max/2, max/4
	p := make([]int, 0, max)
	for i := 0; i < head; i++ {
		p = append(p, i)
	}
	for i := 0; i < max-head-tail; i++ {
		p = append(p, head+r.Intn(n-head-tail))
	}
	for i := n - tail; i < n; i++ {
		p = append(p, i)
	}
	return p
}

func Hostile(base []byte, r *prng.R, o HostileOpt, emit func(class string, in []byte) bool) {
	n := len(base)
	if o.MaxPos == 0 {
		o.MaxPos = 1536
	}
	if o.Random == 0 {
		o.Random = 64
	}
	if o.MaxExtend == 0 {
		o.MaxExtend = 65535
	}
	cp := func(b []byte) []byte { return append(make([]byte, 0, len(b)), b...) }
	out := func(class string, b []byte) bool { return emit(class, b) }
	pos := positions(n, o.MaxPos, r)

	// truncations
	for _, k := range positions(n, o.MaxPos, r) {
		if !out("trunc", cp(base[:k])) {
			return
		}
		if o.Fix != nil && k >= 4 {
			b := cp(base[:k])
			o.Fix(b)
			if !out("trunc+fix", b) {
				return
			}
		}
	}
	// single bytes
	for _, p := range pos {
		for _, v := range hostileBytes {
			if base[p] == v {
				continue
			}
			b := cp(base)
			b[p] = v
			if !out("byte", b) {
				return
			}
		}
		for _, v := range []byte{base[p] + 1, base[p] - 1, base[p] ^ 0x80, byte(n - p), byte(n - p - 1), byte(n - p + 1)} {
			if base[p] == v {
				continue
			}
			b := cp(base)
			b[p] = v
			if !out("byte-rel", b) {
				return
			}
		}
	}
	// 16-bit words at every offset (OXM payloads make later TLVs unaligned)
	for _, p := range pos {
		if p+2 > n {
			continue
		}
		cur := binary.BigEndian.Uint16(base[p:])
		rem := n - p
		for _, v := range []uint16{0, 1, 3, 4, 7, 8, 15, 16, uint16(rem), uint16(rem - 1), uint16(rem + 1), uint16(rem - 4), uint16(rem + 4), uint16(rem + 8), uint16(n), cur + 1, cur - 1, cur + 8, cur - 8, 0x2000, 0x3fff, 0x4000, 0x4001, 0x7fff, 0x8000, 0xfff8, 0xfffc, 0xffff} {
			if v == cur {
				continue
			}
			b := cp(base)
			binary.BigEndian.PutUint16(b[p:], v)
			if !out("word16", b) {
				return
			}
		}
	}
	// 32-bit words
	for _, p := range pos {
		if p+4 > n || (n > 256 && p%2 == 1) {
			continue
		}
		cur := binary.BigEndian.Uint32(base[p:])
		for _, v := range []uint32{0, 1, uint32(n - p), 0x7fffffff, 0x80000000, 0xffffffff, 0x00002320, 0x4f4e4600} {
			if v == cur {
				continue
			}
			b := cp(base)
			binary.BigEndian.PutUint32(b[p:], v)
			if !out("word32", b) {
				return
			}
		}
	}
	// deletions and duplications of a span (with and without the outer length fixed)
	for i := 0; i < o.Random && n > 8; i++ {
		p := r.Intn(n)
		k := r.Pick(1, 2, 4, 8, 16, r.Range(1, 64))
		if p+k > n {
			k = n - p
		}
		del := append(cp(base[:p]), base[p+k:]...)
		dup := append(append(cp(base[:p+k]), base[p:p+k]...), base[p+k:]...)
		for _, b := range [][]byte{del, dup} {
			if len(b) > 65535 {
				continue
			}
			if !out("splice", cp(b)) {
				return
			}
			if o.Fix != nil && len(b) >= 4 {
				o.Fix(b)
				if !out("splice+fix", b) {
					return
				}
			}
		}
	}
	// extensions
	for _, m := range []int{n + 1, n + 4, n + 7, n + 8, n + 16, 2*n + 8, 4096, o.MaxExtend - 1, o.MaxExtend} {
		if m <= n || m > o.MaxExtend {
			continue
		}
		for _, fill := range []int{0, 0xff, -1} {
			b := make([]byte, m)
			copy(b, base)
			switch fill {
			case 0xff:
				for j := n; j < m; j++ {
					b[j] = 0xff
				}
			case -1:
				copy(b[n:], r.Bytes(m-n))
			}
			if !out("extend", cp(b)) {
				return
			}
			if o.Fix != nil {
				o.Fix(b)
				if !out("extend+fix", b) {
					return
				}
			}
		}
	}
	// random multi-byte corruption
	for i := 0; i < o.Random && n > 0; i++ {
		b := cp(base)
		k := r.Range(2, 8)
		for j := 0; j < k; j++ {
			p := r.Intn(n)
			if r.Chance(1, 2) {
				b[p] = hostileBytes[r.Intn(len(hostileBytes))]
			} else {
				b[p] = r.U8()
			}
		}
		if !out("multi", b) {
			return
		}
	}
	// ---- classes driven by the value dictionary of the tree under test (harness/dict) ----
	// the constants an edit introduced (novel) all take part; of the others a PRNG sample
	ints := append([]uint64(nil), dict.NovelInts...)
	for i := 0; i < 8 && len(dict.Ints) > 0; i++ {
		ints = append(ints, dict.Ints[r.Intn(len(dict.Ints))])
	}
	// sizes: the input cut or zero-padded to exactly a dictionary value, and to the sizes link layers pad to
	sizes := []int{46, 60, 64}
	for _, v := range ints {
		if v > 0 && v <= uint64(o.MaxExtend) && v <= 65535 {
			sizes = append(sizes, int(v), int(v)+14)
		}
	}
	for _, m := range sizes {
		if m == n || m > o.MaxExtend {
			continue
		}
		b := make([]byte, m)
		copy(b, base)
		if !out("resize", cp(b)) {
			return
		}
		if o.Fix != nil && m >= 4 {
			o.Fix(b)
			if !out("resize+fix", b) {
				return
			}
		}
	}
	// a zero tail: everything from k on is padding
	for _, k := range positions(n, 48, r) {
		b := cp(base)
		for j := k; j < n; j++ {
			b[j] = 0
		}
		if !out("zerotail", b) {
			return
		}
	}
	// dictionary values as 8/16/32-bit fields at (sampled) every offset
	dpos := positions(n, 96, r)
	for _, v := range ints {
		for _, p := range dpos {
			switch {
			case v <= 0xff:
				if base[p] != byte(v) {
					b := cp(base)
					b[p] = byte(v)
					if !out("dict8", b) {
						return
					}
				}
				fallthrough
			case v <= 0xffff:
				if p+2 <= n && binary.BigEndian.Uint16(base[p:]) != uint16(v) {
					b := cp(base)
					binary.BigEndian.PutUint16(b[p:], uint16(v))
					if !out("dict16", b) {
						return
					}
				}
			case v <= 0xffffffff:
				if p+4 <= n {
					b := cp(base)
					binary.BigEndian.PutUint32(b[p:], uint32(v))
					if !out("dict32", b) {
						return
					}
				}
			}
		}
	}
	// byte-sequence literals of the tree written over / spliced into the input, each followed by the truncations
	// right behind it (a decoder that recognises the sequence reads on from there)
	toks := dict.NovelTokens
	if len(toks) == 0 && len(dict.Tokens) > 0 {
		toks = [][]byte{dict.Tokens[r.Intn(len(dict.Tokens))]}
	}
	for _, tk := range toks {
		for _, p := range positions(n, 64, r) {
			over := cp(base)
			if p+len(tk) > len(over) {
				over = append(over[:p], tk...)
			} else {
				copy(over[p:], tk)
			}
			ins := append(append(cp(base[:p]), tk...), base[p:]...)
			for _, b := range [][]byte{over, ins} {
				if len(b) > 65535 {
					continue
				}
				if !out("token", cp(b)) {
					return
				}
				for k := 0; k <= 8 && p+len(tk)+k < len(b); k++ {
					if !out("token+trunc", cp(b[:p+len(tk)+k])) {
						return
					}
				}
			}
		}
	}
	// a valid prefix followed by random bytes
	for i := 0; i < o.Random/4 && n > 8; i++ {
		keep := r.Pick(4, 8, 12, 16, 24, 32, r.Range(8, n))
		if keep > n {
			keep = n
		}
		b := cp(base)
		copy(b[keep:], r.Bytes(n-keep))
		if !out("random-tail", b) {
			return
		}
	}
}
