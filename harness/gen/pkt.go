package gen

import (
	"vh/prng"
	"vh/rec"
)

type FrameOpt struct {
	Decodable bool // unused for now: every generated frame is well-formed
	NoVlan0   bool // do not generate priority tags (VLAN id 0)
	MaxData   int
}

func dataLen(r *prng.R, o FrameOpt) int {
	n := r.Pick(0, 1, 8, 46, 100, r.Range(0, 1400))
	if r.Chance(1, 40) {
		n = r.Range(1400, 9000)
	}
	if o.MaxData > 0 && n > o.MaxData {
		n = o.MaxData
	}
	return n
}

func ICMP(r *prng.R, o FrameOpt) *rec.Rec {
	return rec.New("icmp").Set("type", r.Bits(8)).Set("code", r.Bits(8)).Set("checksum", r.Bits(16)).SetB("data", payloadBytes(r, dataLen(r, o)))
}
func UDP(r *prng.R, o FrameOpt) *rec.Rec {
	return rec.New("udp").Set("sport", r.Bits(16)).Set("dport", r.Bits(16)).Set("length", r.Bits(16)).Set("checksum", r.Bits(16)).SetB("data", payloadBytes(r, dataLen(r, o)))
}
func TCP(r *prng.R, o FrameOpt) *rec.Rec {
	return rec.New("tcp").Set("sport", r.Bits(16)).Set("dport", r.Bits(16)).Set("seq", r.Bits(32)).Set("ack", r.Bits(32)).Set("data_off", r.Bits(4)).
		Set("flags", r.Bits(6)).Set("window", r.Bits(16)).Set("checksum", r.Bits(16)).Set("urgent", r.Bits(16)).SetB("data", payloadBytes(r, dataLen(r, o)))
}
func ARP(r *prng.R) *rec.Rec {
	hl, pl := 6, 4
	ht, pt := r.Bits(16), r.Bits(16)
	switch r.Intn(10) {
	case 0: // other link and protocol types: EUI-64, InfiniBand, IPv6-sized addresses, empty ones
		hl, pl = r.Pick(6, 8, 20, 1, 0), r.Pick(4, 4, 16, 0)
	case 1: // type codes and lengths that belong together: Ethernet/IPv4 ...
		ht, pt = 1, 0x0800
	case 2: // ... IPv6-sized protocol addresses under the IPv6 ethertype
		ht, pt, pl = 1, 0x86dd, 16
	case 3: // ... EUI-64 and InfiniBand hardware addresses
		if r.Bool() {
			ht, hl = 27, 8
		} else {
			ht, hl = 32, 20
		}
		pt = 0x0800
	}
	return rec.New("arp").Set("htype", ht).Set("ptype", pt).Set("hlen", uint64(hl)).Set("plen", uint64(pl)).Set("oper", r.Bits(16)).
		SetB("sha", patBytes(r, hl)).SetB("spa", patBytes(r, pl)).SetB("tha", patBytes(r, hl)).SetB("tpa", patBytes(r, pl))
}

func IGMP12(r *prng.R) *rec.Rec {
	t := []uint64{0x11, 0x12, 0x16, 0x17, r.Bits(8)}[r.Intn(5)]
	return rec.New("igmp12").Set("type", t).Set("max_resp", r.Bits(8)).Set("checksum", r.Bits(16)).SetB("group", patBytes(r, 4))
}
func IGMP3Query(r *prng.R) *rec.Rec {
	n := r.Pick(0, 1, 2, 17, r.Range(0, 40))
	return rec.New("igmp3_query").Set("type", 0x11).Set("max_resp", r.Bits(8)).Set("checksum", r.Bits(16)).SetB("group", patBytes(r, 4)).
		SetBool("s", r.Bool()).Set("qrv", r.Bits(3)).Set("qqic", r.Bits(8)).SetB("sources", r.Bytes(4*n))
}
func IGMP3Record(r *prng.R) *rec.Rec {
	n := r.Pick(0, 1, 2, 17, r.Range(0, 30))
	aux := r.Pick(0, 0, 0, 1, 2)
	return rec.New("igmp3_record").Set("type", uint64(r.Range(1, 6))).SetB("mcast", patBytes(r, 4)).SetB("sources", r.Bytes(4*n)).SetB("aux", r.Bytes(4*aux))
}
func IGMP3Report(r *prng.R) *rec.Rec {
	m := rec.New("igmp3_report").Set("checksum", r.Bits(16)).SetL("records", nil)
	n := r.Pick(0, 1, 2, 17, r.Range(0, 10))
	for i := 0; i < n; i++ {
		m.Add("records", IGMP3Record(r))
	}
	return m
}

// transport picks the payload for an IP protocol number: (record or nil for opaque bytes)
func ipPayload(r *prng.R, proto uint8, v6 bool, p *rec.Rec, o FrameOpt) {
	switch {
	case proto == 1 && !v6, proto == 58 && v6:
		p.SetS("payload", ICMP(r, o))
	case proto == 17:
		p.SetS("payload", UDP(r, o))
	default:
		p.SetB("data", payloadBytes(r, dataLen(r, o)))
	}
}

func IPv4(r *prng.R, o FrameOpt) *rec.Rec {
	ihl := r.Pick(5, 5, 5, 6, 7, 15, r.Range(5, 15))
	proto := uint8(r.Pick(1, 17, 6, 2, 0, 255, 41, 58, int(r.U8())))
	p := rec.New("ipv4").Set("version", r.Bits(4)).Set("ihl", uint64(ihl)).Set("dscp", r.Bits(6)).Set("ecn", r.Bits(2)).Set("length", r.Bits(16)).
		Set("id", r.Bits(16)).Set("flags", r.Bits(3)).Set("frag_off", r.Bits(13)).Set("ttl", r.Bits(8)).Set("protocol", uint64(proto)).
		Set("checksum", r.Bits(16)).SetB("src", patBytes(r, 4)).SetB("dst", patBytes(r, 4))
	if r.Chance(3, 4) {
		p.Set("version", 4)
	}
	if ihl > 5 {
		p.SetB("options", r.Bytes(4*(ihl-5)))
	}
	ipPayload(r, proto, false, p, o)
	return p
}

func hbh(r *prng.R, next uint8) *rec.Rec {
	hel := r.Pick(0, 0, 1, 2, 3)
	if r.Chance(1, 12) { // long headers: the size 8*(HEL+1) no longer fits in 8 bits
		hel = r.Pick(30, 31, 32, 63, 64, 128, 255)
	}
	h := rec.New("hbh").Set("next_header", uint64(next)).Set("hel", uint64(hel)).SetL("options", nil)
	left := 8*(hel+1) - 2
	for left > 0 {
		// option = 2 + d bytes; never leave exactly 1 byte (that would need a Pad1 option)
		d := r.Intn(left - 1)
		if d > 253 {
			d = 253
		}
		if left-2-d == 1 {
			d++
		}
		if r.Chance(1, 3) && left-2 <= 255 {
			d = left - 2
		}
		h.Add("options", rec.New("ip6opt").Set("type", uint64(1+r.Intn(255))).SetB("data", r.Bytes(d)))
		left -= 2 + d
	}
	return h
}

func routing(r *prng.R, next uint8) *rec.Rec {
	hel := r.Pick(0, 0, 1, 2, 4)
	if r.Chance(1, 12) { // long headers (segment lists): the size 8*(HEL+1) no longer fits in 8 bits
		hel = r.Pick(30, 31, 32, 63, 64, 128, 255)
	}
	return rec.New("routing").Set("next_header", uint64(next)).Set("hel", uint64(hel)).Set("type", r.Bits(8)).Set("segments_left", r.Bits(8)).SetB("data", r.Bytes(8*(hel+1)-4))
}

func fragment(r *prng.R, next uint8) *rec.Rec {
	return rec.New("fragment").Set("next_header", uint64(next)).Set("reserved", r.Bits(8)).Set("frag_off", r.Bits(13)).SetBool("more", r.Bool()).Set("id", r.Bits(32))
}

var extCode = map[string]uint8{"hbh": 0, "routing": 43, "fragment": 44}

func IPv6(r *prng.R, o FrameOpt) *rec.Rec {
	var final uint8
	for {
		final = uint8(r.Pick(58, 17, 6, 59, 1, int(r.U8())))
		if final != 0 && final != 43 && final != 44 {
			break
		}
	}
	p := rec.New("ipv6").Set("version", r.Bits(4)).Set("tclass", r.Bits(8)).Set("flow_label", r.Bits(20)).Set("length", r.Bits(16)).
		Set("hop_limit", r.Bits(8)).SetB("src", patBytes(r, 16)).SetB("dst", patBytes(r, 16))
	if r.Chance(3, 4) {
		p.Set("version", 6)
	}
	// a chain of distinct extension headers in any order
	kinds := []string{"hbh", "routing", "fragment"}
	perm := r.Perm(3)
	n := r.Pick(0, 0, 1, 1, 2, 3)
	var chain []string
	for i := 0; i < n; i++ {
		chain = append(chain, kinds[perm[i]])
	}
	p.SetL("ext", nil)
	for i, k := range chain {
		next := final
		if i+1 < len(chain) {
			next = extCode[chain[i+1]]
		}
		switch k {
		case "hbh":
			p.Add("ext", hbh(r, next))
		case "routing":
			p.Add("ext", routing(r, next))
		case "fragment":
			p.Add("ext", fragment(r, next))
		}
	}
	if len(chain) > 0 {
		p.Set("next_header", uint64(extCode[chain[0]]))
	} else {
		p.Set("next_header", uint64(final))
	}
	ipPayload(r, final, true, p, o)
	return p
}

// Frame generates a well-formed Ethernet frame with a payload chain.
func Frame(r *prng.R, o FrameOpt) *rec.Rec {
	e := rec.New("ethernet").SetB("dst", patBytes(r, 6)).SetB("src", patBytes(r, 6))
	if r.Chance(1, 3) {
		vid := r.Bits(12)
		if vid == 0 && o.NoVlan0 {
			vid = 1
		}
		e.SetBool("has_vlan", true).Set("pcp", r.Bits(3)).Set("dei", r.Bits(1)).Set("vid", vid)
	}
	if e.Bool("has_vlan") && r.Chance(1, 6) {
		// stacked tags (Q-in-Q with the 0x8100 TPID): the frame type behind the outer tag is again 0x8100 and the
		// inner tag travels as opaque payload
		inner := append([]byte{byte(r.Bits(8)), byte(1 + r.Intn(200))}, r.Bytes(r.Pick(2, 2, 6, 30, 100))...)
		if r.Bool() { // a second stacked tag
			inner = append([]byte{inner[0], inner[1], 0x81, 0x00}, inner...)
		}
		return e.Set("ethertype", 0x8100).SetB("data", inner)
	}
	switch r.Intn(8) {
	case 0, 1, 2:
		e.Set("ethertype", 0x0800).SetS("payload", IPv4(r, o))
	case 3, 4:
		e.Set("ethertype", 0x86dd).SetS("payload", IPv6(r, o))
	case 5:
		e.Set("ethertype", 0x0806).SetS("payload", ARP(r))
	default:
		var et uint64
		for {
			et = r.Bits(16)
			if et != 0x0800 && et != 0x86dd && et != 0x0806 && et != 0x8100 {
				break
			}
		}
		e.Set("ethertype", et).SetB("data", payloadBytes(r, dataLen(r, o)))
		if r.Chance(1, 5) {
			// a protocol the library has a codec for but does not dispatch from the frame type today: a real LLDPDU
			// behind ethertype 0x88cc (opaque payload for the pinned tree; whatever decodes it must give it back whole)
			e.Set("ethertype", 0x88cc).SetB("data", lldpdu(r))
		}
	}
	return e
}

// lldpdu: chassis id, port id and TTL TLVs in this order, 0..3 optional TLVs, and the end-of-LLDPDU TLV (IEEE 802.1AB).
func lldpdu(r *prng.R) []byte {
	tlv := func(t int, v []byte) []byte {
		return append([]byte{byte(t<<1 | len(v)>>8), byte(len(v))}, v...)
	}
	b := tlv(1, append([]byte{byte(r.Range(1, 7))}, r.Bytes(r.Pick(1, 6, 6, 17, 255))...))
	b = append(b, tlv(2, append([]byte{byte(r.Range(1, 7))}, r.Bytes(r.Pick(1, 2, 6, 30))...))...)
	b = append(b, tlv(3, []byte{byte(r.Bits(8)), byte(r.Bits(8))})...)
	for k := r.Pick(0, 1, 2, 3); k > 0; k-- {
		b = append(b, tlv(r.Pick(4, 5, 6, 7, 8, 127), r.Bytes(r.Pick(0, 2, 4, 12, 40, 300)))...)
	}
	return append(b, 0, 0)
}

func DHCP(r *prng.R) *rec.Rec {
	d := rec.New("dhcp").Set("op", uint64(r.Range(0, 8))).Set("htype", 1).Set("hlen", uint64(r.Pick(6, 6, 0, 16, r.Range(0, 16)))).Set("hops", r.Bits(8)).
		Set("xid", 1+r.Bits(31)).Set("secs", r.Bits(16)).Set("flags", r.Bits(16)).SetB("ciaddr", patBytes(r, 4)).SetB("yiaddr", patBytes(r, 4)).
		SetB("siaddr", patBytes(r, 4)).SetB("giaddr", patBytes(r, 4)).SetB("sname", patBytes(r, 64)).SetB("file", patBytes(r, 128))
	ch := make([]byte, 16)
	copy(ch, r.Bytes(int(d.U("hlen"))))
	d.SetB("chaddr", ch).SetL("options", nil)
	if r.Chance(1, 6) {
		// option overload (RFC 2132, option 52): the file and/or sname fields carry further options - here option
		// lists that themselves contain an overload option, pads and an end mark
		ov := uint64(r.Range(1, 3))
		d.Add("options", rec.New("dhcp_opt").Set("tag", 52).SetB("data", []byte{byte(ov)}))
		tlvs := []byte{52, 1, byte(r.Range(1, 3)), 0, 12, 3, 'a', 'b', 'c', 52, 1, 3, 255}
		file := make([]byte, 128)
		copy(file, tlvs)
		sname := make([]byte, 64)
		copy(sname, tlvs[3:])
		d.SetB("file", file).SetB("sname", sname)
	}
	n := r.Pick(0, 1, 2, 5, r.Range(0, 12))
	for i := 0; i < n; i++ {
		tag := uint64(r.Range(1, 254))
		if r.Chance(1, 6) {
			tag = 0 // pad
		}
		o := rec.New("dhcp_opt").Set("tag", tag)
		if tag != 0 {
			o.SetB("data", r.Bytes(r.Pick(0, 1, 4, r.Range(0, 60))))
		}
		d.Add("options", o)
	}
	return d
}

func LLDP(r *prng.R) *rec.Rec {
	return rec.New("lldp").
		SetS("chassis", rec.New("lldp_chassis").Set("subtype", uint64(r.Range(1, 7))).SetB("id", r.Bytes(r.Range(1, 20)))).
		SetS("port", rec.New("lldp_port").Set("subtype", uint64(r.Range(1, 7))).SetB("id", r.Bytes(r.Range(1, 20)))).
		SetS("ttl", rec.New("lldp_ttl").Set("seconds", r.Bits(16)))
}

// PacketKinds are the packet-header kinds with a decoder of their own.
var PacketKinds = []string{"ethernet", "vlan", "arp", "ipv4", "ipv6", "hbh", "routing", "fragment", "ip6opt", "icmp", "udp", "tcp",
	"igmp12", "igmp3_query", "igmp3_record", "igmp3_report", "dhcp", "lldp", "lldp_chassis", "lldp_port", "lldp_ttl"}

// PacketOfKind generates a well-formed header of the given kind.
func PacketOfKind(r *prng.R, kind string, o FrameOpt) *rec.Rec {
	switch kind {
	case "ethernet":
		return Frame(r, o)
	case "vlan":
		return rec.New("vlan").Set("tpid", 0x8100).Set("pcp", r.Bits(3)).Set("dei", r.Bits(1)).Set("vid", r.Bits(12))
	case "arp":
		return ARP(r)
	case "ipv4":
		return IPv4(r, o)
	case "ipv6":
		return IPv6(r, o)
	case "hbh":
		return hbh(r, r.U8())
	case "routing":
		return routing(r, r.U8())
	case "fragment":
		return fragment(r, r.U8())
	case "ip6opt":
		return rec.New("ip6opt").Set("type", r.Bits(8)).SetB("data", r.Bytes(r.Pick(0, 1, 4, 6, r.Range(0, 60))))
	case "icmp":
		return ICMP(r, o)
	case "udp":
		return UDP(r, o)
	case "tcp":
		return TCP(r, o)
	case "igmp12":
		return IGMP12(r)
	case "igmp3_query":
		return IGMP3Query(r)
	case "igmp3_record":
		return IGMP3Record(r)
	case "igmp3_report":
		return IGMP3Report(r)
	case "dhcp":
		return DHCP(r)
	case "lldp":
		return LLDP(r)
	case "lldp_chassis":
		return LLDP(r).Sub("chassis")
	case "lldp_port":
		return LLDP(r).Sub("port")
	case "lldp_ttl":
		return LLDP(r).Sub("ttl")
	}
	return nil
}

// payloadBytes returns n opaque payload bytes; one time in four some of them spell values that mean something to a
// decoder one layer up or down (VLAN / IPv4 / IPv6 / ARP ethertypes, the Nicira and ONF experimenter ids, all-ones
// type codes, an OpenFlow header) at the offsets where such a decoder would look.
func payloadBytes(r *prng.R, n int) []byte {
	b := r.Bytes(n)
	if n < 4 || !r.Chance(1, 4) {
		return b
	}
	words := [][]byte{{0x81, 0x00}, {0x88, 0xa8}, {0x08, 0x00}, {0x86, 0xdd}, {0x08, 0x06}, {0xff, 0xff}, {0x00, 0x00, 0x23, 0x20}, {0x4f, 0x4e, 0x46, 0x00}, {0x04, 0x0a, 0x00, 0x08}, {0x00, 0x00}}
	for k := r.Pick(1, 2, 3); k > 0; k-- {
		w := words[r.Intn(len(words))]
		at := r.Pick(0, 2, 4, 8, 12, 14, 16, r.Intn(n))
		if at+len(w) <= n {
			copy(b[at:], w)
		}
	}
	return b
}
