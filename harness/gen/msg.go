package gen

import (
	"vh/prng"
	"vh/rec"
	"vh/spec"
)

// ControllerKinds: every controller-originated message kind of C01.
var ControllerKinds = []string{"hello", "echo_request", "echo_reply", "features_request", "get_config_request", "barrier_request",
	"set_config", "flow_mod", "group_mod", "packet_out", "port_mod", "mp_request", "nx_set_controller_id", "nx_tlv_table_mod",
	"nx_tlv_table_request", "bundle_control", "bundle_add"}

type MsgOpt struct {
	DecodableOnly bool
	Big           bool // steer towards near-65535 sizes
	NoTyped       bool // payloads as raw bytes only
}

// ControllerMessage generates a recipe of the given kind that fits in 65535 bytes by the reference size.
func ControllerMessage(r *prng.R, kind string, o MsgOpt) *rec.Rec {
	for try := 0; ; try++ {
		m := controllerMessage(r, kind, o, try)
		if _, err := spec.EncodeMessage(m); err == nil {
			return m
		}
		if try > 20 {
			o.Big = false
		}
	}
}

func tlvMaps(r *prng.R, cap int) []*rec.Rec {
	n := listLen(r, cap)
	out := []*rec.Rec{}
	for i := 0; i < n; i++ {
		out = append(out, rec.New("tlv_map").Set("opt_class", r.Bits(16)).Set("opt_type", r.Bits(8)).Set("opt_len", r.Bits(8)).Set("index", r.Bits(16)))
	}
	return out
}

func controllerMessage(r *prng.R, kind string, o MsgOpt, try int) *rec.Rec {
	m := rec.New(kind).Set("xid", uint64(r.U32()))
	ao := ActOpt{DecodableOnly: o.DecodableOnly}
	mfo := MFOpt{DecodableOnly: o.DecodableOnly}
	capScale := 1
	if o.Big && try < 15 {
		capScale = 40
	}
	switch kind {
	case "hello":
		m.SetL("elements", []*rec.Rec{rec.New("hello_versionbitmap").SetB("bitmaps", HelloDefaultBitmap())})
		if r.Chance(1, 2) { // further version-bitmap elements of 1..3 words appended to the constructor's default one
			for n := r.Pick(1, 1, 2, 3); n > 0; n-- {
				m.Add("elements", rec.New("hello_versionbitmap").SetB("bitmaps", r.Bytes(4*r.Pick(1, 2, 2, 3, 4, 6, 7, 8, 15))))
			}
			if r.Bool() { // and the default element itself with more words
				m.List("elements")[0].SetB("bitmaps", append(HelloDefaultBitmap(), r.Bytes(4*r.Pick(1, 2))...))
			}
		}
	case "echo_request", "echo_reply", "features_request", "get_config_request", "barrier_request", "nx_tlv_table_request":
	case "set_config":
		m.Set("flags", r.Bits(16)).Set("miss_send_len", r.Bits(16))
	case "flow_mod":
		cmd := uint64(r.Intn(5))
		if r.Chance(1, 30) {
			cmd = r.Bits(8)
		}
		m.Set("cookie", r.Bits(64)).Set("cookie_mask", r.Bits(64)).Set("table_id", r.Bits(8)).Set("command", cmd).
			Set("idle_timeout", r.Bits(16)).Set("hard_timeout", r.Bits(16)).Set("priority", r.Bits(16)).Set("buffer_id", r.Bits(32)).
			Set("out_port", r.Bits(32)).Set("out_group", r.Bits(32)).Set("flags", r.Bits(16))
		m.SetS("match", Match(r, 12*capScale, mfo))
		m.SetL("instructions", nil)
		n := listLen(r, 5)
		for i := 0; i < n; i++ {
			m.Add("instructions", Instruction(r, ao, 8*capScale))
		}
	case "group_mod":
		cmd := uint64(r.Intn(3))
		m.Set("command", cmd).Set("type", uint64(r.Intn(4))).Set("group_id", r.Bits(32)).SetL("buckets", nil)
		if r.Chance(1, 30) {
			m.Set("type", r.Bits(8))
		}
		n := listLen(r, 6*capScale)
		for i := 0; i < n; i++ {
			m.Add("buckets", Bucket(r, ao, 5))
		}
	case "packet_out":
		m.Set("buffer_id", r.Bits(32)).Set("in_port", r.Bits(32)).SetL("actions", Actions(r, 6*capScale, ao))
		switch r.Intn(6) {
		case 0: // no payload call at all (buffered packet)
		case 1:
			m.SetBool("_set_data", true) // SetData with an empty slice
		case 2, 3:
			n := r.Pick(1, 14, 60, 64, 1500, r.Range(1, 3000))
			if o.Big {
				n = r.Range(30000, 65000)
			}
			m.SetB("data", r.Bytes(n))
		default:
			if o.NoTyped {
				m.SetB("data", r.Bytes(r.Range(14, 200)))
			} else {
				m.SetS("packet", Frame(r, FrameOpt{NoVlan0: true})) // a VLAN tag with id 0 is not representable in the API (C09)
			}
		}
	case "port_mod":
		m.Set("port_no", r.Bits(32)).SetB("hw_addr", patBytes(r, r.Pick(6, 6, 6, 6, 0, 8, 20, 1))).Set("config", r.Bits(32)).Set("mask", r.Bits(32)).Set("advertise", r.Bits(32))
	case "mp_request":
		t := []uint64{0, 1, 2, 3, 4, 5, 13}[r.Intn(7)]
		m.Set("type", t).Set("flags", r.Bits(16))
		switch t {
		case 1, 2:
			k := "flow_stats_request"
			if t == 2 {
				k = "aggregate_stats_request"
			}
			b := rec.New(k).Set("table_id", r.Bits(8)).Set("out_port", r.Bits(32)).Set("out_group", r.Bits(32)).Set("cookie", r.Bits(64)).Set("cookie_mask", r.Bits(64))
			b.SetS("match", Match(r, 10*capScale, mfo))
			m.SetS("body", b)
		case 4:
			m.SetS("body", rec.New("port_stats_request").Set("port_no", r.Bits(32)))
		case 5:
			m.SetS("body", rec.New("queue_stats_request").Set("port_no", r.Bits(32)).Set("queue_id", r.Bits(32)))
		}
	case "nx_set_controller_id":
		m.Set("id", r.Bits(16))
	case "nx_tlv_table_mod":
		m.Set("command", uint64(r.Intn(3))).SetL("maps", tlvMaps(r, 10*capScale))
	case "bundle_control":
		m.Set("bundle_id", r.Bits(32)).Set("type", uint64(r.Intn(8))).Set("flags", r.Bits(16))
	case "bundle_add":
		var inner string
		for {
			inner = ControllerKinds[r.Intn(len(ControllerKinds))]
			if inner != "bundle_add" {
				break
			}
		}
		if r.Chance(1, 2) {
			inner = []string{"flow_mod", "group_mod", "port_mod", "packet_out"}[r.Intn(4)]
		}
		m.Set("bundle_id", r.Bits(32)).Set("flags", r.Bits(16)).SetS("message", controllerMessage(r, inner, o, try))
		if r.Chance(1, 3) { // experimenter properties as the API can build them: header only (no payload setter exists)
			for n := r.Pick(1, 1, 2, 3); n > 0; n-- {
				m.Add("properties", rec.New("bundle_property").Set("type", 0xffff).SetB("body", r.Bytes(8)))
			}
		}
	}
	return withDefaults(r, m)
}

// SwitchKinds: every switch-originated kind of C04.
var SwitchKinds = []string{"hello", "error", "exp_error", "echo_request", "echo_reply", "features_reply", "get_config_reply", "packet_in",
	"flow_removed", "port_status", "mp_reply:desc", "mp_reply:flow", "mp_reply:aggregate", "mp_reply:table", "mp_reply:port_stats",
	"mp_reply:queue", "mp_reply:port_desc", "barrier_reply", "nx_tlv_table_reply", "bundle_control"}

// Standard actions a switch reports in flow stats that the library has no constructor for.
var decodeOnlyActions = []string{"copy_ttl_out", "copy_ttl_in", "set_mpls_ttl", "dec_mpls_ttl", "set_nw_ttl", "push_pbb", "pop_pbb"}

func Port(r *prng.R) *rec.Rec {
	p := rec.New("port").Set("port_no", r.Bits(32)).SetB("hw_addr", patBytes(r, 6))
	name := make([]byte, 16)
	copy(name, []byte("eth-"+string(rune('a'+r.Intn(26)))+string(rune('0'+r.Intn(10)))))
	if r.Chance(1, 4) {
		name = r.Bytes(16)
	}
	p.SetB("name", name)
	for _, f := range []string{"config", "state", "curr", "advertised", "supported", "peer", "curr_speed", "max_speed"} {
		p.Set(f, r.Bits(32))
	}
	return p
}

func descString(r *prng.R, n int) []byte {
	b := make([]byte, n)
	l := r.Intn(n)
	for i := 0; i < l; i++ {
		b[i] = byte('A' + r.Intn(50))
	}
	return b
}

// SwitchMessage generates a specification-conformant switch-originated message recipe.
func SwitchMessage(r *prng.R, kind string) *rec.Rec {
	for {
		m := switchMessage(r, kind)
		if _, err := spec.EncodeMessage(m); err == nil {
			return m
		}
	}
}

func switchAction(r *prng.R, o ActOpt) *rec.Rec {
	if r.Chance(1, 5) {
		k := decodeOnlyActions[r.Intn(len(decodeOnlyActions))]
		a := rec.New(k)
		switch k {
		case "set_mpls_ttl", "set_nw_ttl":
			a.Set("ttl", r.Bits(8))
		case "push_pbb":
			a.Set("ethertype", r.Bits(16))
		}
		return a
	}
	return Action(r, o)
}

func switchInstruction(r *prng.R) *rec.Rec {
	o := ActOpt{DecodableOnly: true}
	switch r.Intn(8) {
	case 0:
		return rec.New("meter").Set("meter_id", r.Bits(32))
	case 1:
		return rec.New("clear_actions")
	}
	in := Instruction(r, o, 6)
	if in.K == "write_actions" || in.K == "apply_actions" {
		as := in.List("actions")
		for i := range as {
			if r.Chance(1, 6) {
				as[i] = switchAction(r, o)
			}
		}
	}
	return in
}

func switchMessage(r *prng.R, kind string) *rec.Rec {
	mfo := MFOpt{DecodableOnly: true}
	xid := uint64(r.U32())
	switch kind {
	case "hello":
		m := rec.New("hello").Set("xid", xid).SetL("elements", nil)
		ne := r.Pick(0, 1, 1, 1, 2)
		for i := 0; i < ne; i++ {
			nb := r.Pick(1, 1, 2, 3, 4, 6, 7, 8, 15)
			m.Add("elements", rec.New("hello_versionbitmap").SetB("bitmaps", r.Bytes(4*nb)))
		}
		return m
	case "error":
		t := uint64(r.Intn(14))
		n := r.Pick(0, 8, 64, r.Range(0, 300))
		if r.Chance(1, 40) {
			n = r.Range(60000, 65000)
		}
		return rec.New("error").Set("xid", xid).Set("type", t).Set("code", r.Bits(16)).SetB("data", r.Bytes(n))
	case "exp_error":
		return rec.New("exp_error").Set("xid", xid).Set("exp_type", uint64(r.Range(2300, 2315))).Set("experimenter", spec.ONFVendor).SetB("data", r.Bytes(r.Pick(0, 8, 64, r.Range(0, 300))))
	case "echo_request", "echo_reply":
		m := rec.New(kind).Set("xid", xid)
		if r.Bool() {
			m.SetB("data", r.Bytes(r.Range(1, 64)))
		}
		return m
	case "barrier_reply":
		return rec.New(kind).Set("xid", xid)
	case "features_reply":
		return rec.New(kind).Set("xid", xid).Set("datapath_id", r.Bits(64)).Set("n_buffers", r.Bits(32)).Set("n_tables", r.Bits(8)).
			Set("auxiliary_id", r.Bits(8)).Set("capabilities", r.Bits(32)).Set("reserved", r.Bits(32))
	case "get_config_reply":
		return rec.New(kind).Set("xid", xid).Set("flags", r.Bits(16)).Set("miss_send_len", r.Bits(16))
	case "packet_in":
		m := rec.New(kind).Set("xid", xid).Set("buffer_id", r.Bits(32)).Set("total_len", r.Bits(16)).Set("reason", uint64(r.Intn(3))).
			Set("table_id", r.Bits(8)).Set("cookie", r.Bits(64)).SetS("match", Match(r, 20, mfo))
		if r.Chance(1, 8) {
			return m // buffered: no data bytes
		}
		return m.SetS("packet", Frame(r, FrameOpt{Decodable: true}))
	case "flow_removed":
		return rec.New(kind).Set("xid", xid).Set("cookie", r.Bits(64)).Set("priority", r.Bits(16)).Set("reason", uint64(r.Intn(4))).Set("table_id", r.Bits(8)).
			Set("duration_sec", r.Bits(32)).Set("duration_nsec", r.Bits(32)).Set("idle_timeout", r.Bits(16)).Set("hard_timeout", r.Bits(16)).
			Set("packet_count", r.Bits(64)).Set("byte_count", r.Bits(64)).SetS("match", Match(r, 20, mfo))
	case "port_status":
		return rec.New(kind).Set("xid", xid).Set("reason", uint64(r.Intn(3))).SetS("port", Port(r))
	case "nx_tlv_table_reply":
		return rec.New(kind).Set("xid", xid).Set("max_space", r.Bits(32)).Set("max_fields", r.Bits(16)).SetL("maps", tlvMaps(r, 10))
	case "bundle_control":
		return rec.New(kind).Set("xid", xid).Set("bundle_id", r.Bits(32)).Set("type", uint64(1+2*r.Intn(4))).Set("flags", r.Bits(16))
	}
	// multipart replies
	m := rec.New("mp_reply").Set("xid", xid).Set("flags", uint64(r.Intn(2))).SetL("body", nil)
	switch kind {
	case "mp_reply:desc":
		m.Set("type", 0)
		m.Add("body", rec.New("desc_stats").SetB("mfr_desc", descString(r, 256)).SetB("hw_desc", descString(r, 256)).SetB("sw_desc", descString(r, 256)).
			SetB("serial_num", descString(r, 32)).SetB("dp_desc", descString(r, 256)))
	case "mp_reply:flow":
		m.Set("type", 1)
		n := listLen(r, 6)
		for i := 0; i < n; i++ {
			f := rec.New("flow_stats").Set("table_id", r.Bits(8)).Set("duration_sec", r.Bits(32)).Set("duration_nsec", r.Bits(32)).Set("priority", r.Bits(16)).
				Set("idle_timeout", r.Bits(16)).Set("hard_timeout", r.Bits(16)).Set("flags", r.Bits(16)).Set("cookie", r.Bits(64)).
				Set("packet_count", r.Bits(64)).Set("byte_count", r.Bits(64)).SetS("match", Match(r, 10, mfo)).SetL("instructions", nil)
			ni := listLen(r, 4)
			for j := 0; j < ni; j++ {
				f.Add("instructions", switchInstruction(r))
			}
			m.Add("body", f)
		}
	case "mp_reply:aggregate":
		m.Set("type", 2)
		m.Add("body", rec.New("aggregate_stats").Set("packet_count", r.Bits(64)).Set("byte_count", r.Bits(64)).Set("flow_count", r.Bits(32)))
	case "mp_reply:table":
		m.Set("type", 3)
		n := listLen(r, 12)
		for i := 0; i < n; i++ {
			m.Add("body", rec.New("table_stats").Set("table_id", r.Bits(8)).Set("active_count", r.Bits(32)).Set("lookup_count", r.Bits(64)).Set("matched_count", r.Bits(64)))
		}
	case "mp_reply:port_stats":
		m.Set("type", 4)
		n := listLen(r, 8)
		for i := 0; i < n; i++ {
			p := rec.New("port_stats").Set("port_no", r.Bits(32)).Set("duration_sec", r.Bits(32)).Set("duration_nsec", r.Bits(32))
			for _, f := range spec.PortStatsCounters {
				p.Set(f, r.Bits(64))
			}
			m.Add("body", p)
		}
	case "mp_reply:queue":
		m.Set("type", 5)
		n := listLen(r, 8)
		for i := 0; i < n; i++ {
			m.Add("body", rec.New("queue_stats").Set("port_no", r.Bits(32)).Set("queue_id", r.Bits(32)).Set("tx_bytes", r.Bits(64)).Set("tx_packets", r.Bits(64)).
				Set("tx_errors", r.Bits(64)).Set("duration_sec", r.Bits(32)).Set("duration_nsec", r.Bits(32)))
		}
	case "mp_reply:port_desc":
		m.Set("type", 13)
		n := listLen(r, 8)
		for i := 0; i < n; i++ {
			m.Add("body", Port(r))
		}
	default:
		panic("gen: unknown switch kind " + kind)
	}
	return m
}
