package gen

import (
	"vh/dict"
	"vh/prng"
	"vh/rec"
	"vh/spec"
)

// Saturated recipes: one list of a message filled with as many (minimal) elements as the 16-bit frame length allows,
// or up to a target size just below it. They reach what bounded list lengths never do: element counts in the
// thousands, totals at exactly the largest legal frame, counters and offsets near the top of their type.

func encSize(m *rec.Rec) int {
	b, err := spec.EncodeMessage(m)
	if err != nil {
		return -1
	}
	return len(b)
}

// fillList appends clones of elem to holder.L[name] until the message has the largest size <= target it can reach.
func fillList(m, holder *rec.Rec, name string, elem *rec.Rec, target int) bool {
	s0 := encSize(m)
	if s0 < 0 {
		return false
	}
	add := func(n int) {
		for ; n > 0; n-- {
			holder.Add(name, elem.Clone())
		}
	}
	add(8)
	s8 := encSize(m)
	if s8 <= s0 || s8 > target {
		return false
	}
	per := float64(s8-s0) / 8
	add(int(float64(target-s8)/per) - 8)
	for i := 0; i < 40; i++ { // top up one by one (padding makes the per-element size uneven)
		add(1)
		if s := encSize(m); s < 0 || s > target {
			l := holder.L[name]
			holder.L[name] = l[:len(l)-1]
			break
		}
	}
	s := encSize(m)
	return s > 0 && s <= 65535
}

func satTarget(r *prng.R) int {
	t := r.Pick(65535, 65535, 65535, 65528, 65527, 65520, 61440, 32776)
	if n := len(dict.NovelInts); n > 0 && r.Chance(1, 3) {
		// element counts and sizes an edit introduced as constants: aim just above them
		if v := int(dict.NovelInts[r.Intn(n)]); v > 64 && v < 65000 {
			t = v + r.Pick(8, 64, 200)
		}
	}
	return t
}

var SaturatedControllerFamilies = 12
var SaturatedSwitchFamilies = 9

// SaturatedController gives the k-th family of saturated controller-originated messages.
func SaturatedController(r *prng.R, k int) *rec.Rec {
	xid := uint64(r.U32())
	target := satTarget(r)
	pop := rec.New("pop_vlan")
	out := rec.New("output").Set("port", r.Bits(32)).Set("max_len", r.Bits(16))
	bucket := rec.New("bucket").Set("weight", r.Bits(16)).Set("watch_port", r.Bits(32)).Set("watch_group", r.Bits(32)).SetL("actions", nil)
	flowMod := func() *rec.Rec {
		return rec.New("flow_mod").Set("xid", xid).Set("cookie", r.Bits(64)).Set("cookie_mask", r.Bits(64)).Set("table_id", r.Bits(8)).Set("command", uint64(r.Intn(3))).
			Set("idle_timeout", r.Bits(16)).Set("hard_timeout", r.Bits(16)).Set("priority", r.Bits(16)).Set("buffer_id", r.Bits(32)).
			Set("out_port", r.Bits(32)).Set("out_group", r.Bits(32)).Set("flags", r.Bits(16)).SetS("match", rec.New("match").SetL("fields", nil)).SetL("instructions", nil)
	}
	var m *rec.Rec
	ok := false
	switch k % SaturatedControllerFamilies {
	case 0: // group-mod: empty buckets
		m = rec.New("group_mod").Set("xid", xid).Set("command", uint64(r.Intn(2))).Set("type", uint64(r.Intn(4))).Set("group_id", r.Bits(32)).SetL("buckets", nil)
		ok = fillList(m, m, "buckets", bucket, target)
	case 1: // group-mod: one bucket with an action first, so that the total can land on every multiple of 8
		m = rec.New("group_mod").Set("xid", xid).Set("command", uint64(r.Intn(2))).Set("type", uint64(r.Intn(4))).Set("group_id", r.Bits(32)).SetL("buckets", nil)
		b := bucket.Clone()
		b.Add("actions", out)
		m.Add("buckets", b)
		ok = fillList(m, m, "buckets", bucket, target)
	case 2: // group-mod: one bucket with thousands of actions
		m = rec.New("group_mod").Set("xid", xid).Set("command", 0).Set("type", 0).Set("group_id", r.Bits(32)).SetL("buckets", nil)
		b := bucket.Clone()
		m.Add("buckets", b)
		ok = fillList(m, b, "actions", pop, target)
	case 3: // flow-mod: one apply-actions instruction filled with minimal actions
		m = flowMod()
		in := rec.New("apply_actions").SetL("actions", nil)
		m.Add("instructions", in)
		ok = fillList(m, in, "actions", pop, target)
	case 4: // flow-mod: thousands of instructions
		m = flowMod()
		ok = fillList(m, m, "instructions", rec.New("goto_table").Set("table_id", r.Bits(8)), target)
	case 5: // flow-mod: a match with thousands of fields
		m = flowMod()
		f := MatchField(r, MFOpt{NoMask: true, DecodableOnly: true})
		ok = fillList(m, m.Sub("match"), "fields", f, target)
	case 6: // packet-out: actions up to the limit of actions_len, then data
		m = rec.New("packet_out").Set("xid", xid).Set("buffer_id", r.Bits(32)).Set("in_port", r.Bits(32)).SetL("actions", nil)
		ok = fillList(m, m, "actions", pop, target-r.Pick(0, 7, 14))
		if ok {
			if d := target - encSize(m); d > 0 {
				m.SetB("data", r.Bytes(d))
				ok = encSize(m) > 0
			}
		}
	case 7: // hello with thousands of elements
		m = rec.New("hello").Set("xid", xid).SetL("elements", []*rec.Rec{rec.New("hello_versionbitmap").SetB("bitmaps", HelloDefaultBitmap())})
		ok = fillList(m, m, "elements", rec.New("hello_versionbitmap").SetB("bitmaps", r.Bytes(4)), target)
	case 8: // TLV table mod with thousands of mappings
		m = rec.New("nx_tlv_table_mod").Set("xid", xid).Set("command", uint64(r.Intn(3))).SetL("maps", nil)
		ok = fillList(m, m, "maps", rec.New("tlv_map").Set("opt_class", r.Bits(16)).Set("opt_type", r.Bits(8)).Set("opt_len", r.Bits(8)).Set("index", r.Bits(16)), target)
	case 9: // bundle-add around a saturated flow-mod
		inner := flowMod()
		in := rec.New("write_actions").SetL("actions", nil)
		inner.Add("instructions", in)
		m = rec.New("bundle_add").Set("xid", xid).Set("bundle_id", r.Bits(32)).Set("flags", r.Bits(16)).SetS("message", inner)
		ok = fillList(m, in, "actions", out, target)
	case 10: // flow-stats request with a saturated match
		b := rec.New("flow_stats_request").Set("table_id", r.Bits(8)).Set("out_port", r.Bits(32)).Set("out_group", r.Bits(32)).Set("cookie", r.Bits(64)).Set("cookie_mask", r.Bits(64)).
			SetS("match", rec.New("match").SetL("fields", nil))
		m = rec.New("mp_request").Set("xid", xid).Set("type", 1).Set("flags", r.Bits(16)).SetS("body", b)
		ok = fillList(m, b.Sub("match"), "fields", MatchField(r, MFOpt{DecodableOnly: true}), target)
	case 11: // a conntrack action holding as many nested actions as its 16-bit length allows
		m = flowMod()
		in := rec.New("apply_actions").SetL("actions", nil)
		m.Add("instructions", in)
		ct := ActionOfKind(r, "nx_ct", ActOpt{Depth: 2, DecodableOnly: true})
		ct.SetL("actions", nil)
		in.Add("actions", ct)
		ok = fillList(m, ct, "actions", ActionOfKind(r, "nx_nat", ActOpt{Depth: 3, InCT: true, DecodableOnly: true}), target)
	}
	if !ok || m == nil {
		return ControllerMessage(r, "flow_mod", MsgOpt{Big: true, DecodableOnly: true})
	}
	return m
}

// SaturatedSwitch gives the k-th family of saturated switch-originated messages.
func SaturatedSwitch(r *prng.R, k int) *rec.Rec {
	xid := uint64(r.U32())
	target := satTarget(r)
	mfo := MFOpt{DecodableOnly: true}
	flowStats := func() *rec.Rec {
		return rec.New("flow_stats").Set("table_id", r.Bits(8)).Set("duration_sec", r.Bits(32)).Set("duration_nsec", r.Bits(32)).Set("priority", r.Bits(16)).
			Set("idle_timeout", r.Bits(16)).Set("hard_timeout", r.Bits(16)).Set("flags", r.Bits(16)).Set("cookie", r.Bits(64)).
			Set("packet_count", r.Bits(64)).Set("byte_count", r.Bits(64)).SetS("match", rec.New("match").SetL("fields", nil)).SetL("instructions", nil)
	}
	mp := func(t uint64) *rec.Rec {
		return rec.New("mp_reply").Set("xid", xid).Set("flags", uint64(r.Intn(2))).Set("type", t).SetL("body", nil)
	}
	var m *rec.Rec
	ok := false
	switch k % SaturatedSwitchFamilies {
	case 0: // flow stats: as many minimal records as fit
		m = mp(1)
		ok = fillList(m, m, "body", flowStats(), target)
	case 1: // flow stats: one record with thousands of actions
		m = mp(1)
		f := flowStats()
		in := rec.New("apply_actions").SetL("actions", nil)
		f.Add("instructions", in)
		m.Add("body", f)
		ok = fillList(m, in, "actions", rec.New("pop_vlan"), target)
	case 2: // flow stats: one record with a saturated match
		m = mp(1)
		f := flowStats()
		m.Add("body", f)
		ok = fillList(m, f.Sub("match"), "fields", MatchField(r, mfo), target)
	case 3: // port descriptions
		m = mp(13)
		ok = fillList(m, m, "body", Port(r), target)
	case 4: // hello with thousands of elements
		m = rec.New("hello").Set("xid", xid).SetL("elements", nil)
		ok = fillList(m, m, "elements", rec.New("hello_versionbitmap").SetB("bitmaps", r.Bytes(4)), target)
	case 5: // packet-in with a saturated match and a frame behind it
		m = rec.New("packet_in").Set("xid", xid).Set("buffer_id", r.Bits(32)).Set("total_len", r.Bits(16)).Set("reason", uint64(r.Intn(3))).
			Set("table_id", r.Bits(8)).Set("cookie", r.Bits(64)).SetS("match", rec.New("match").SetL("fields", nil))
		m.SetS("packet", Frame(r, FrameOpt{Decodable: true, MaxData: 64}))
		ok = fillList(m, m.Sub("match"), "fields", MatchField(r, mfo), target)
	case 6: // flow-removed with a saturated match
		m = rec.New("flow_removed").Set("xid", xid).Set("cookie", r.Bits(64)).Set("priority", r.Bits(16)).Set("reason", uint64(r.Intn(4))).Set("table_id", r.Bits(8)).
			Set("duration_sec", r.Bits(32)).Set("duration_nsec", r.Bits(32)).Set("idle_timeout", r.Bits(16)).Set("hard_timeout", r.Bits(16)).
			Set("packet_count", r.Bits(64)).Set("byte_count", r.Bits(64)).SetS("match", rec.New("match").SetL("fields", nil))
		ok = fillList(m, m.Sub("match"), "fields", MatchField(r, mfo), target)
	case 7: // TLV table reply with thousands of mappings
		m = rec.New("nx_tlv_table_reply").Set("xid", xid).Set("max_space", r.Bits(32)).Set("max_fields", r.Bits(16)).SetL("maps", nil)
		ok = fillList(m, m, "maps", rec.New("tlv_map").Set("opt_class", r.Bits(16)).Set("opt_type", r.Bits(8)).Set("opt_len", r.Bits(8)).Set("index", r.Bits(16)), target)
	case 8: // an error carrying as much of the offending message as fits
		m = rec.New("error").Set("xid", xid).Set("type", uint64(r.Intn(14))).Set("code", r.Bits(16))
		if s := encSize(m); s > 0 && target > s {
			m.SetB("data", r.Bytes(target-s))
			ok = encSize(m) > 0
		}
	}
	if !ok || m == nil {
		return SwitchMessage(r, "mp_reply:flow")
	}
	return m
}
