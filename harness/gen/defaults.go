package gen

import (
	"sort"
	"sync"
	"sync/atomic"

	"github.com/contiv/libOpenflow/common"
	of "github.com/contiv/libOpenflow/openflow13"
	"github.com/contiv/libOpenflow/util"

	"vh/lib"
	"vh/prng"
	"vh/rec"
)

// Defaults holds, per recipe kind, the non-zero values the library's own constructors put into scalar fields (learned
// at start-up from the tree under test by constructing and extracting: an output action's max_len, a flow-mod's
// buffer id and out port, ...). The recipe builders overwrite every field, so without this a value that a caller
// gets by not touching a field would only be met by chance.
var Defaults = map[string]map[string]uint64{}

var noDefault = map[string]bool{"xid": true, "command": true, "type": true, "length": true, "zone_src": true, "zone_ofs_nbits": true, "subtype": true, "vendor": true}

func learn(kind string, f func() (*rec.Rec, error)) {
	defer func() { recover() }()
	r, err := f()
	if err != nil || r == nil {
		return
	}
	for name, v := range r.N {
		if v == 0 || noDefault[name] || name[0] == '_' {
			continue
		}
		if Defaults[kind] == nil {
			Defaults[kind] = map[string]uint64{}
		}
		Defaults[kind][name] = v
	}
}

// HoldDefaults, while set, keeps the generators from learning (and using) the defaults: the first-use storm of the
// concurrency checks must itself be the first user of the library in its process.
var HoldDefaults atomic.Bool

var learnOnce sync.Once

// helloDefault is the version bitmap (as wire bytes) the library's own hello constructor puts into its first element;
// no property pins its contents, so the recipes take it from the tree under test.
var helloDefault = []byte{0, 0, 0, 0x12}

// HelloDefaultBitmap returns the bitmap bytes of the hello the library constructs by default.
func HelloDefaultBitmap() []byte {
	if !HoldDefaults.Load() {
		learnOnce.Do(learnDefaults)
	}
	return append([]byte(nil), helloDefault...)
}

func learnDefaults() {
	act := func(kind string, mk func() of.Action) {
		learn(kind, func() (*rec.Rec, error) { return lib.ExtractAction(mk()) })
	}
	msg := func(kind string, mk func() util.Message) {
		learn(kind, func() (*rec.Rec, error) { return lib.ExtractMessage(mk()) })
	}
	act("output", func() of.Action { return of.NewActionOutput(0) })
	act("nx_ct", func() of.Action { return of.NewNXActionConnTrack() })
	act("nx_nat", func() of.Action { return of.NewNXActionCTNAT() })
	act("nx_learn", func() of.Action { return of.NewNXActionLearn() })
	act("nx_controller", func() of.Action { return of.NewNXActionController(0) })
	act("nx_resubmit", func() of.Action { return of.NewNXActionResubmit(0) })
	act("nx_resubmit_table", func() of.Action { return of.NewNXActionResubmitTableAction(0, 0) })
	act("nx_ct_resubmit", func() of.Action { return of.NewNXActionResubmitTableCT(0, 0) })
	act("nx_conjunction", func() of.Action { return of.NewNXActionConjunction(0, 0, 0) })
	act("nx_note", func() of.Action { return of.NewNXActionNote() })
	act("nx_dec_ttl_cnt_ids", func() of.Action { return of.NewNXActionDecTTLCntIDs(0) })
	msg("flow_mod", func() util.Message { return of.NewFlowMod() })
	msg("group_mod", func() util.Message { return of.NewGroupMod() })
	msg("packet_out", func() util.Message { return of.NewPacketOut() })
	msg("port_mod", func() util.Message { return of.NewPortMod(0) })
	msg("set_config", func() util.Message { return of.NewSetConfig() })
	func() {
		defer func() { recover() }()
		h, err := common.NewHello(4)
		if err != nil || h == nil || len(h.Elements) != 1 {
			return
		}
		if vb, ok := h.Elements[0].(*common.HelloElemVersionBitmap); ok && len(vb.Bitmaps) > 0 && len(vb.Bitmaps) <= 8 {
			var b []byte
			for _, w := range vb.Bitmaps {
				b = append(b, byte(w>>24), byte(w>>16), byte(w>>8), byte(w))
			}
			helloDefault = b
		}
	}()
}

// withDefaults replaces, with probability 1/5 each, scalar fields of a recipe by the constructor's default. One PRNG
// draw per candidate field, whatever the outcome.
func withDefaults(r *prng.R, a *rec.Rec) *rec.Rec {
	if HoldDefaults.Load() {
		return a
	}
	learnOnce.Do(learnDefaults)
	d := Defaults[a.K]
	if len(d) == 0 {
		return a
	}
	names := make([]string, 0, len(d))
	for n := range d {
		names = append(names, n)
	}
	sort.Strings(names)
	for _, n := range names {
		u := r.U64()
		if _, ok := a.N[n]; ok && u%5 == 0 {
			a.N[n] = d[n]
		}
	}
	return a
}
