package gen

import (
	"testing"

	"vh/prng"
	"vh/rec"
	"vh/spec"
)

// The reference model must be self-inverse on the generated corpus before it is trusted.
func TestSpecSelfInverse(t *testing.T) {
	r := prng.New(42)
	n := 0
	for i := 0; i < 20000; i++ {
		var m *rec.Rec
		if i%2 == 0 {
			m = ControllerMessage(r, ControllerKinds[i/2%len(ControllerKinds)], MsgOpt{Big: i%97 == 0})
		} else {
			m = SwitchMessage(r, SwitchKinds[i/2%len(SwitchKinds)])
		}
		b, err := spec.EncodeMessage(m)
		if err != nil {
			t.Fatalf("encode %s: %v", m.K, err)
		}
		d, err := spec.DecodeMessage(b)
		if err != nil {
			t.Fatalf("walker rejects reference encoding of %s: %v\n%s\n%x", m.K, err, m, b)
		}
		want := spec.Canon(m.Clone())
		// payload given as a packet recipe is compared as bytes
		normPayload(want)
		if p, dd := rec.Diff(want, spec.Canon(d)); p != "" || dd != "" {
			t.Fatalf("decode(encode(%s)) differs at %s: %s\n%s\n%s", m.K, p, dd, want, d)
		}
		n++
	}
	t.Logf("%d messages", n)
}

func normPayload(m *rec.Rec) {
	m.Walk(func(r *rec.Rec) {
		if (r.K == "packet_in" || r.K == "packet_out") && r.Sub("packet") != nil {
			b, err := spec.EncodePacket(r.Sub("packet"))
			if err != nil {
				panic(err)
			}
			delete(r.S, "packet")
			r.SetB("data", b)
		}
	})
	m.Normalize()
}

func TestSaturatedFamilies(t *testing.T) {
	for k := 0; k < SaturatedControllerFamilies; k++ {
		m := SaturatedController(prng.Derive(5, uint64(k)), k)
		b, err := spec.EncodeMessage(m)
		if err != nil || len(b) < 30000 {
			t.Errorf("controller family %d: %s, %d bytes, %v", k, m.K, len(b), err)
		}
	}
	for k := 0; k < SaturatedSwitchFamilies; k++ {
		m := SaturatedSwitch(prng.Derive(5, uint64(k)), k)
		b, err := spec.EncodeMessage(m)
		if err != nil || len(b) < 30000 {
			t.Errorf("switch family %d: %s, %d bytes, %v", k, m.K, len(b), err)
		}
	}
}
