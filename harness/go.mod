module vh

go 1.21

require (
	github.com/contiv/libOpenflow v0.0.0
	github.com/sirupsen/logrus v1.9.0
	golang.org/x/exp v0.0.0-20230420155350-5d9e357047b1
)

require golang.org/x/sys v0.1.0 // indirect

replace github.com/contiv/libOpenflow => /repo
