// Package fw is the check framework: properties register a deterministic case
// generator and an evaluator (the monitor/oracle); the parent process shards the
// case list over worker processes, aggregates what the monitors observed,
// applies the known-findings file, writes evidence and replay files and prints
// VIOLATION / KNOWN-FINDING lines.
package fw

import (
	"encoding/json"
	"fmt"
	"sort"
	"strings"
	"testing"
)

// Prop describes one property check.
type Prop struct {
	ID   string
	Race bool // must run in the -race binary; race reports are violations
	// VirtualTime: the workers run inside a test function (testing.Main) so that cases can enter a testing/synctest
	// bubble, where time is virtual: library timers fire in logical time, stalls of hours cost nothing
	VirtualTime bool
	Level       string // evidence level, default "exploration"
	Rule        string // how cases are generated and what counts as distinct / non-trivial
	// NumCases is the size of the seed-determined case list for a tier.
	NumCases func(tier string, seed uint64) int
	// Gen returns the i-th case (JSON-serialisable; pure function of tier, seed, i).
	Gen func(tier string, seed uint64, i int) any
	// NewCase returns an empty value that a case can be unmarshalled into (replay / witnesses).
	NewCase func() any
	// Eval runs the real code on the case and records observations in c.
	Eval func(c *Ctx, data any)
	// Exhaustive reports whether the tier enumerates a finite space completely.
	Exhaustive func(tier string) bool
	// Minimum checks that the run observed enough to mean anything (else the check is broken, exit 3).
	Minimum func(a *Agg) error
	// Assumptions listed in the evidence file.
	Assumptions []string
	// Workers overrides the default worker count (0 = default).
	Workers int
	// MaxSamples kept in evidence (default 6).
	MaxSamples int
	// Extra adds property-specific keys to the evidence coverage (runs in the parent after aggregation).
	Extra func(a *Agg) map[string]any
	// Setup is called once in every worker before any case (optional).
	Setup func(tier string, seed uint64)
}

var registry = map[string]*Prop{}

func Register(p *Prop) {
	if p.Level == "" {
		p.Level = "exploration"
	}
	if p.MaxSamples == 0 {
		p.MaxSamples = 6
	}
	registry[p.ID] = p
}

func Lookup(id string) *Prop { return registry[id] }

func IDs() []string {
	s := make([]string, 0, len(registry))
	for k := range registry {
		s = append(s, k)
	}
	sort.Strings(s)
	return s
}

// Violation is one observed departure from the property.
type Violation struct {
	Kind   string          `json:"kind"`
	Class  string          `json:"class"`
	Locus  string          `json:"locus"`
	Detail string          `json:"detail"`
	Index  int             `json:"index"`
	Case   json.RawMessage `json:"case,omitempty"`
}

func (v *Violation) Key() string {
	return fmt.Sprintf("kind=%s class=%s locus=%s", v.Kind, v.Class, v.Locus)
}

func clean(s string) string {
	s = strings.TrimSpace(s)
	s = strings.Map(func(r rune) rune {
		if r == ' ' || r == '\t' || r == '\n' || r == '"' {
			return '_'
		}
		return r
	}, s)
	if s == "" {
		return "-"
	}
	return s
}

// Ctx is handed to Eval; it accumulates what the monitor observed.
type Ctx struct {
	Prop     *Prop
	Tier     string
	Seed     uint64
	Index    int
	caseData any
	w        *workerState
}

func (c *Ctx) Violation(kind, class, locus, detail string) {
	v := Violation{Kind: clean(kind), Class: clean(class), Locus: clean(locus), Detail: detail, Index: c.Index}
	key := v.Key()
	c.w.violCount[key]++
	if c.w.violCount[key] > 1 {
		return // keep only the first instance per key per worker
	}
	if len(v.Detail) > 4000 {
		v.Detail = v.Detail[:4000] + "…"
	}
	if c.caseData != nil {
		if b, err := json.Marshal(c.caseData); err == nil {
			v.Case = b
		}
	}
	c.w.viol = append(c.w.viol, v)
}

// ViolationCase reports a violation whose replay case is caseData (a single concrete input) instead of the whole generated case.
func (c *Ctx) ViolationCase(kind, class, locus, detail string, caseData any) {
	saved := c.caseData
	c.caseData = caseData
	c.Violation(kind, class, locus, detail)
	c.caseData = saved
}

func (c *Ctx) Count(name string, n int64) { c.w.counters[name] += n }

func (c *Ctx) Max(name string, v int64) {
	if cur, ok := c.w.maxes[name]; !ok || v > cur {
		c.w.maxes[name] = v
	}
}

// Set adds member to the named string set (kinds covered, loci seen ...).
func (c *Ctx) Set(name, member string) {
	s := c.w.sets[name]
	if s == nil {
		s = map[string]bool{}
		c.w.sets[name] = s
	}
	if len(s) < 5000 {
		s[member] = true
	}
}

// Distinct records the hash of a case (or sub-case); nontrivial ones are counted in the evidence.
func (c *Ctx) Distinct(hash uint64, nontrivial bool) {
	c.w.evals++
	if nontrivial {
		c.w.hashes = append(c.w.hashes, hash)
		if len(c.w.hashes) >= 1<<16 {
			c.w.flushHashes()
		}
	}
}

// Evaluations adds n to the number of evaluations without recording hashes.
func (c *Ctx) Evaluations(n int64) { c.w.evals += n }

func (c *Ctx) Sample(v any) {
	if len(c.w.samples) >= c.Prop.MaxSamples {
		return
	}
	b, err := json.Marshal(v)
	if err != nil {
		return
	}
	if len(b) > 6000 {
		b, _ = json.Marshal(map[string]any{"truncated": string(b[:6000])})
	}
	c.w.samples = append(c.w.samples, b)
}

// WantSample reports whether another sample would be kept (to avoid building expensive ones).
func (c *Ctx) WantSample() bool { return len(c.w.samples) < c.Prop.MaxSamples }

func (c *Ctx) Inconclusive(why string) {
	c.w.counters["inconclusive"]++
	if len(c.w.inconclusive) < 20 {
		c.w.inconclusive = append(c.w.inconclusive, fmt.Sprintf("case=%d %s", c.Index, why))
	}
}

// Poison marks the process as unusable (a runaway goroutine is still burning CPU or memory); the worker
// reports and exits after this case and the parent restarts the shard behind it.
func (c *Ctx) Poison() { c.w.poisoned = true }

// Poisoned reports whether this worker was marked for replacement (a guarded call may still be running).
func (c *Ctx) Poisoned() bool { return c.w.poisoned }

// Recycle asks for a fresh worker process after this case for housekeeping reasons (e.g. goroutines that finished
// streams leave behind); unlike Poison it does not count towards the restart limit of the shard.
func (c *Ctx) Recycle() { c.w.poisoned = true; c.w.recycled = true }

// Agg is the aggregate over all workers, used for evidence and the Minimum rule.
type Agg struct {
	Evals        int64
	Distinct     int64
	DistinctLow  bool // true when the hash set overflowed its cap (value is a lower bound)
	Counters     map[string]int64
	Maxes        map[string]int64
	Sets         map[string]map[string]bool
	Samples      []json.RawMessage
	Viol         []Violation
	ViolCount    map[string]int64
	Inconclusive []string
	Cases        int
	CasesRun     int
}

func (a *Agg) SetSize(name string) int { return len(a.Sets[name]) }

// T is the test context of a worker that runs under testing.Main (nil otherwise).
var T *testing.T
