package fw

import (
	"fmt"
	"runtime"
	"runtime/debug"
	"runtime/metrics"
	"strings"
	"syscall"
	"time"
)

// Verdict of running one library call under the totality monitor.
type Verdict struct {
	Class string // "" (returned), "panic", "alloc", "cpu"
	Panic string
	Stack string
	Alloc uint64        // bytes allocated (cumulative) during the call
	CPU   time.Duration // process CPU time consumed during the call
}

const (
	// AllocBase + AllocPerByte*len(input) is the allocation budget of one decode call.
	AllocBase    = 4 << 20
	AllocPerByte = 1024
	// CPUBudget is process CPU time (not wall clock), so machine load cannot trip it.
	CPUBudget = 4 * time.Second
)

var allocSample = []metrics.Sample{{Name: "/gc/heap/allocs:bytes"}}

var cycleSample = []metrics.Sample{{Name: "/gc/cycles/total:gc-cycles"}}

func gcCycles() uint64 {
	metrics.Read(cycleSample)
	if cycleSample[0].Value.Kind() == metrics.KindUint64 {
		return cycleSample[0].Value.Uint64()
	}
	return 0
}

func allocNow() uint64 {
	metrics.Read(allocSample)
	if allocSample[0].Value.Kind() == metrics.KindUint64 {
		return allocSample[0].Value.Uint64()
	}
	return 0
}

// CPUNow is the process CPU time (user + system) consumed so far.
func CPUNow() time.Duration { return cpuNow() }

func cpuNow() time.Duration {
	var ru syscall.Rusage
	if err := syscall.Getrusage(syscall.RUSAGE_SELF, &ru); err != nil {
		return 0
	}
	return time.Duration(ru.Utime.Nano() + ru.Stime.Nano())
}

// Recover runs f and returns the recovered panic (value + stack) if any.
func Recover(f func()) (panicked bool, val string, stack string) {
	defer func() {
		if r := recover(); r != nil {
			panicked = true
			val = fmt.Sprint(r)
			stack = string(debug.Stack())
		}
	}()
	f()
	return
}

type guardDone struct {
	panicked bool
	val      string
	stack    string
}

// Guard runs f (a library call on an input of inputLen bytes) in its own goroutine and watches it:
// a panic, more than the allocation budget, or more than the CPU budget is a verdict. On "alloc"/"cpu" the
// goroutine may still be running: the caller must Poison() its context so the worker exits.
func Guard(inputLen int, f func()) Verdict {
	done := make(chan guardDone, 1)
	a0 := allocNow()
	budget := uint64(AllocBase + AllocPerByte*inputLen)
	go func() {
		p, v, s := Recover(f)
		done <- guardDone{p, v, s}
	}()
	finish := func(d guardDone) Verdict {
		used := allocNow() - a0
		if d.panicked {
			return Verdict{Class: "panic", Panic: d.val, Stack: d.stack, Alloc: used}
		}
		if used > budget {
			// The runtime's allocation counter is exact only at certain points: what the other processors allocated
			// earlier (in partly filled spans) is added when a garbage collection flushes their caches, which may
			// happen inside this window. A call that returned is therefore measured again, from a clean start
			// (after a collection), up to three times; it is over budget only if every measurement says so.
			for i := 0; i < 3; i++ {
				runtime.GC()
				cyc, a := gcCycles(), allocNow()
				if p, _, _ := Recover(f); p {
					break
				}
				u := allocNow() - a
				if gcCycles() == cyc && u <= budget {
					return Verdict{Alloc: u}
				}
				if gcCycles() == cyc && u < used {
					used = u
				}
			}
			return Verdict{Class: "alloc", Alloc: used}
		}
		return Verdict{Alloc: used}
	}
	rebased := false
	// fast path: most calls return within microseconds
	t := time.NewTimer(2 * time.Millisecond)
	select {
	case d := <-done:
		t.Stop()
		return finish(d)
	case <-t.C:
	}
	c0 := cpuNow()
	tick := time.NewTicker(300 * time.Microsecond)
	defer tick.Stop()
	for {
		select {
		case d := <-done:
			return finish(d)
		case <-tick.C:
			if used := allocNow() - a0; used > budget {
				if rebased {
					return Verdict{Class: "alloc", Alloc: used, CPU: cpuNow() - c0}
				}
				// first time over budget while still running: restart the count from a clean point (after a
				// collection has flushed every processor's statistics); a runaway goes over budget again from there
				rebased = true
				runtime.GC()
				a0 = allocNow()
			}
			if cpu := cpuNow() - c0; cpu > CPUBudget {
				return Verdict{Class: "cpu", CPU: cpu, Alloc: allocNow() - a0}
			}
		}
	}
}

// firstLibFrame returns the outermost-called (deepest in the printed stack = first printed after the runtime
// frames) library function of a stack dump, without line numbers.
func firstLibFrame(stack string) string {
	for _, ln := range strings.Split(stack, "\n") {
		ln = strings.TrimSpace(ln)
		if strings.HasPrefix(ln, "github.com/contiv/libOpenflow/") {
			if i := strings.LastIndex(ln, "("); i > 0 {
				ln = ln[:i]
			}
			return strings.TrimPrefix(ln, "github.com/contiv/libOpenflow/")
		}
	}
	return "unknown"
}

// LibFrame is exported for monitors: the library function in which a panic was raised.
func LibFrame(stack string) string { return firstLibFrame(stack) }

func trimStack(s string) string {
	lines := strings.Split(s, "\n")
	if len(lines) > 40 {
		lines = lines[:40]
	}
	return strings.Join(lines, "\n")
}

func TrimStack(s string) string { return trimStack(s) }
