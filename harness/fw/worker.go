package fw

import (
	"bufio"
	"encoding/binary"
	"encoding/json"
	"fmt"
	"io"
	"log"
	"os"
	"runtime/debug"

	"github.com/sirupsen/logrus"
)

type workerState struct {
	counters     map[string]int64
	maxes        map[string]int64
	sets         map[string]map[string]bool
	viol         []Violation
	violCount    map[string]int64
	samples      []json.RawMessage
	inconclusive []string
	hashes       []uint64
	hashFile     *os.File
	hashPath     string
	evals        int64
	poisoned     bool
	recycled     bool
}

func newWorkerState(hashPath string) *workerState {
	return &workerState{
		counters:  map[string]int64{},
		maxes:     map[string]int64{},
		sets:      map[string]map[string]bool{},
		violCount: map[string]int64{},
		hashPath:  hashPath,
	}
}

func (w *workerState) flushHashes() {
	if len(w.hashes) == 0 || w.hashPath == "" {
		w.hashes = w.hashes[:0]
		return
	}
	if w.hashFile == nil {
		f, err := os.OpenFile(w.hashPath, os.O_CREATE|os.O_WRONLY|os.O_APPEND, 0o644)
		if err != nil {
			w.hashes = w.hashes[:0]
			return
		}
		w.hashFile = f
	}
	buf := make([]byte, 8*len(w.hashes))
	for i, h := range w.hashes {
		binary.LittleEndian.PutUint64(buf[8*i:], h)
	}
	w.hashFile.Write(buf)
	w.hashes = w.hashes[:0]
}

// workerResult is what a worker prints as its last line ("R <json>").
type workerResult struct {
	Next         int                 `json:"next"` // next index of this shard still to run; -1 = shard finished
	Ran          int                 `json:"ran"`
	Evals        int64               `json:"evals"`
	Counters     map[string]int64    `json:"counters"`
	Maxes        map[string]int64    `json:"maxes"`
	Sets         map[string][]string `json:"sets"`
	Viol         []Violation         `json:"viol"`
	ViolCount    map[string]int64    `json:"viol_count"`
	Samples      []json.RawMessage   `json:"samples"`
	Inconclusive []string            `json:"inconclusive"`
	Poisoned     bool                `json:"poisoned"`
	Recycled     bool                `json:"recycled"`
}

// QuietLogs silences the library's loggers (it logs whole buffers on bad input).
func QuietLogs() {
	log.SetOutput(io.Discard)
	logrus.SetOutput(io.Discard)
	logrus.SetLevel(logrus.PanicLevel)
}

// RunWorker executes cases start, start+stride, ... < n of the property and prints the protocol on out.
func RunWorker(p *Prop, tier string, seed uint64, start, stride, n int, hashPath string, out io.Writer) {
	QuietLogs()
	debug.SetGCPercent(200)
	bw := bufio.NewWriterSize(out, 1<<16)
	w := newWorkerState(hashPath)
	if p.Setup != nil {
		p.Setup(tier, seed)
	}
	next := -1
	ran := 0
	for i := start; i < n; i += stride {
		fmt.Fprintf(bw, "B %d\n", i)
		bw.Flush()
		data := p.Gen(tier, seed, i)
		c := &Ctx{Prop: p, Tier: tier, Seed: seed, Index: i, caseData: data, w: w}
		evalGuarded(p, c, data)
		ran++
		if w.poisoned {
			if i+stride < n {
				next = i + stride
			}
			break
		}
	}
	w.flushHashes()
	if w.hashFile != nil {
		w.hashFile.Close()
	}
	res := workerResult{Next: next, Ran: ran, Evals: w.evals, Counters: w.counters, Maxes: w.maxes, Sets: map[string][]string{},
		Viol: w.viol, ViolCount: w.violCount, Samples: w.samples, Inconclusive: w.inconclusive, Poisoned: w.poisoned, Recycled: w.recycled}
	for k, s := range w.sets {
		for m := range s {
			res.Sets[k] = append(res.Sets[k], m)
		}
	}
	b, _ := json.Marshal(res)
	fmt.Fprintf(bw, "R %s\n", b)
	bw.Flush()
	if w.poisoned {
		os.Exit(0) // a runaway goroutine may still be running; leave at once
	}
}

// evalGuarded runs Eval and turns a panic that escapes the monitor itself into a violation of class "harness-panic"
// (library calls inside monitors are individually recovered; reaching this means an unexpected escape).
// BeforeCase and AfterCase (optional) run around every case in the worker, for monitors that watch all properties
// (e.g. canaries behind slices handed to the library).
var BeforeCase, AfterCase func(c *Ctx)

// VerboseCase: one case in eight runs with the library's logger at trace level (output discarded): the process-wide log
// level is the embedding program's choice, and code inside "if debug logging is on" blocks runs only then.
func VerboseCase(index int) bool { return (uint32(index)*2654435761>>9)%8 == 0 }

func evalGuarded(p *Prop, c *Ctx, data any) {
	if VerboseCase(c.Index) {
		logrus.SetLevel(logrus.TraceLevel)
		c.Count("cases_with_library_logging_at_trace_level", 1)
		defer logrus.SetLevel(logrus.PanicLevel)
	}
	if BeforeCase != nil {
		BeforeCase(c)
	}
	defer func() {
		if AfterCase != nil {
			AfterCase(c)
		}
	}()
	defer func() {
		if r := recover(); r != nil {
			c.Violation("case", "escaped-panic", firstLibFrame(string(debug.Stack())), fmt.Sprintf("panic escaped the monitor: %v\n%s", r, trimStack(string(debug.Stack()))))
		}
	}()
	p.Eval(c, data)
}

// RunOne evaluates a single concrete case in-process (replay, witnesses) and returns the violations.
func RunOne(p *Prop, tier string, seed uint64, index int, data any) ([]Violation, map[string]int64, bool) {
	QuietLogs()
	w := newWorkerState("")
	if p.Setup != nil {
		p.Setup(tier, seed)
	}
	c := &Ctx{Prop: p, Tier: tier, Seed: seed, Index: index, caseData: data, w: w}
	evalGuarded(p, c, data)
	return w.viol, w.counters, w.poisoned
}
