package fw

import (
	"bufio"
	"bytes"
	"encoding/binary"
	"encoding/json"
	"fmt"
	"io"
	"os"
	"os/exec"
	"path/filepath"
	"regexp"
	"sort"
	"strconv"
	"strings"
	"sync"
	"syscall"
	"time"

	"vh/prng"
)

type Options struct {
	Self     string // path of this binary
	VerifDir string // /verif
	RunDir   string // scratch directory for this run (removed by the caller)
	Workers  int
	Out      io.Writer
}

type knownEntry struct {
	Kind, Class, Locus string
	Witness            string
	Desc               string
	raw                string
}

func (k *knownEntry) matches(v *Violation) bool {
	return globEq(k.Kind, v.Kind) && globEq(k.Class, v.Class) && globEq(k.Locus, v.Locus)
}

// globEq matches s against pat where '*' stands for any (possibly empty) substring.
func globEq(pat, s string) bool {
	parts := strings.Split(pat, "*")
	if len(parts) == 1 {
		return pat == s
	}
	if !strings.HasPrefix(s, parts[0]) {
		return false
	}
	s = s[len(parts[0]):]
	for _, p := range parts[1 : len(parts)-1] {
		i := strings.Index(s, p)
		if i < 0 {
			return false
		}
		s = s[i+len(p):]
	}
	return strings.HasSuffix(s, parts[len(parts)-1])
}

var knownRe = regexp.MustCompile(`^known:\s+property=(\S+)\s+key="kind=(\S+) class=(\S+) locus=(\S+)"\s+witness=(\S+)\s+(.*)$`)

// LoadKnown reads the committed known-findings file (never written at run time).
func LoadKnown(verifDir, propID string) ([]knownEntry, error) {
	f, err := os.Open(filepath.Join(verifDir, "KNOWN_FINDINGS.txt"))
	if err != nil {
		if os.IsNotExist(err) {
			return nil, nil
		}
		return nil, err
	}
	defer f.Close()
	var out []knownEntry
	sc := bufio.NewScanner(f)
	sc.Buffer(make([]byte, 1<<20), 1<<20)
	for sc.Scan() {
		ln := strings.TrimSpace(sc.Text())
		if !strings.HasPrefix(ln, "known:") {
			continue // comments and "fixed:" entries suppress nothing
		}
		m := knownRe.FindStringSubmatch(ln)
		if m == nil {
			return nil, fmt.Errorf("KNOWN_FINDINGS.txt: malformed line: %s", ln)
		}
		if m[1] != propID {
			continue
		}
		out = append(out, knownEntry{Kind: m[2], Class: m[3], Locus: m[4], Witness: m[5], Desc: m[6], raw: ln})
	}
	return out, sc.Err()
}

// ReplayFile is the on-disk form of a witness (replay/ and known/).
type ReplayFile struct {
	Property string          `json:"property"`
	Tier     string          `json:"tier"`
	Seed     uint64          `json:"seed"`
	Index    int             `json:"index"`
	Key      string          `json:"key"`
	Detail   string          `json:"detail,omitempty"`
	Case     json.RawMessage `json:"case"`
}

type shardRun struct {
	lastBegun int
	result    *workerResult
	died      string
	stderr    string
	stalled   bool
	spinning  bool // stalled while burning CPU (decided on CPU time, not on the wall clock)
}

// procCPU returns the CPU time (user+system) a process has consumed, from /proc (0 if unavailable).
func procCPU(pid int) time.Duration {
	b, err := os.ReadFile(fmt.Sprintf("/proc/%d/stat", pid))
	if err != nil {
		return 0
	}
	s := string(b)
	if i := strings.LastIndex(s, ")"); i >= 0 {
		f := strings.Fields(s[i+1:])
		if len(f) > 13 {
			ut, _ := strconv.ParseInt(f[11], 10, 64)
			st, _ := strconv.ParseInt(f[12], 10, 64)
			return time.Duration(ut+st) * 10 * time.Millisecond
		}
	}
	return 0
}

// stallWindow: a worker that reports nothing for this long is stopped. No legitimate case takes more than a few
// seconds (stream cases wait at most 60 s for quiescence).
const stallWindow = 150 * time.Second

func runWorkerProc(p *Prop, o *Options, tier string, seed uint64, start, stride, n int, tag string) shardRun {
	hashPath := filepath.Join(o.RunDir, "hash."+tag)
	errPath := filepath.Join(o.RunDir, "stderr."+tag)
	args := []string{"--worker", "--prop", p.ID, "--tier", tier, "--seed", strconv.FormatUint(seed, 10),
		"--start", strconv.Itoa(start), "--stride", strconv.Itoa(stride), "--n", strconv.Itoa(n), "--hash", hashPath}
	cmd := exec.Command(o.Self, args...)
	cmd.Env = append(os.Environ(),
		"GORACE=halt_on_error=0 log_path="+filepath.Join(o.RunDir, "race."+tag),
		"GOTRACEBACK=all", "GOMEMLIMIT=6GiB")
	ef, _ := os.Create(errPath)
	cmd.Stderr = ef
	stdout, err := cmd.StdoutPipe()
	sr := shardRun{lastBegun: -1}
	if err != nil {
		sr.died = "pipe: " + err.Error()
		return sr
	}
	if err := cmd.Start(); err != nil {
		sr.died = "start: " + err.Error()
		return sr
	}
	var mu sync.Mutex
	lastActivity := time.Now()
	cpuAtActivity := procCPU(cmd.Process.Pid)
	doneCh := make(chan struct{})
	go func() { // generous wall-clock watchdog: its firing is inconclusive, never a violation
		t := time.NewTicker(5 * time.Second)
		defer t.Stop()
		for {
			select {
			case <-doneCh:
				return
			case <-t.C:
				mu.Lock()
				idle := time.Since(lastActivity)
				mu.Unlock()
				if idle > stallWindow {
					mu.Lock()
					sr.stalled = true
					// a silent worker that used more than half of the window's CPU time is spinning in the case it began
					if used := procCPU(cmd.Process.Pid) - cpuAtActivity; used > stallWindow/2 {
						sr.spinning = true
					}
					mu.Unlock()
					cmd.Process.Signal(syscall.SIGQUIT)
					time.Sleep(2 * time.Second)
					cmd.Process.Kill()
					return
				}
			}
		}
	}()
	rd := bufio.NewReaderSize(stdout, 1<<20)
	for {
		line, err := rd.ReadBytes('\n')
		if len(line) > 2 {
			mu.Lock()
			lastActivity = time.Now()
			cpuAtActivity = procCPU(cmd.Process.Pid)
			mu.Unlock()
			switch line[0] {
			case 'B':
				if v, e := strconv.Atoi(strings.TrimSpace(string(line[2:]))); e == nil {
					sr.lastBegun = v
				}
			case 'R':
				var r workerResult
				if e := json.Unmarshal(bytes.TrimSpace(line[2:]), &r); e == nil {
					sr.result = &r
				}
			}
		}
		if err != nil {
			break
		}
	}
	werr := cmd.Wait()
	close(doneCh)
	ef.Close()
	if sr.result == nil {
		sr.died = "worker ended without a result"
		if werr != nil {
			sr.died += ": " + werr.Error()
		}
	}
	if b, e := os.ReadFile(errPath); e == nil {
		if len(b) > 1<<20 {
			b = b[:1<<20]
		}
		sr.stderr = string(b)
	}
	return sr
}

func mergeResult(a *Agg, r *workerResult) {
	a.Evals += r.Evals
	a.CasesRun += r.Ran
	for k, v := range r.Counters {
		a.Counters[k] += v
	}
	for k, v := range r.Maxes {
		if cur, ok := a.Maxes[k]; !ok || v > cur {
			a.Maxes[k] = v
		}
	}
	for k, ms := range r.Sets {
		s := a.Sets[k]
		if s == nil {
			s = map[string]bool{}
			a.Sets[k] = s
		}
		for _, m := range ms {
			s[m] = true
		}
	}
	for k, v := range r.ViolCount {
		a.ViolCount[k] += v
	}
	a.Viol = append(a.Viol, r.Viol...)
	a.Samples = append(a.Samples, r.Samples...)
	a.Inconclusive = append(a.Inconclusive, r.Inconclusive...)
}

// RunCheck is the parent: returns the process exit code (0 held, 1 violation, 3 broken).
func RunCheck(p *Prop, tier string, seed uint64, o *Options) int {
	t0 := time.Now()
	out := o.Out
	known, err := LoadKnown(o.VerifDir, p.ID)
	if err != nil {
		fmt.Fprintf(out, "BROKEN property=%s %v\n", p.ID, err)
		return 3
	}
	knownStill := map[int]bool{}
	for i := range known {
		knownStill[i] = runWitness(p, o, &known[i], out)
	}

	n := p.NumCases(tier, seed)
	W := o.Workers
	if p.Workers > 0 {
		W = p.Workers
	}
	if W > n {
		W = n
	}
	if W < 1 {
		W = 1
	}
	agg := &Agg{Counters: map[string]int64{}, Maxes: map[string]int64{}, Sets: map[string]map[string]bool{}, ViolCount: map[string]int64{}, Cases: n}
	var mu sync.Mutex
	var wg sync.WaitGroup
	for k := 0; k < W; k++ {
		wg.Add(1)
		go func(k int) {
			defer wg.Done()
			start := k
			recycles := 0
			stalls := 0
			for attempt := 0; start >= 0 && start < n; attempt++ {
				if stalls >= 2 {
					mu.Lock()
					agg.Inconclusive = append(agg.Inconclusive, fmt.Sprintf("shard %d: stopped after %d stalled workers, cases from %d not run", k, stalls, start))
					agg.Counters["inconclusive"]++
					mu.Unlock()
					return
				}
				if attempt >= 12 {
					mu.Lock()
					agg.Inconclusive = append(agg.Inconclusive, fmt.Sprintf("shard %d: too many restarts, cases from %d not run", k, start))
					agg.Counters["inconclusive"]++
					mu.Unlock()
					return
				}
				sr := runWorkerProc(p, o, tier, seed, start, W, n, fmt.Sprintf("%d.%d.%d", k, attempt, recycles))
				mu.Lock()
				if sr.result != nil {
					mergeResult(agg, sr.result)
					start = sr.result.Next
					if sr.result.Recycled {
						attempt-- // a voluntary restart
						recycles++
					}
					mu.Unlock()
					continue
				}
				// the worker died: attribute to the case it had begun
				if sr.stalled && sr.spinning && sr.lastBegun >= 0 {
					// the worker burnt CPU for the whole window without finishing the case: a non-terminating library call
					v := Violation{Kind: "case", Class: "hang", Locus: "cpu", Index: sr.lastBegun,
						Detail: fmt.Sprintf("the worker consumed more than %v of CPU on this case without finishing it (a library call does not terminate)\n%s", stallWindow/2, trimStack(firstSpinning(sr.stderr)))}
					if b, e := json.Marshal(p.Gen(tier, seed, sr.lastBegun)); e == nil {
						v.Case = b
					}
					agg.Viol = append(agg.Viol, v)
					agg.ViolCount[v.Key()]++
					stalls++
				} else if sr.stalled {
					agg.Inconclusive = append(agg.Inconclusive, fmt.Sprintf("shard %d: wall-clock watchdog fired at case %d", k, sr.lastBegun))
					agg.Counters["inconclusive"]++
					stalls++
				} else if sr.lastBegun >= 0 {
					v := Violation{Kind: "case", Class: "crash", Locus: clean(crashLocus(sr.stderr)), Index: sr.lastBegun,
						Detail: sr.died + "\n" + trimStack(firstFatal(sr.stderr))}
					if b, e := json.Marshal(p.Gen(tier, seed, sr.lastBegun)); e == nil {
						v.Case = b
					}
					agg.Viol = append(agg.Viol, v)
					agg.ViolCount[v.Key()]++
				} else {
					agg.Inconclusive = append(agg.Inconclusive, fmt.Sprintf("shard %d: worker failed before any case: %s %s", k, sr.died, firstLines(sr.stderr, 5)))
					agg.Counters["inconclusive"]++
					agg.Counters["worker_start_failures"]++
					mu.Unlock()
					return
				}
				if sr.lastBegun >= 0 {
					start = sr.lastBegun + W
				} else {
					start = -1
				}
				mu.Unlock()
			}
		}(k)
	}
	wg.Wait()

	// race reports
	raceHarnessOnly := 0
	if p.Race {
		rv, ho := scanRaceLogs(o.RunDir)
		raceHarnessOnly = ho
		for _, v := range rv {
			agg.Viol = append(agg.Viol, v)
			agg.ViolCount[v.Key()]++
		}
		agg.Counters["race_reports_library"] = int64(len(rv))
		agg.Counters["race_reports_harness_only"] = int64(ho)
	}

	// distinct hashes
	set := map[uint64]struct{}{}
	const capSet = 8 << 20
	files, _ := filepath.Glob(filepath.Join(o.RunDir, "hash.*"))
	for _, f := range files {
		b, err := os.ReadFile(f)
		if err != nil {
			continue
		}
		for i := 0; i+8 <= len(b); i += 8 {
			if len(set) >= capSet {
				agg.DistinctLow = true
				break
			}
			set[binary.LittleEndian.Uint64(b[i:])] = struct{}{}
		}
	}
	agg.Distinct = int64(len(set))
	set = nil

	// classify violations
	sort.SliceStable(agg.Viol, func(i, j int) bool { return agg.Viol[i].Index < agg.Viol[j].Index })
	seen := map[string]bool{}
	unlisted := 0
	knownHits := map[string]int64{}
	for i := range agg.Viol {
		v := &agg.Viol[i]
		key := v.Key()
		if seen[key] {
			continue
		}
		seen[key] = true
		matched := false
		for j := range known {
			if known[j].matches(v) {
				matched = true
				knownHits[known[j].raw] += agg.ViolCount[key]
				break
			}
		}
		if matched {
			continue
		}
		unlisted++
		path := writeReplay(o.VerifDir, p.ID, tier, seed, v)
		fmt.Fprintf(out, "VIOLATION property=%s replay=%s key=\"%s\" count=%d\n", p.ID, path, key, agg.ViolCount[key])
		fmt.Fprintf(out, "  detail: %s\n", firstLines(v.Detail, 12))
	}
	for _, s := range agg.Inconclusive {
		fmt.Fprintf(out, "INCONCLUSIVE property=%s %s\n", p.ID, s)
	}

	broken := ""
	if agg.Counters["worker_start_failures"] > 0 {
		broken = "a worker process could not run"
	}
	if raceHarnessOnly > 0 && broken == "" {
		broken = fmt.Sprintf("%d race report(s) involve only harness frames (harness bug)", raceHarnessOnly)
	}
	if p.Minimum != nil && broken == "" && unlisted == 0 {
		if err := p.Minimum(agg); err != nil {
			broken = "observed too little: " + err.Error()
		}
	}
	if agg.Evals == 0 && broken == "" && unlisted == 0 {
		broken = "no evaluations were observed"
	}

	writeEvidence(p, tier, seed, o, agg, known, knownStill, knownHits, unlisted, time.Since(t0).Seconds())

	fmt.Fprintf(out, "SUMMARY property=%s tier=%s seed=%d cases=%d ran=%d evaluations=%d distinct_nontrivial=%d violations_unlisted=%d known_hits=%d inconclusive=%d wall_s=%.1f\n",
		p.ID, tier, seed, n, agg.CasesRun, agg.Evals, agg.Distinct, unlisted, len(knownHits), len(agg.Inconclusive), time.Since(t0).Seconds())
	if unlisted > 0 {
		return 1
	}
	if broken != "" {
		fmt.Fprintf(out, "BROKEN property=%s %s\n", p.ID, broken)
		return 3
	}
	return 0
}

func firstLines(s string, n int) string {
	lines := strings.Split(s, "\n")
	if len(lines) > n {
		lines = lines[:n]
	}
	return strings.Join(lines, "\n          ")
}

// firstSpinning extracts the stack of a running goroutine from a SIGQUIT dump.
func firstSpinning(stderr string) string {
	if i := strings.Index(stderr, "[running]"); i >= 0 {
		j := strings.LastIndex(stderr[:i], "goroutine ")
		if j >= 0 {
			return stderr[j:]
		}
	}
	if i := strings.Index(stderr, "[runnable]"); i >= 0 {
		j := strings.LastIndex(stderr[:i], "goroutine ")
		if j >= 0 {
			return stderr[j:]
		}
	}
	return firstFatal(stderr)
}

func firstFatal(stderr string) string {
	for _, marker := range []string{"fatal error:", "panic:", "runtime: ", "SIGSEGV", "signal: "} {
		if i := strings.Index(stderr, marker); i >= 0 {
			return stderr[i:]
		}
	}
	if len(stderr) > 3000 {
		return stderr[len(stderr)-3000:]
	}
	return stderr
}

func crashLocus(stderr string) string {
	s := firstFatal(stderr)
	kind := "unknown"
	if i := strings.Index(s, "\n"); i > 0 {
		first := s[:i]
		if len(first) > 60 {
			first = first[:60]
		}
		kind = first
	}
	return kind + "@" + firstLibFrame(s)
}

func writeReplay(verifDir, id, tier string, seed uint64, v *Violation) string {
	dir := filepath.Join(verifDir, "replay", id)
	os.MkdirAll(dir, 0o755)
	name := fmt.Sprintf("%016x.json", prng.Hash64([]byte(v.Key())))
	path := filepath.Join(dir, name)
	rf := ReplayFile{Property: id, Tier: tier, Seed: seed, Index: v.Index, Key: v.Key(), Detail: v.Detail, Case: v.Case}
	b, _ := json.MarshalIndent(rf, "", " ")
	os.WriteFile(path, b, 0o644)
	return path
}

// runWitness re-executes the witness of a known entry in a child process; prints KNOWN-FINDING if it still fails.
func runWitness(p *Prop, o *Options, k *knownEntry, out io.Writer) bool {
	path := k.Witness
	if !filepath.IsAbs(path) {
		path = filepath.Join(o.VerifDir, path)
	}
	cmd := exec.Command(o.Self, "--witness", path, "--prop", p.ID)
	cmd.Env = append(os.Environ(), "GORACE=halt_on_error=0 log_path="+filepath.Join(o.RunDir, "wrace"), "GOMEMLIMIT=6GiB")
	var buf bytes.Buffer
	cmd.Stdout = &buf
	cmd.Stderr = io.Discard
	done := make(chan error, 1)
	if err := cmd.Start(); err != nil {
		fmt.Fprintf(out, "INCONCLUSIVE property=%s witness %s could not run: %v\n", p.ID, k.Witness, err)
		return false
	}
	go func() { done <- cmd.Wait() }()
	select {
	case <-done:
	case <-time.After(300 * time.Second):
		cmd.Process.Kill()
		<-done
		fmt.Fprintf(out, "INCONCLUSIVE property=%s witness %s: wall-clock watchdog\n", p.ID, k.Witness)
		return false
	}
	still := false
	crashed := true
	for _, ln := range strings.Split(buf.String(), "\n") {
		if strings.HasPrefix(ln, "W ") {
			crashed = false
			var vs []Violation
			if json.Unmarshal([]byte(ln[2:]), &vs) == nil {
				for i := range vs {
					if k.matches(&vs[i]) {
						still = true
					}
				}
			}
		}
	}
	if crashed && k.Class == "crash" {
		still = true
	}
	if still {
		fmt.Fprintf(out, "KNOWN-FINDING: property=%s %s [key: kind=%s class=%s locus=%s]\n", p.ID, k.Desc, k.Kind, k.Class, k.Locus)
	} else {
		fmt.Fprintf(out, "KNOWN-FINDING-GONE: property=%s witness %s no longer fails (%s)\n", p.ID, k.Witness, k.Desc)
	}
	return still
}

// RunWitnessChild is the child side of runWitness.
func RunWitnessChild(p *Prop, path string, out io.Writer) int {
	b, err := os.ReadFile(path)
	if err != nil {
		fmt.Fprintf(out, "E %v\n", err)
		return 3
	}
	var rf ReplayFile
	if err := json.Unmarshal(b, &rf); err != nil {
		fmt.Fprintf(out, "E %v\n", err)
		return 3
	}
	data := p.NewCase()
	if err := json.Unmarshal(rf.Case, data); err != nil {
		fmt.Fprintf(out, "E %v\n", err)
		return 3
	}
	tier := rf.Tier
	if tier == "" {
		tier = "quick"
	}
	vs, _, _ := RunOne(p, tier, rf.Seed, rf.Index, data)
	if vs == nil {
		vs = []Violation{}
	}
	jb, _ := json.Marshal(vs)
	fmt.Fprintf(out, "W %s\n", jb)
	os.Stdout.Sync()
	os.Exit(0)
	return 0
}

// Replay re-runs one recorded case in-process and prints what the monitor says.
func Replay(p *Prop, path string, out io.Writer) int {
	b, err := os.ReadFile(path)
	if err != nil {
		fmt.Fprintf(out, "cannot read %s: %v\n", path, err)
		return 3
	}
	var rf ReplayFile
	if err := json.Unmarshal(b, &rf); err != nil {
		fmt.Fprintf(out, "bad replay file: %v\n", err)
		return 3
	}
	data := p.NewCase()
	if err := json.Unmarshal(rf.Case, data); err != nil {
		fmt.Fprintf(out, "bad case in replay file: %v\n", err)
		return 3
	}
	tier := rf.Tier
	if tier == "" {
		tier = "quick"
	}
	vs, _, _ := RunOne(p, tier, rf.Seed, rf.Index, data)
	for i := range vs {
		fmt.Fprintf(out, "VIOLATION property=%s replay=%s key=\"%s\"\n  detail: %s\n", p.ID, path, vs[i].Key(), vs[i].Detail)
	}
	if len(vs) == 0 {
		fmt.Fprintf(out, "replay of %s: the case holds on this tree\n", path)
		return 0
	}
	return 1
}

var raceFuncRe = regexp.MustCompile(`^\s+(\S+)\(`)

// scanRaceLogs parses the race detector's log files: returns violations for reports with a library frame and the
// number of reports with only harness frames.
func scanRaceLogs(runDir string) (viol []Violation, harnessOnly int) {
	files, _ := filepath.Glob(filepath.Join(runDir, "race.*"))
	seen := map[string]bool{}
	for _, f := range files {
		b, err := os.ReadFile(f)
		if err != nil {
			continue
		}
		blocks := strings.Split(string(b), "WARNING: DATA RACE")
		for _, blk := range blocks[1:] {
			if i := strings.Index(blk, "=================="); i >= 0 {
				blk = blk[:i]
			}
			// split into the stacks (separated by blank lines); take first lib frame of the first two access stacks
			var libs []string
			for _, part := range strings.Split(blk, "\n\n") {
				if !(strings.Contains(part, "Read at") || strings.Contains(part, "Write at") || strings.Contains(part, "Previous read") || strings.Contains(part, "Previous write") || strings.Contains(part, "revious atomic") || strings.Contains(part, "Atomic")) {
					continue
				}
				lib := ""
				for _, ln := range strings.Split(part, "\n") {
					if m := raceFuncRe.FindStringSubmatch(ln); m != nil && strings.Contains(m[1], "github.com/contiv/libOpenflow/") {
						lib = strings.TrimPrefix(m[1], "github.com/contiv/libOpenflow/")
						break
					}
				}
				libs = append(libs, lib)
			}
			hasLib := false
			for _, l := range libs {
				if l != "" {
					hasLib = true
				}
			}
			if !hasLib {
				// also look at the whole block (goroutine creation stacks do not count)
				harnessOnly++
				continue
			}
			sort.Strings(libs)
			locus := strings.Join(libs, "|")
			v := Violation{Kind: "race", Class: "race", Locus: clean(locus), Index: -1, Detail: "WARNING: DATA RACE" + trimStack(blk)}
			if seen[v.Key()] {
				continue
			}
			seen[v.Key()] = true
			v.Case = json.RawMessage(`{"note":"race report; re-run the check to reproduce"}`)
			viol = append(viol, v)
		}
	}
	return
}

func writeEvidence(p *Prop, tier string, seed uint64, o *Options, a *Agg, known []knownEntry, still map[int]bool, knownHits map[string]int64, unlisted int, wall float64) {
	cov := map[string]any{}
	cov["evaluations"] = a.Evals
	cov["distinct_nontrivial"] = a.Distinct
	rule := p.Rule
	if a.DistinctLow {
		rule += " (distinct_nontrivial is a lower bound: the hash set was capped at 8388608 entries)"
	}
	cov["rule"] = rule
	samples := a.Samples
	if len(samples) > p.MaxSamples {
		// spread over workers
		step := len(samples) / p.MaxSamples
		var s2 []json.RawMessage
		for i := 0; i < len(samples) && len(s2) < p.MaxSamples; i += step {
			s2 = append(s2, samples[i])
		}
		samples = s2
	}
	if samples == nil {
		samples = []json.RawMessage{}
	}
	cov["samples"] = samples
	cov["cases_planned"] = a.Cases
	cov["cases_run"] = a.CasesRun
	cov["counters"] = a.Counters
	if len(a.Maxes) > 0 {
		cov["max"] = a.Maxes
	}
	sets := map[string]any{}
	for k, s := range a.Sets {
		ms := make([]string, 0, len(s))
		for m := range s {
			ms = append(ms, m)
		}
		sort.Strings(ms)
		if len(ms) > 300 {
			sets[k] = map[string]any{"size": len(ms), "first": ms[:300]}
		} else {
			sets[k] = map[string]any{"size": len(ms), "members": ms}
		}
	}
	if len(sets) > 0 {
		cov["sets"] = sets
	}
	if p.Exhaustive != nil && p.Exhaustive(tier) && a.CasesRun == a.Cases {
		cov["exhaustive"] = true
	}
	var kf []map[string]any
	for i := range known {
		kf = append(kf, map[string]any{"entry": known[i].raw, "witness_still_fails": still[i], "instances_hit_in_exploration": knownHits[known[i].raw]})
	}
	if kf != nil {
		cov["known_findings"] = kf
	}
	if len(a.Inconclusive) > 0 {
		cov["inconclusive"] = a.Inconclusive
	}
	if p.Extra != nil {
		for k, v := range p.Extra(a) {
			cov[k] = v
		}
	}
	ev := map[string]any{
		"property_id": p.ID,
		"tier":        tier,
		"seed":        seed,
		"level":       p.Level,
		"coverage":    cov,
		"assumptions": p.Assumptions,
		"wall_s":      wall,
		"violations":  unlisted,
	}
	if p.Assumptions == nil {
		ev["assumptions"] = []string{}
	}
	b, _ := json.MarshalIndent(ev, "", " ")
	dir := filepath.Join(o.VerifDir, "evidence")
	if d := os.Getenv("VERIF_EVIDENCE_DIR"); d != "" { // runs against seeded changes must not overwrite the evidence of the real tree
		dir = d
	}
	os.MkdirAll(dir, 0o755)
	os.WriteFile(filepath.Join(dir, p.ID+".json"), b, 0o644)
}
