// Package dict holds the value dictionary of the tree under test: the integer constants and byte-sequence literals
// that occur in its source. Generators draw from it next to their boundary tables, the way a fuzzer uses a
// dictionary: a decoder that compares a field with 59, 0x0fff or "aa aa 03" is reached by inputs that carry those
// values. Entries that the pinned tree's baseline (known/dict-baseline.txt) does not have are kept apart as "novel"
// and drawn with a higher weight: they are the constants an edit introduced.
package dict

import (
	"bufio"
	"encoding/hex"
	"fmt"
	"go/ast"
	"go/constant"
	"go/parser"
	"go/token"
	"io"
	"os"
	"path/filepath"
	"sort"
	"strconv"
	"strings"
)

var (
	Ints        []uint64 // sorted, unique
	NovelInts   []uint64 // sorted, unique; also contained in Ints
	Tokens      [][]byte
	NovelTokens [][]byte
	Loaded      bool
)

var novelNamed = map[uint64]bool{}

// Names holds the named integer constants (package.NAME -> value) found by the last Extract.
var Names = map[string]uint64{}

func init() {
	if p := os.Getenv("VERIF_DICT"); p != "" {
		if f, err := os.Open(p); err == nil {
			Load(f)
			f.Close()
		}
	}
}

// Load reads the format Write produces.
func Load(r io.Reader) {
	sc := bufio.NewScanner(r)
	for sc.Scan() {
		f := strings.Fields(sc.Text())
		if len(f) == 3 && f[0] == "N" {
			// a named constant the baseline does not declare: its value counts as novel even when the number itself
			// occurs elsewhere in the tree (0xaa, 3, ... given a new meaning by an edit)
			if v, err := strconv.ParseUint(f[2], 10, 64); err == nil {
				novelNamed[v] = true
			}
			continue
		}
		if len(f) != 2 {
			continue
		}
		switch f[0] {
		case "i", "I":
			v, err := strconv.ParseUint(f[1], 10, 64)
			if err != nil {
				continue
			}
			Ints = append(Ints, v)
			if f[0] == "I" {
				NovelInts = append(NovelInts, v)
			}
		case "b", "B":
			b, err := hex.DecodeString(f[1])
			if err != nil || len(b) == 0 {
				continue
			}
			Tokens = append(Tokens, b)
			if f[0] == "B" {
				NovelTokens = append(NovelTokens, b)
			}
		}
	}
	if len(novelNamed) <= 12 { // an edit declares a few constants; a tree that renames everything is not drawn from
		have := map[uint64]bool{}
		for _, v := range NovelInts {
			have[v] = true
		}
		for v := range novelNamed {
			if !have[v] {
				NovelInts = append(NovelInts, v)
			}
		}
	}
	sort.Slice(Ints, func(i, j int) bool { return Ints[i] < Ints[j] })
	sort.Slice(NovelInts, func(i, j int) bool { return NovelInts[i] < NovelInts[j] })
	synthesize()
	Loaded = true
}

// synthesize: an edit may spell a byte sequence it recognises as separate one-byte constants (0xaa, 0xaa, 0x03) instead
// of a literal. When the tree has a few novel one-byte constants, every sequence of three of them (with repetition)
// becomes a novel token, alone and behind a 16-bit value just below the smallest novel 16-bit constant (a length-like
// field in front of the sequence).
func synthesize() {
	var bs []byte
	var small16 []uint64
	for _, v := range NovelInts {
		switch {
		case v >= 1 && v <= 0xff:
			bs = append(bs, byte(v))
		case v > 0xff && v <= 0xffff:
			small16 = append(small16, v)
		}
	}
	if len(bs) == 0 || len(bs) > 3 {
		return
	}
	for _, a := range bs {
		for _, b := range bs {
			for _, c := range bs {
				if len(small16) > 0 {
					w := small16[0] - 1
					NovelTokens = append(NovelTokens, []byte{byte(w >> 8), byte(w), a, b, c})
				} else {
					NovelTokens = append(NovelTokens, []byte{a, b, c})
				}
			}
		}
	}
}

// CountLE returns how many entries of a sorted list are <= max.
func CountLE(list []uint64, max uint64) int {
	return sort.Search(len(list), func(i int) bool { return list[i] > max })
}

// Extract scans the library packages of a tree.
func Extract(repo string) (ints []uint64, toks [][]byte, err error) {
	seenI := map[uint64]bool{}
	seenT := map[string]bool{}
	addI := func(v constant.Value) {
		if v == nil || v.Kind() != constant.Int {
			return
		}
		if u, ok := constant.Uint64Val(v); ok {
			seenI[u] = true
		} else if i, ok := constant.Int64Val(v); ok && i < 0 {
			seenI[uint64(-i)] = true
		}
	}
	for _, pkg := range []string{"common", "ofbase", "openflow13", "protocol", "util"} {
		files, _ := filepath.Glob(filepath.Join(repo, pkg, "*.go"))
		sort.Strings(files)
		for _, f := range files {
			if strings.HasSuffix(f, "_test.go") || strings.HasPrefix(filepath.Base(f), "verif_") {
				continue
			}
			fset := token.NewFileSet()
			af, perr := parser.ParseFile(fset, f, nil, 0)
			if perr != nil {
				return nil, nil, perr
			}
			for _, d := range af.Decls {
				gd, ok := d.(*ast.GenDecl)
				if !ok || gd.Tok != token.CONST {
					continue
				}
				for _, sp := range gd.Specs {
					vs, ok := sp.(*ast.ValueSpec)
					if !ok {
						continue
					}
					for i, nm := range vs.Names {
						if i < len(vs.Values) && nm.Name != "_" {
							if v := fold(vs.Values[i]); v != nil && v.Kind() == constant.Int {
								if u, ok := constant.Uint64Val(v); ok {
									Names[pkg+"."+nm.Name] = u
								}
							}
						}
					}
				}
			}
			ast.Inspect(af, func(n ast.Node) bool {
				switch x := n.(type) {
				case ast.Expr:
					if v := fold(x); v != nil {
						addI(v)
					}
					if cl, ok := x.(*ast.CompositeLit); ok {
						if b := byteSeq(cl); len(b) >= 2 && len(b) <= 16 {
							seenT[string(b)] = true
						}
					}
				}
				return true
			})
		}
	}
	for v := range seenI {
		ints = append(ints, v)
	}
	sort.Slice(ints, func(i, j int) bool { return ints[i] < ints[j] })
	var ts []string
	for t := range seenT {
		ts = append(ts, t)
	}
	sort.Strings(ts)
	for _, t := range ts {
		toks = append(toks, []byte(t))
	}
	return ints, toks, nil
}

func byteSeq(cl *ast.CompositeLit) []byte {
	at, ok := cl.Type.(*ast.ArrayType)
	if !ok {
		return nil
	}
	id, ok := at.Elt.(*ast.Ident)
	if !ok || (id.Name != "byte" && id.Name != "uint8") {
		return nil
	}
	var out []byte
	for _, e := range cl.Elts {
		v := fold(e)
		if v == nil {
			return nil
		}
		u, ok := constant.Uint64Val(v)
		if !ok || u > 255 {
			return nil
		}
		out = append(out, byte(u))
	}
	return out
}

// fold evaluates an expression made of integer literals and operators (no identifiers).
func fold(e ast.Expr) (v constant.Value) {
	defer func() {
		if recover() != nil {
			v = nil
		}
	}()
	switch x := e.(type) {
	case *ast.BasicLit:
		if x.Kind == token.INT || x.Kind == token.CHAR {
			c := constant.MakeFromLiteral(x.Value, x.Kind, 0)
			if c.Kind() == constant.Int {
				return c
			}
		}
	case *ast.ParenExpr:
		return fold(x.X)
	case *ast.UnaryExpr:
		if a := fold(x.X); a != nil && (x.Op == token.SUB || x.Op == token.XOR || x.Op == token.ADD) {
			if x.Op == token.XOR {
				return nil // width unknown
			}
			return constant.UnaryOp(x.Op, a, 0)
		}
	case *ast.BinaryExpr:
		a, b := fold(x.X), fold(x.Y)
		if a == nil || b == nil {
			return nil
		}
		switch x.Op {
		case token.SHL, token.SHR:
			s, ok := constant.Uint64Val(b)
			if !ok || s > 63 {
				return nil
			}
			return constant.Shift(a, x.Op, uint(s))
		case token.ADD, token.SUB, token.MUL, token.OR, token.AND, token.XOR, token.AND_NOT:
			return constant.BinaryOp(a, x.Op, b)
		case token.QUO:
			if constant.Sign(b) == 0 {
				return nil
			}
			return constant.BinaryOp(a, token.QUO_ASSIGN, b) // integer division
		case token.REM:
			if constant.Sign(b) == 0 {
				return nil
			}
			return constant.BinaryOp(a, token.REM, b)
		}
	}
	return nil
}

// Write prints the dictionary of a tree; entries missing from the baseline (same format, may be nil) are marked novel.
func Write(w io.Writer, ints []uint64, toks [][]byte, baseline io.Reader) {
	baseI := map[uint64]bool{}
	baseT := map[string]bool{}
	baseN := map[string]bool{}
	have := false
	if baseline != nil {
		sc := bufio.NewScanner(baseline)
		for sc.Scan() {
			f := strings.Fields(sc.Text())
			if len(f) == 3 && (f[0] == "n" || f[0] == "N") {
				baseN[f[1]] = true
				continue
			}
			if len(f) != 2 {
				continue
			}
			have = true
			if f[0] == "i" || f[0] == "I" {
				if v, err := strconv.ParseUint(f[1], 10, 64); err == nil {
					baseI[v] = true
				}
			} else {
				baseT[f[1]] = true
			}
		}
	}
	for _, v := range ints {
		tag := "i"
		if have && !baseI[v] {
			tag = "I"
		}
		fmt.Fprintf(w, "%s %d\n", tag, v)
	}
	for _, t := range toks {
		tag := "b"
		h := hex.EncodeToString(t)
		if have && !baseT[h] {
			tag = "B"
		}
		fmt.Fprintf(w, "%s %s\n", tag, h)
	}
	var names []string
	for n := range Names {
		names = append(names, n)
	}
	sort.Strings(names)
	for _, n := range names {
		tag := "n"
		if len(baseN) > 0 && !baseN[n] {
			tag = "N"
		}
		fmt.Fprintf(w, "%s %s %d\n", tag, n, Names[n])
	}
}
