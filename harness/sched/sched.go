// Package sched provides the boundary instrumentation for the message stream: a scripted in-memory net.Conn,
// a logical clock with an event log, and a quiescence detector that names nothing inside the library.
package sched

import (
	"bytes"
	"errors"
	"net"
	"runtime"
	"strings"
	"sync"
	"sync/atomic"
	"time"
)

var clock atomic.Uint64

// Tick advances and returns the process-wide logical clock.
func Tick() uint64 { return clock.Add(1) }
func Now() uint64  { return clock.Load() }

// Event is one boundary event.
type Event struct {
	T    uint64
	Kind string // read | write | close
	A, B int    // read: byte range [A,B) handed to the reader; write: length
	Data []byte // write: the bytes
	Err  string
}

// ErrTimeout is what a Read returns when its deadline passes.
var ErrTimeout error = timeoutError{}

type timeoutError struct{}

func (timeoutError) Error() string   { return "read scripted:0: i/o timeout" }
func (timeoutError) Timeout() bool   { return true }
func (timeoutError) Temporary() bool { return true }

// ErrClosed has the text the reader of a net.Conn sees after a local Close.
var ErrClosed = errors.New("use of closed network connection")

// Conn is a scripted net.Conn. Read serves Data cut at the planned offsets; after the data either blocks until
// Close (connection stays open) or returns FailErr at byte FailAt. Write records every call.
type Conn struct {
	Data    []byte
	Cuts    []int // ascending absolute offsets at which a Read must end (besides len(b) and FailAt)
	FailAt  int   // -1: never fail; else Read returns FailErr once the position reaches FailAt (<= len(Data))
	FailErr error
	// pacing (never verdict-relevant)
	EmptyEvery      int           // > 0: every EmptyEvery-th Read with data pending returns (0, nil) first, as io.Reader allows
	ReadYield       int           // runtime.Gosched() calls before every Read returns
	WriteYield      int           // runtime.Gosched() calls inside every Write
	WriteSleep      time.Duration // sleep inside every k-th Write
	WriteSleepEvery int
	WriteErrAt      int // -1 never; else the n-th Write (0-based) returns WriteErr
	WriteErr        error

	mu           sync.Mutex
	pos          int
	cut          int
	closed       chan struct{}
	once         sync.Once
	events       []Event
	writes       int
	reads        int
	ReadBuf      int // len(b) seen in Read (the reader's buffer size), for evidence
	failed       bool
	readDeadline bool // a read deadline is armed (virtual time: an idle connection reaches any finite deadline)
	timedOut     bool
}

func NewConn(data []byte) *Conn {
	return &Conn{Data: data, FailAt: -1, WriteErrAt: -1, closed: make(chan struct{})}
}

func (c *Conn) log(e Event) {
	e.T = Tick()
	c.events = append(c.events, e)
}

// Events returns a copy of the event log.
func (c *Conn) Events() []Event {
	c.mu.Lock()
	defer c.mu.Unlock()
	return append([]Event(nil), c.events...)
}

func (c *Conn) Pos() int {
	c.mu.Lock()
	defer c.mu.Unlock()
	return c.pos
}

func (c *Conn) Read(b []byte) (int, error) {
	for i := 0; i < c.ReadYield; i++ {
		runtime.Gosched()
	}
	c.mu.Lock()
	select {
	case <-c.closed:
		c.mu.Unlock()
		return 0, ErrClosed
	default:
	}
	if len(b) > c.ReadBuf {
		c.ReadBuf = len(b)
	}
	limit := len(c.Data)
	if c.FailAt >= 0 && c.FailAt < limit {
		limit = c.FailAt
	}
	if c.pos >= limit {
		if c.FailAt >= 0 && !c.failed {
			c.failed = true
			c.log(Event{Kind: "read-error", A: c.pos, B: c.pos, Err: c.FailErr.Error()})
			c.mu.Unlock()
			return 0, c.FailErr
		}
		if c.readDeadline && !c.timedOut {
			// the peer stays quiet from here on, so an armed read deadline is reached (virtual time)
			c.timedOut = true
			c.log(Event{Kind: "read-timeout", A: c.pos, B: c.pos, Err: ErrTimeout.Error()})
			c.mu.Unlock()
			return 0, ErrTimeout
		}
		c.mu.Unlock()
		// nothing more to deliver: block like an idle connection until it is closed locally
		<-c.closed
		return 0, ErrClosed
	}
	c.reads++
	if c.EmptyEvery > 0 && c.reads%c.EmptyEvery == 0 {
		c.log(Event{Kind: "read", A: c.pos, B: c.pos})
		c.mu.Unlock()
		return 0, nil
	}
	end := limit
	for c.cut < len(c.Cuts) && c.Cuts[c.cut] <= c.pos {
		c.cut++
	}
	if c.cut < len(c.Cuts) && c.Cuts[c.cut] < end {
		end = c.Cuts[c.cut]
	}
	if end-c.pos > len(b) {
		end = c.pos + len(b)
	}
	n := copy(b, c.Data[c.pos:end])
	c.log(Event{Kind: "read", A: c.pos, B: c.pos + n})
	c.pos += n
	c.mu.Unlock()
	return n, nil
}

func (c *Conn) Write(b []byte) (int, error) {
	for i := 0; i < c.WriteYield; i++ {
		runtime.Gosched()
	}
	c.mu.Lock()
	k := c.writes
	c.writes++
	if c.WriteErrAt >= 0 && k == c.WriteErrAt {
		c.log(Event{Kind: "write-error", A: len(b), Err: c.WriteErr.Error()})
		c.mu.Unlock()
		return 0, c.WriteErr
	}
	// record the first half, pause, record the second half: a second concurrent writer would interleave
	c.log(Event{Kind: "write", A: len(b), Data: append([]byte(nil), b...)})
	c.mu.Unlock()
	if c.WriteSleepEvery > 0 && k%c.WriteSleepEvery == 0 && c.WriteSleep > 0 {
		time.Sleep(c.WriteSleep)
	}
	return len(b), nil
}

func (c *Conn) Close() error {
	c.once.Do(func() {
		c.mu.Lock()
		c.log(Event{Kind: "close"})
		c.mu.Unlock()
		close(c.closed)
	})
	return nil
}

func (c *Conn) IsClosed() bool {
	select {
	case <-c.closed:
		return true
	default:
		return false
	}
}

type addr struct{}

func (addr) Network() string { return "scripted" }
func (addr) String() string  { return "scripted:0" }

func (c *Conn) LocalAddr() net.Addr           { return addr{} }
func (c *Conn) RemoteAddr() net.Addr          { return addr{} }
func (c *Conn) SetDeadline(t time.Time) error { return c.SetReadDeadline(t) }
func (c *Conn) SetReadDeadline(t time.Time) error {
	c.mu.Lock()
	c.readDeadline = !t.IsZero()
	c.mu.Unlock()
	return nil
}
func (c *Conn) SetWriteDeadline(t time.Time) error { return nil }

// Goroutines summarises a full stack dump: for each goroutine other than the caller its state and the function
// it was created by / is running.
type GState struct {
	State string
	Top   string // innermost function
	All   string // whole stack text
}

func Goroutines() []GState {
	buf := make([]byte, 1<<20)
	for {
		n := runtime.Stack(buf, true)
		if n < len(buf) {
			buf = buf[:n]
			break
		}
		buf = make([]byte, 2*len(buf))
	}
	var out []GState
	blocks := bytes.Split(buf, []byte("\n\n"))
	for i, blk := range blocks {
		if i == 0 {
			continue // the calling goroutine comes first
		}
		s := string(blk)
		if !strings.HasPrefix(s, "goroutine ") {
			continue
		}
		lb, rb := strings.Index(s, "["), strings.Index(s, "]")
		if lb < 0 || rb < lb {
			continue
		}
		st := s[lb+1 : rb]
		if j := strings.Index(st, ","); j >= 0 {
			st = st[:j]
		}
		top := ""
		if lines := strings.Split(s, "\n"); len(lines) > 1 {
			top = lines[1]
			if k := strings.LastIndex(top, "("); k > 0 {
				top = top[:k]
			}
		}
		out = append(out, GState{State: st, Top: top, All: s})
	}
	return out
}

var parked = map[string]bool{"chan receive": true, "chan send": true, "select": true, "select (no cases)": true,
	"sync.Mutex.Lock": true, "sync.RWMutex.Lock": true, "sync.RWMutex.RLock": true, "sync.Cond.Wait": true, "semacquire": true,
	"chan receive (nil chan)": true, "chan send (nil chan)": true, "sync.WaitGroup.Wait": true}

// AllParked reports whether every goroutine except the caller is parked on a channel operation, select or lock
// (ignore lists substrings of stacks that belong to the harness's own waiting helpers, e.g. a watchdog sleeping).
func AllParked(ignore ...string) (bool, string) {
next:
	for _, g := range Goroutines() {
		if parked[g.State] {
			continue
		}
		for _, ig := range ignore {
			if strings.Contains(g.All, ig) {
				continue next
			}
		}
		return false, g.State + " @ " + g.Top
	}
	return true, ""
}

// Quiescent waits until two consecutive samples, between which the logical clock did not advance, find every other
// goroutine parked; it gives up (false) after maxWait of wall-clock time (an inconclusive outcome, never a verdict).
func Quiescent(maxWait time.Duration, ignore ...string) bool {
	deadline := time.Now().Add(maxWait)
	okStreak := 0
	last := Now()
	for time.Now().Before(deadline) {
		runtime.Gosched()
		time.Sleep(300 * time.Microsecond)
		p, _ := AllParked(ignore...)
		now := Now()
		if p && now == last {
			okStreak++
			if okStreak >= 3 {
				return true
			}
		} else {
			okStreak = 0
		}
		last = now
	}
	return false
}
