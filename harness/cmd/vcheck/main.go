// vcheck runs one property check: vcheck --prop C01 --tier quick [--seed n] [--replay path]
package main

import (
	"flag"
	"fmt"
	"os"
	"path/filepath"
	"strconv"
	"testing"

	"vh/dict"
	"vh/fw"
	_ "vh/props"
)

func main() {
	var (
		prop    = flag.String("prop", "", "property id")
		tier    = flag.String("tier", "quick", "quick|thorough")
		seedS   = flag.String("seed", "", "seed (default $VERIF_SEED or 1)")
		worker  = flag.Bool("worker", false, "internal: worker mode")
		start   = flag.Int("start", 0, "internal")
		stride  = flag.Int("stride", 1, "internal")
		n       = flag.Int("n", 0, "internal")
		hash    = flag.String("hash", "", "internal")
		witness = flag.String("witness", "", "internal: evaluate a witness file")
		replay  = flag.String("replay", "", "re-run one recorded case")
		verif   = flag.String("verif", "/verif", "verif directory")
		rundir  = flag.String("rundir", "", "scratch directory")
		workers = flag.Int("workers", 16, "worker processes")
		list    = flag.Bool("list", false, "list property ids")
		mkdict  = flag.String("mkdict", "", "print the value dictionary of the library tree at this path and exit")
		dbase   = flag.String("dictbase", "", "with --mkdict: baseline dictionary; entries it lacks are marked novel")
	)
	flag.Parse()
	if *mkdict != "" {
		ints, toks, err := dict.Extract(*mkdict)
		if err != nil {
			fmt.Fprintln(os.Stderr, "mkdict:", err)
			os.Exit(3)
		}
		var base *os.File
		if *dbase != "" {
			base, _ = os.Open(*dbase)
		}
		if base != nil {
			dict.Write(os.Stdout, ints, toks, base)
		} else {
			dict.Write(os.Stdout, ints, toks, nil)
		}
		return
	}
	if *list {
		for _, id := range fw.IDs() {
			fmt.Println(id)
		}
		return
	}
	p := fw.Lookup(*prop)
	if p == nil {
		fmt.Fprintf(os.Stderr, "unknown property %q\n", *prop)
		os.Exit(3)
	}
	seed := uint64(1)
	s := *seedS
	if s == "" {
		s = os.Getenv("VERIF_SEED")
	}
	if s != "" {
		if v, err := strconv.ParseUint(s, 10, 64); err == nil {
			seed = v
		} else if v, err := strconv.ParseInt(s, 10, 64); err == nil {
			seed = uint64(v)
		}
	}
	if *worker {
		if p.VirtualTime {
			// the worker loop runs as the body of a test function, which gives it the *testing.T that
			// testing/synctest asks for (the "PASS" line the testing package prints at the end is ignored upstream)
			testing.Main(func(pat, str string) (bool, error) { return true, nil },
				[]testing.InternalTest{{Name: "Worker", F: func(t *testing.T) {
					fw.T = t
					fw.RunWorker(p, *tier, seed, *start, *stride, *n, *hash, os.Stdout)
				}}}, nil, nil)
			return
		}
		fw.RunWorker(p, *tier, seed, *start, *stride, *n, *hash, os.Stdout)
		return
	}
	if *witness != "" {
		os.Exit(fw.RunWitnessChild(p, *witness, os.Stdout))
	}
	if *replay != "" {
		if p.VirtualTime {
			testing.Main(func(pat, str string) (bool, error) { return true, nil },
				[]testing.InternalTest{{Name: "Replay", F: func(t *testing.T) {
					fw.T = t
					os.Exit(fw.Replay(p, *replay, os.Stdout))
				}}}, nil, nil)
		}
		os.Exit(fw.Replay(p, *replay, os.Stdout))
	}
	self, err := os.Executable()
	if err != nil {
		self = os.Args[0]
	}
	rd := *rundir
	if rd == "" {
		rd = filepath.Join(*verif, "run", fmt.Sprintf("%s.%d", p.ID, os.Getpid()))
	}
	os.MkdirAll(rd, 0o755)
	defer os.RemoveAll(rd)
	o := &fw.Options{Self: self, VerifDir: *verif, RunDir: rd, Workers: *workers, Out: os.Stdout}
	code := fw.RunCheck(p, *tier, seed, o)
	os.RemoveAll(rd)
	os.Exit(code)
}
