//go:build vt

//go:debug asynctimerchan=0

// The virtual-time build (testing/synctest) needs the Go 1.23 timer channels, which the module's go directive (1.21)
// would otherwise switch off.
package main
