// mechmut enumerates mechanical mutation sites in the library (operator swaps, literal bumps, statement deletions,
// negated conditions, swallowed errors) and applies one of them to a scratch copy. It is a tool for measuring what the
// monitors observe (tools/mechmut.sh), not a check.
//
//	mechmut -repo DIR -list            prints "index<TAB>file:line:col<TAB>operator<TAB>before -> after"
//	mechmut -repo DIR -apply N         rewrites the file of site N in place
package main

import (
	"flag"
	"fmt"
	"go/ast"
	"go/parser"
	"go/token"
	"os"
	"path/filepath"
	"sort"
	"strconv"
	"strings"
)

type site struct {
	file       string
	line, col  int
	start, end int // byte range replaced
	repl       string
	op, desc   string
}

var binSwap = map[token.Token]string{
	token.ADD: "-", token.SUB: "+", token.MUL: "/", token.QUO: "*", token.REM: "*",
	token.LSS: "<=", token.LEQ: "<", token.GTR: ">=", token.GEQ: ">", token.EQL: "!=", token.NEQ: "==",
	token.LAND: "||", token.LOR: "&&", token.AND: "|", token.OR: "&", token.SHL: ">>", token.SHR: "<<", token.AND_NOT: "&",
}
var asgSwap = map[token.Token]string{
	token.ADD_ASSIGN: "-=", token.SUB_ASSIGN: "+=", token.OR_ASSIGN: "&=", token.AND_ASSIGN: "|=", token.SHL_ASSIGN: ">>=", token.SHR_ASSIGN: "<<=",
}

func main() {
	repo := flag.String("repo", "/repo", "library tree")
	list := flag.Bool("list", false, "list sites")
	apply := flag.Int("apply", -1, "apply site N")
	flag.Parse()
	var sites []site
	for _, pkg := range []string{"common", "ofbase", "openflow13", "protocol", "util"} {
		files, _ := filepath.Glob(filepath.Join(*repo, pkg, "*.go"))
		sort.Strings(files)
		for _, f := range files {
			if strings.HasSuffix(f, "_test.go") || strings.Contains(filepath.Base(f), "verif_") {
				continue
			}
			sites = append(sites, scan(f, *repo)...)
		}
	}
	if *list {
		for i, s := range sites {
			fmt.Printf("%d\t%s:%d:%d\t%s\t%s\n", i, s.file, s.line, s.col, s.op, s.desc)
		}
		return
	}
	if *apply < 0 || *apply >= len(sites) {
		fmt.Fprintln(os.Stderr, "no such site")
		os.Exit(2)
	}
	s := sites[*apply]
	p := filepath.Join(*repo, s.file)
	src, err := os.ReadFile(p)
	if err != nil {
		panic(err)
	}
	out := append(append(append([]byte{}, src[:s.start]...), s.repl...), src[s.end:]...)
	if err := os.WriteFile(p, out, 0o644); err != nil {
		panic(err)
	}
	fmt.Printf("%s:%d:%d\t%s\t%s\n", s.file, s.line, s.col, s.op, s.desc)
}

func scan(path, repo string) []site {
	fset := token.NewFileSet()
	src, err := os.ReadFile(path)
	if err != nil {
		panic(err)
	}
	f, err := parser.ParseFile(fset, path, src, 0)
	if err != nil {
		panic(err)
	}
	rel, _ := filepath.Rel(repo, path)
	var out []site
	add := func(pos, end token.Pos, repl, op string) {
		a, b := fset.Position(pos), fset.Position(end)
		before := string(src[a.Offset:b.Offset])
		if len(before) > 60 {
			before = before[:60] + "..."
		}
		r := repl
		if len(r) > 60 {
			r = r[:60] + "..."
		}
		out = append(out, site{file: rel, line: a.Line, col: a.Column, start: a.Offset, end: b.Offset, repl: repl, op: op,
			desc: strings.ReplaceAll(before, "\n", " ") + " -> " + strings.ReplaceAll(r, "\n", " ")})
	}
	text := func(n ast.Node) string {
		return string(src[fset.Position(n.Pos()).Offset:fset.Position(n.End()).Offset])
	}
	ast.Inspect(f, func(n ast.Node) bool {
		switch x := n.(type) {
		case *ast.FuncDecl:
			// String/formatting helpers are outside every property
			if x.Name.Name == "String" || x.Name.Name == "Error" {
				return false
			}
		case *ast.BinaryExpr:
			if r, ok := binSwap[x.Op]; ok {
				if lit, isLit := x.X.(*ast.BasicLit); isLit && lit.Kind == token.STRING {
					break
				}
				if lit, isLit := x.Y.(*ast.BasicLit); isLit && lit.Kind == token.STRING {
					break
				}
				add(x.OpPos, x.OpPos+token.Pos(len(x.Op.String())), r, "binop")
			}
		case *ast.AssignStmt:
			if r, ok := asgSwap[x.Tok]; ok {
				add(x.TokPos, x.TokPos+token.Pos(len(x.Tok.String())), r, "asgop")
			}
			if x.Tok == token.ADD_ASSIGN {
				add(x.TokPos, x.TokPos+2, "=", "asgop")
			}
			if x.Tok == token.ASSIGN {
				add(x.Pos(), x.End(), "", "delstmt")
			}
		case *ast.IncDecStmt:
			if x.Tok == token.INC {
				add(x.TokPos, x.TokPos+2, "--", "incdec")
			} else {
				add(x.TokPos, x.TokPos+2, "++", "incdec")
			}
		case *ast.ExprStmt:
			if _, ok := x.X.(*ast.CallExpr); ok {
				add(x.Pos(), x.End(), "", "delstmt")
			}
		case *ast.IfStmt:
			add(x.Cond.Pos(), x.Cond.End(), "!("+text(x.Cond)+")", "negif")
		case *ast.ForStmt:
			if x.Cond != nil {
				if b, ok := x.Cond.(*ast.BinaryExpr); ok && (b.Op == token.LSS || b.Op == token.LEQ || b.Op == token.GTR || b.Op == token.GEQ) {
					_ = b // relational swap already listed by BinaryExpr
				}
			}
		case *ast.ReturnStmt:
			for _, r := range x.Results {
				if id, ok := r.(*ast.Ident); ok && id.Name == "err" {
					add(id.Pos(), id.End(), "nil", "swallow")
				}
			}
		case *ast.BasicLit:
			if x.Kind == token.INT {
				v, err := strconv.ParseInt(x.Value, 0, 64)
				if err == nil {
					add(x.Pos(), x.End(), strconv.FormatInt(v+1, 10), "lit+1")
					if v > 0 {
						add(x.Pos(), x.End(), strconv.FormatInt(v-1, 10), "lit-1")
					}
				}
			}
		case *ast.BranchStmt:
			if x.Tok == token.BREAK && x.Label == nil {
				add(x.Pos(), x.End(), "continue", "branch")
			} else if x.Tok == token.CONTINUE && x.Label == nil {
				add(x.Pos(), x.End(), "break", "branch")
			}
		}
		return true
	})
	return out
}
