#!/bin/bash
# tools/mutant.sh verify <dir>            confirm a seeded change: compiles, suite passes, demo fails with it and passes without
# tools/mutant.sh run <dir> <Cnn> [tier]  run one check against a scratch worktree of /repo with the change applied
# <dir> holds patch.diff, meta.json and the demonstration. Uses a scratch worktree under /tmp (removed afterwards).
set -u
export GOFLAGS=-mod=mod GOPROXY=off GOSUMDB=off GOTOOLCHAIN=local
V=$(cd "$(dirname "$0")/.." && pwd)
cmd=$1; D=$(cd "$2" && pwd)
W=/tmp/vm-$$
cleanup() { git -C /repo worktree remove --force "$W" >/dev/null 2>&1; rm -rf "$W"; }
trap cleanup EXIT
git -C /repo worktree add --detach "$W" HEAD >/dev/null 2>&1 || { echo "cannot create worktree"; exit 2; }
SUITE="./openflow13/... ./protocol/... ./common/... ./util/..."
case $cmd in
verify)
  place=$(python3 -c "import json,sys;print(json.load(open('$D/meta.json')).get('demo_placement',''))")
  demo=$(ls "$D"/demo_test.go "$D"/demo/main.go 2>/dev/null | head -1)
  [ -z "$place" ] && { echo "no demo_placement"; exit 2; }
  cd "$W"
  git apply "$D/patch.diff" || { echo "RESULT patch does not apply"; exit 1; }
  go build ./... || { echo "RESULT does not compile"; exit 1; }
  if ! go test -vet=off -count=1 $SUITE >/tmp/vm-$$.suite 2>&1; then echo "RESULT suite fails with the change"; tail -20 /tmp/vm-$$.suite; rm -f /tmp/vm-$$.suite; exit 1; fi
  rm -f /tmp/vm-$$.suite
  mkdir -p "$(dirname "$place")"; cp "$demo" "$place"
  pkg=./$(dirname "$place")
  RACE=""; grep -q -- "-race" "$D/meta.json" && RACE="-race"
  TESTS=$(grep -o "^func Test[A-Za-z0-9_]*" "$demo" | sed 's/^func //' | paste -sd'|')
  [ -z "$TESTS" ] && { echo "no test functions in the demonstration"; exit 2; }
  if go test $RACE -vet=off -count=1 -run "^($TESTS)\$" "$pkg" >/tmp/vm-$$.demo 2>&1; then echo "RESULT demo passes WITH the change (not a demonstration)"; rm -f /tmp/vm-$$.demo; exit 1; fi
  grep -m3 -i "violat\|FAIL" /tmp/vm-$$.demo | cut -c1-300
  git checkout -- . ; 
  if ! go test $RACE -vet=off -count=1 -run "^($TESTS)\$" "$pkg" >/tmp/vm-$$.demo 2>&1; then echo "RESULT demo fails WITHOUT the change"; tail -20 /tmp/vm-$$.demo; rm -f /tmp/vm-$$.demo; exit 1; fi
  rm -f /tmp/vm-$$.demo
  echo "RESULT confirmed"
  ;;
run)
  id=$3; tier=${4:-quick}
  (cd "$W" && git apply "$D/patch.diff") || { echo "RESULT patch does not apply"; exit 2; }
  cd "$V" && VERIF_REPO=$W VERIF_EVIDENCE_DIR=/tmp/vm-$$.ev ./check "$id" "$tier" > /tmp/vm-$$.out 2>&1; rc=$?
  grep -m4 "^VIOLATION\|^BROKEN" /tmp/vm-$$.out | cut -c1-260
  grep "^SUMMARY" /tmp/vm-$$.out | cut -c1-200
  rm -rf /tmp/vm-$$.out /tmp/vm-$$.ev
  echo "RESULT exit=$rc"
  ;;
esac
