#!/usr/bin/env python3
"""Rewrites section 12 of DESIGN.md (between the SEEDED markers) from seeded/*/meta.json and seeded/RESULTS.tsv."""
import json, os, glob, re
V = os.path.dirname(os.path.dirname(os.path.abspath(__file__)))
res = {}
p = os.path.join(V, "seeded/RESULTS.tsv")
if os.path.exists(p):
    for l in open(p):
        f = l.rstrip("\n").split("\t")
        if len(f) >= 4:
            res[f[0]] = (f[2], f[3])
rows = []
for d in sorted(glob.glob(os.path.join(V, "seeded/*/"))):
    n = os.path.basename(d.rstrip("/"))
    mp = os.path.join(d, "meta.json")
    if not os.path.exists(mp):
        continue
    m = json.load(open(mp))
    summ = re.sub(r"\s+", " ", m.get("summary", "")).strip()
    if len(summ) > 230:
        summ = summ[:227] + "..."
    needs = re.sub(r"\s+", " ", m.get("needs", "")).strip()
    if len(needs) > 200:
        needs = needs[:197] + "..."
    rc, key = res.get(n, ("?", ""))
    caught = {"1": "caught", "0": "MISSED", "3": "check broken"}.get(rc, "not run")
    extra = m.get("caught_note", "")
    rows.append(f"| {n} | {summ} | {needs} | {caught}{(' - ' + extra) if extra else ''} | `{key}` |")
out = ["| change | what it does | what it needs to manifest | own check (quick tier) | first violation key |", "|---|---|---|---|---|"] + rows
text = "\n".join(out)
dp = os.path.join(V, "DESIGN.md")
s = open(dp).read()
b, e = "<!-- SEEDED-BEGIN -->", "<!-- SEEDED-END -->"
i, j = s.index(b), s.index(e)
s = s[:i + len(b)] + "\n" + text + "\n" + s[j:]
open(dp, "w").write(s)
print(len(rows), "rows")
