#!/bin/bash
# tools/sweep.sh <tier> <seeds...>: runs every check at the given seeds without touching the committed evidence;
# prints one line per (check, seed). Any line not ending in "exit=0 viol=0" needs attention.
tier=$1; shift
cd "$(dirname "$0")/.."
for seed in "$@"; do for id in C01 C02 C03 C04 C05 C06 C09 C12 C13 C15 C16 C17 C18 C19 C11 C14 C10 C08 C07; do
  out=$(VERIF_SEED=$seed VERIF_EVIDENCE_DIR=$PWD/run/sweep-ev ./check $id $tier 2>&1); rc=$?
  echo "$id seed=$seed tier=$tier exit=$rc viol=$(echo "$out" | grep -c '^VIOLATION') inconclusive=$(echo "$out" | grep -c '^INCONCLUSIVE') $(echo "$out" | grep '^SUMMARY' | sed 's/.*wall_s=/wall_s=/')"
  [ $rc -ne 0 ] && echo "$out" | grep "^VIOLATION\|^BROKEN\|^INCONCLUSIVE" | head -5
done; done
rm -rf run/sweep-ev
