#!/bin/bash
# tools/mechone.sh <site-index> <Cnn>...: apply one mechanical mutation site (harness/cmd/mechmut) to a scratch worktree of /repo and run the given quick checks
set -u
export GOFLAGS=-mod=mod GOPROXY=off GOSUMDB=off GOTOOLCHAIN=local
V=$(cd "$(dirname "$0")/.." && pwd); W=/tmp/mo-$$
trap 'git -C /repo worktree remove --force "$W" >/dev/null 2>&1; rm -rf "$W" /tmp/mo-$$.*' EXIT
git -C /repo worktree add --detach "$W" HEAD >/dev/null 2>&1 || exit 2
i=$1; shift
(cd $V/harness && go run ./cmd/mechmut -repo "$W" -apply $i)
for id in "$@"; do
  (cd $V && VERIF_REPO=$W VERIF_EVIDENCE_DIR=/tmp/mo-$$.ev ./check $id quick) > /tmp/mo-$$.out 2>&1; rc=$?
  echo "$id exit=$rc $(grep -m1 '^VIOLATION' /tmp/mo-$$.out | sed 's/.*key="//; s/" count.*//' | cut -c1-140)"
done
