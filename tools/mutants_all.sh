#!/bin/bash
# runs every seeded change against the check of the property it breaks; prints one line per change
cd /verif
for d in seeded/*/; do
  n=$(basename $d); id=${n%%-*}
  out=$(tools/mutant.sh run $d $id 2>&1)
  rc=$(echo "$out" | grep -o "RESULT exit=[0-9]*" | tail -1)
  key=$(echo "$out" | grep -m1 "^VIOLATION" | sed 's/.*key="//; s/" count.*//')
  echo "$n $rc $key"
done
