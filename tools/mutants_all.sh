#!/bin/bash
# runs every seeded change against the check of the property it breaks (or the checks named in meta.json "also_run");
# writes seeded/RESULTS.tsv: name, property, exit code, first violation key
cd "$(dirname "$0")/.."
: > seeded/RESULTS.tsv.new
for d in seeded/*/; do
  n=$(basename $d); id=${n%%-*}
  [ -f $d/patch.diff ] || continue
  out=$(tools/mutant.sh run $d $id 2>&1)
  rc=$(echo "$out" | grep -o "RESULT exit=[0-9]*" | tail -1 | sed 's/RESULT exit=//')
  key=$(echo "$out" | grep -m1 "^VIOLATION" | sed 's/.*key="//; s/" count.*//')
  if [ "$rc" = "0" ]; then # not observable by its own property's check: try the checks named in meta.json "also_run"
    for other in $(python3 -c "import json;print(' '.join(json.load(open('$d/meta.json')).get('also_run',[])))" 2>/dev/null); do
      out=$(tools/mutant.sh run $d $other 2>&1)
      rc2=$(echo "$out" | grep -o "RESULT exit=[0-9]*" | tail -1 | sed 's/RESULT exit=//')
      if [ "$rc2" = "1" ]; then rc=1; key="[$other] $(echo "$out" | grep -m1 "^VIOLATION" | sed 's/.*key="//; s/" count.*//')"; break; fi
    done
  fi
  printf '%s\t%s\t%s\t%s\n' "$n" "$id" "$rc" "$key" | tee -a seeded/RESULTS.tsv.new
done
mv seeded/RESULTS.tsv.new seeded/RESULTS.tsv
