#!/bin/bash
# runs every seeded change against the check of the property it breaks (or the checks named in meta.json "also_run");
# writes seeded/RESULTS.tsv: name, property, exit code, first violation key
cd /verif
: > seeded/RESULTS.tsv.new
for d in seeded/*/; do
  n=$(basename $d); id=${n%%-*}
  [ -f $d/patch.diff ] || continue
  out=$(tools/mutant.sh run $d $id 2>&1)
  rc=$(echo "$out" | grep -o "RESULT exit=[0-9]*" | tail -1 | sed 's/RESULT exit=//')
  key=$(echo "$out" | grep -m1 "^VIOLATION" | sed 's/.*key="//; s/" count.*//')
  printf '%s\t%s\t%s\t%s\n' "$n" "$id" "$rc" "$key" | tee -a seeded/RESULTS.tsv.new
done
mv seeded/RESULTS.tsv.new seeded/RESULTS.tsv
