#!/usr/bin/env python3
"""Regenerates /verif/MANIFEST.json from the table below (kept in one place so the manifest stays valid)."""
import json, subprocess, os

V = os.path.dirname(os.path.dirname(os.path.abspath(__file__)))

def repo_commits(prefix):
    out = subprocess.run(["git", "-C", "/repo", "log", "--format=%H %s"], capture_output=True, text=True).stdout
    return [l.split()[0] for l in out.splitlines() if l.split(" ", 1)[1].startswith(prefix)]

# id -> (built, technique, level text, level note, design ref)
P = {
 "C01": (True,
         'runtime monitor: framing assertions (version, type code, header length = bytes = reported size) on the real encoders over generated controller messages',
         "Tens of thousands (quick) to millions (thorough) of controller-originated messages of every kind, command variant and nesting are built through the public API and encoded by the real code; a monitor asserts version 4, the kind's type code, header length == bytes produced == Len() before and after encoding, also for the message embedded in a bundle-add. Reach comes from shape diversity (delete commands that still carry instructions/buckets, payload absent/empty/raw/typed, near-65535 sizes, reserved port/group values, hardware addresses of other lengths), from top-down builder histories (variable-size actions growing after they were attached) and from multipart requests re-typed after construction. One recipe in 1021 is a saturated message (a list filled to the frame limit, totals of exactly 65528/65535 bytes); constructor defaults and the constants of the tree under test (value dictionary) are part of the value tables; action-list instructions are also switched between write/apply/clear after they were filled.",
         'Holds for the generated shapes only. Trusts the type-code table (OF1.3.5 7.1) and the reference size used to discard recipes over 65535 bytes.',
         "5/C01"),
 "C02": (True,
         'runtime monitor: every encoding is walked by an independent strict TLV walker; derived length fields are checked after every builder call',
         "The real encoders' output for generated messages, standalone elements and builder histories is walked by a strict length-driven walker written from the specifications: every declared length, multiple-of-8 rule, zero padding and type/subtype/class/field code is checked and the walk must end exactly at the end of the message. Group-mods are also built top-down; NAT and conntrack builders are driven through double-set and order-dependent histories. Add / grow-the-child / add histories are replayed on instructions, and the library's re-encodings of parsed (decodable) messages, bundle properties included, are walked as well.",
         'Trusts the walker (harness/spec/ofdec.go, validated self-inverse against the reference encoder). Builder histories are bottom-up.',
         "5/C02"),
 "C03": (True,
         'runtime monitor: differential check of the real encoders against an independent reference encoder and decoder',
         "Each generated recipe is built through the API and its encoding is compared byte for byte with the reference encoder; on a difference the independent decoder names every differing field (so one known difference cannot hide another). Boundary-biased values in every field make a value written into a neighbour's slot visible. Field values include the library's own constructor defaults (learned at start-up) and the integer constants of the tree under test (value dictionary).",
         'Trusts the reference model (SPEC_NOTES.md). Two known findings (OF1.0-shaped port/queue stats request bodies) are listed in KNOWN_FINDINGS.txt and re-executed on every run.',
         "5/C03"),
 "C04": (True,
         'runtime monitor: wire-first differential check - reference encoder writes conformant switch messages, the real parser reads them, extracted fields are compared with the recipe',
         "Conformant switch-originated frames of every kind are produced by the independent encoder and given to the library's parser entry point; exported fields (and unexported ones by reflection) are extracted and compared field by field with the recipe, every differing field being reported separately. Saturated replies (more than a thousand records, matches of thousands of fields) and version-negotiation frames (hello and hello-failed errors with other version bytes) are included. Every other frame is parsed from the worker's one reused receive buffer; failing library calls (errorNoise) precede one case in eight; one case in eight runs with the library's logger at trace level.",
         'Trusts the reference encoder as the description of a conforming switch. Known findings (OF1.0-shaped table/port/queue stats replies, dropped echo bodies, data-less packet-in, priority-tagged frames) are listed with witnesses.',
         "5/C04"),
 "C05": (True,
         "runtime monitor: metamorphic round trip on the library alone (decode(encode(v)) == v, re-encoding byte-equal, decoded extent == bytes) through the library's own dispatchers, alone and with trailing elements, under the totality guard",
         "Values of every two-way kind are built through the API, encoded, decoded by the dispatcher the library itself uses (parser entry point, DecodeAction, DecodeInstr, match/match-field decoders, multipart body decoders), and the decoded value's fields, re-encoding and reported extent are compared with the original; whole messages are also decoded into the value their constructor hands out. Saturated messages of both directions are included.",
         'Two-way kinds only (the library has a decoder case). Representation-only differences are normalised. Decoders run under CPU/allocation budgets.',
         "5/C05"),
 "C06": (True,
         'runtime monitor: size = bytes and child-embedding assertions on values of all 123 encodable types found by scanning the source',
         "Every encodable type in the four packages (the list is recomputed from /repo with go/parser on every run and uncovered types are reported) is reached by generated values; for each value and recursively each child the monitor asserts len(encoding) == Len() and that the parent's bytes are header + the children's own standalone encodings in order + zero padding, and that a value's own byte payload appears complete in its encoding. Top-level messages are also built top-down. Action-list instructions are also switched between write/apply/clear after they were filled; saturated messages are included.",
         "Only parents' fixed header sizes come from the reference model. Well-formed values only.",
         "5/C06"),
 "C07": (True,
         'runtime monitor: totality monitor (panic / CPU-time budget / allocation budget / neither-message-nor-error) around the real parser entry point on structure-aware hostile variants of conformant frames, in sacrificial worker processes',
         "Conformant frames of every switch- and controller-originated kind (written by the independent reference encoder) are turned into tens of millions of hostile variants per run - every truncation, boundary values in every byte and every 16/32-bit word at every offset (so every length/count/type/class field takes 0, 1, maximum and off-by-one values), deletions, duplications, extensions to 65535 bytes, random corruption, second-generation variants of accepted variants, and all tiny inputs - and each is given to the parser entry point under a monitor that reports a panic, more than 4 CPU-seconds, an allocation above 4 MiB + 1024 x input length, or a (nil, nil) result. A wedged call poisons only its worker process, which is restarted behind the case. The sweep also uses the value dictionary of the tree under test: inputs cut or zero-padded to its constants (and to 46/60/64), zero tails, its constants as 8/16/32-bit fields at every offset, its byte-sequence literals spliced in followed by the truncations behind them.",
         'Budgets are generous linear bounds (a slower-than-linear decoder inside them is not detected). Holds for the generated inputs only.',
         "5/C07"),
 "C08": (True,
         'runtime monitor: the same totality monitor around each of the 24 packet-header decoder entry points (and the packet-in path) on hostile variants of well-formed packets',
         "For every decoder entry point separately, well-formed packets written by the reference packet encoder (all payload and extension-header chains, option/source/record counts, up to jumbo size) are mutated as for C07, with the byte and word value tables chosen to hit 8- and 16-bit wrap-around of derived sizes (HEL 255, option length 254/255, 16384 sources, IHL 0..15), plus pure random inputs; each call runs under the panic / CPU / allocation monitor. The sweep also uses the value dictionary of the tree under test (sizes, field values, byte sequences, zero tails), and accepted variants of these classes serve as additional second-generation bases.",
         'Budgets are generous linear bounds. Holds for the generated inputs only.',
         "5/C08"),
 "C09": (True,
         'runtime monitor: differential (library encoder vs RFC reference layout; library decoder on reference bytes vs recipe) and metamorphic (round trip, re-encode, extent) assertions, with every packed bit-field group swept exhaustively against all-zero and all-ones neighbours',
         "Each packed group (VLAN TCI, IPv4 version/IHL, DSCP/ECN, flags/fragment offset, IPv6 version/class/flow label, TCP offset/flags, fragment offset/M, IGMPv3 S/QRV) is enumerated completely on every run with its neighbours at zero and at all-ones, and tens of thousands of generated well-formed headers of every kind, payload chain, extension-header chain and option/source/record count are encoded by the library and compared with the independent RFC-layout encoder, decoded from the reference bytes and compared field by field (payload kinds included, which checks the demultiplexing), re-encoded and sized. Every header is also decoded into a value that held another header of the same kind before, the input buffer is overwritten after decoding before anything is compared, and DHCP/LLDP Write must report the bytes consumed.",
         'Trusts the reference packet encoder. Well-formed headers only. One known finding (priority tags, VLAN id 0) is listed with a witness; TCP/IGMP payloads may be typed or opaque.',
         "5/C09"),
 "C10": (True,
         'runtime monitor: event log at the stream boundary (scripted connection, consumer) on one logical clock, checked offline for exactly-once, integrity, causality, no-loss at logical quiescence, single error publication, buffer conservation and post-delivery immutability; Go race detector',
         "Thousands of real MessageStreams are run over a scripted in-memory connection that cuts the byte stream by plan (every byte alone, inside each length prefix, mid-body, many frames per read), with eager/slow/bursty consumers, yields around parser calls, GOMAXPROCS 1..16 and connection failures after planned bytes. Each delivered message must equal the direct parse of exactly one frame, once, after the read that completed it; with the connection open nothing may be missing when every goroutine is parked and the buffer pool must be whole; on failure exactly the injected error is published once; every delivered message is re-dumped at the end. The race detector watches the whole run. One case in nine runs in virtual time (testing/synctest under the pre-installed go1.26.8): the consumer stays away for a second to a day between deliveries while every timer the library arms fires in logical order; reads that return no bytes and no error are part of the plans; a constructor that never returns is a verdict. One frame in four is a controller-originated message (packet-outs with payloads, flow-mods, group-mods, bundles, requests), as a switch-side or proxy user receives them; one case in eight runs with the library's logger at trace level.",
         'Schedules are those the Go scheduler produced under the pacing plans (evidence reports distinct delivery orders, concurrent parsers, pool generations). Delivery of frames completed before a failure is not demanded. Pool conservation reads unexported state by reflection and is skipped (reported) if the layout changes.',
         "5/C10"),
 "C11": (True,
         'runtime monitor: every Write of the real writer goroutine is recorded by the scripted connection; the written byte stream is re-framed and compared offline with the expected multiset and per-producer order; Go race detector',
         "1..64 producer goroutines submit uniquely identified messages of all sizes to a real MessageStream; the recorded written bytes are re-framed by header length and must be exactly the expected encodings, each once, contiguous, with each producer's sequence numbers increasing; nothing may be missing at logical quiescence. The stream's exported Version field is set, raw pre-encoded frames with other version bytes are submitted, and submitted objects are re-encoded after the run (sending must not change them). One case in eight runs in virtual time (testing/synctest under the pre-installed go1.26.8) with producers that pause for a second to a day between submissions, so the connection sits idle for longer than any timer an implementation might arm. Full-duplex streams with a long inbound burst have an application that takes nothing from Inbound until everything submitted was written: a writer that waits for the inbound side to be consumed is reported as a wedge at quiescence.",
         "Expected bytes are the library's own encoding of a twin. No write errors are injected (the writer exits the process on error by design).",
         "5/C11"),
 "C12": (True,
         'runtime monitors: reflective object-graph walk for slices aliasing the input array, and differential dump/re-encoding before and after overwriting the input',
         "Every parseable frame kind (incl. packet-in payload chains, vendor and bundle nesting) is parsed from a window of a larger array; monitor A reports any slice in the result's object graph whose backing array overlaps the input array; monitor B overwrites the whole array twice and requires the deep dump and the re-encoding to be unchanged. The same monitors run on whatever else the parser accepts: bundle-adds around message kinds the library does not decode and a PRNG-chosen handful of hostile variants of every fourth frame. One frame in three is parsed a second time from the recycled buffer it was received into before; packet-in payloads include real LLDPDUs behind ethertype 0x88cc.",
         'Only what is reachable from the parser entry point. The walk covers what reflection reaches (unexported fields included).',
         "5/C12"),
 "C13": (True,
         'runtime monitor: all histories over {size query, encode} up to length 4 plus longer PRNG histories on fresh builds; outputs compared across histories; children re-encoded after their containers',
         "For each recipe fresh values go through all 30 short histories and PRNG histories of size queries and encodings; every size answer and every encoding must agree across all histories, and children's standalone encodings must be unchanged after their containers were sized/encoded twice. Also: history independence (encode, edit exported fields, encode again = edit, encode), the previous case's value re-encoded after everything the current case did, decoders run on other constructor-made values in between, constructor-default and hand-built (derived fields unset) values. Containers are also sized and encoded repeatedly around pre-encoded raw children (util.Buffer with a stale length field of its own), which must still hold the bytes they were given. DHCP/LLDP encodes are preceded by an encode of the same value into a destination that is too short; values written as struct literals over exported fields (no constructor ran) are part of the corpus.",
         'Compares outputs only (never internal state); values complete before the first query.',
         "5/C13"),
 "C14": (True,
         'runtime monitors: injectivity check over logged (goroutine, draw, id) events from every id route, sequential-vs-concurrent differential over independent work units, Go race detector',
         "2..64 goroutines released together draw millions of ids per run through all 16 routes (contention measured as adjacent ids owned by different goroutines) and all must be pairwise distinct, also across cases in the process; independent build/encode/parse/dump work units must give concurrently exactly what they gave sequentially; the race detector reports any unsynchronised access to library state. Failing library calls (errorNoise) run interleaved with the concurrent pass; fresh read-only values (range objects, field headers) are observed concurrently by all goroutines; units decode into constructor-made values and then build and encode a fresh value of the same kind.",
         'Schedules are those produced in the run. Distinctness, not monotonicity, is demanded.',
         "5/C14"),
 "C15": (True,
         'runtime monitors: differential lookup-vs-reference-table check, header-word bijection sweep (all 2^32 words in the thorough tier), concurrent lookup/overwrite workload under the Go race detector',
         'The real registry is enumerated (through the verif hook) and every name, case variant and mask setting is looked up and compared with an independently transcribed OF1.3.5/OVS width table; the header pack/unpack inverse is executed over millions of words (all 2^32 in the thorough tier); independence of lookup results is exercised by 2..64 goroutines that overwrite every field of their results while the race detector watches and the stored entries are compared with a snapshot.',
         'Trusts the reference width table (SPEC_NOTES.md section D) and the race detector. Names registered but absent from the reference are reported inconclusive. Schedules are those the Go scheduler produced in the run.',
         "5/C15"),
 "C16": (True,
         "runtime monitor: exhaustive sweep of the real range helpers against a closed-form oracle",
         "Every one of the 528 ranges and 65536 offset/width pairs is executed against the real code and compared with a closed-form oracle (mask, word, accessors, both constructors, register match-field bytes); the space is finite and swept completely on every run, so for this property exploration is exhaustive.",
         "Trusts the closed-form oracle (64-bit arithmetic) and, for the unexported encode/decode helpers, the add-only verif hook that re-exports them.",
         "5/C16"),
 "C17": (True,
         'runtime monitor: differential check of the real builder against an independent big-integer placement model over generated windows, values, types and calling conventions',
         "All 528 windows of all 16 registers (exhaustively) and edge/PRNG/beyond-field windows of every other fixed-width field are passed to the real generic builder with in-range and out-of-range values in every supported Go type; the result (error or bytes) is compared with a big-integer model, with the dedicated register constructor, and the caller's arguments are compared before/after. Window arguments are passed in every integer type that can hold them and values in every type the constraint admits (uint, uintptr, named integer and byte-slice types); very wide values (byte counts around multiples of 256, beyond 64 KiB) are rejected or not; the arguments of the last twelve calls are re-read after every call.",
         'Trusts the big-integer model and the reference width table; the one-argument calling convention is only checked for safety (its window is not defined by the property).',
         "5/C17"),
 "C18": (True,
         'runtime monitor: exhaustive enumeration of builder states/transitions against a last-call-per-flag reference model',
         'All 6561 x 16 state transitions and all call sequences of length <= 4 are executed on the real builder and the encoded ct_state match field is compared with the reference model after every call; longer PRNG sequences add depth. The finite families are swept completely on every run. Builders are also made without the constructor (new, literal, embedded by value).',
         'Trusts the 10-line reference model and the OVS bit positions; observes only the encoded field (what a switch would see).',
         "5/C18"),
 "C19": (True,
         'runtime monitor: write/read-back symmetry and alignment invariants asserted on generated operation sequences and all slicing offsets',
         'PRNG sequences of typed writes are replayed through the real encoder and read back through the real decoder while value, order, offset advance and alignment invariants are asserted; every base/inner offset 0..63 with nested sliced decoders is enumerated; the header decoder is run on every input length 0..16.',
         'Trusts encoding/binary as the byte-order oracle.',
         "5/C19"),
}

checks = []
na = []
for pid in sorted(P):
    built, tech, text, note, ref = P[pid]
    if not built:
        na.append({"property_id": pid, "reason": "check not built yet in this round (runtime monitoring applies; see DESIGN.md section 5); will be claimed when its monitor is committed"})
        continue
    checks.append({
        "property_id": pid,
        "quick_cmd": f"./check {pid} quick",
        "thorough_cmd": f"./check {pid} thorough",
        "evidence_file": f"/verif/evidence/{pid}.json",
        "replay_cmd_template": f"./check {pid} quick --replay {{path}}",
        "engine": "vcheck",
        "level_claimed": {"category": "exploration", "text": text, "design_ref": "DESIGN.md section " + ref},
        "level_note": note,
        "technique": tech,
    })

m = {
 "version": 1,
 "setup_cmd": "./check --setup",
 "hooks": {
   "guard": "verif (Go build tag)",
   "enable": "go build -tags verif (the harness module replaces github.com/contiv/libOpenflow with /repo, so the working tree is compiled on every run)",
   "baseline_off_cmd": "cd /repo && GOFLAGS=-mod=mod GOPROXY=off GOSUMDB=off go test -json -vet=off -count=1 -timeout 25m ./...",
   "source_commits": repo_commits("verif hooks"),
   "add_only": True,
 },
 "engines": [
   {"name": "vcheck", "path": "/verif/harness", "serves_properties": [c["property_id"] for c in checks],
    "kind_free_text": "Go harness: seed-determined case lists sharded over worker processes; monitors (differential against an independent reference model, metamorphic, totality budgets, event-log checkers) observe the real library; Go race detector build for the concurrent properties; the C10 and C11 binaries are built with the pre-installed go1.26.8 (tags verif,vt) so that part of their cases run in virtual time (testing/synctest), with a fallback to the default toolchain"},
 ],
 "checks": checks,
 "not_applicable": na,
 "notes": "All checks rebuild the harness against /repo's working tree (VERIF_REPO overrides). Exit 0 held / 1 violation / 3 check broken. KNOWN_FINDINGS.txt lists recorded defects (known:) and repaired ones (fixed:). VERIF_SEED selects the case list. Before a check runs, the built binary scans the tree under test for its integer constants and byte literals (value dictionary; known/dict-baseline.txt is the pinned tree's) - generators draw from it.",
}
json.dump(m, open(os.path.join(V, "MANIFEST.json"), "w"), indent=1)
print("checks:", len(checks), "not_applicable:", len(na))
