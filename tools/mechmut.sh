#!/bin/bash
# tools/mechmut.sh <outfile.tsv> <seed> <count> [operator-regex] [file-regex]
# Mechanical mutation sampling (measurement of what the monitors observe, not a check): draws <count> mutation sites
# of harness/cmd/mechmut from the library by <seed>, and for each one, in a scratch worktree of /repo: applies it,
# discards it if it does not compile or if the repository's own tests fail, otherwise runs the quick checks (cheapest
# first, only those whose workload reaches the mutated package) until one reports a violation.
# Output line: index, site, operator, edit, verdict (nocompile | tests | caught:<Cnn> | survived | broken:<Cnn>).
set -u
export GOFLAGS=-mod=mod GOPROXY=off GOSUMDB=off GOTOOLCHAIN=local
OUT=$1; SEED=$2; COUNT=$3; OPRE=${4:-.}; FILERE=${5:-.}
V=$(cd "$(dirname "$0")/.." && pwd); W=/tmp/mm-$$; EV=/tmp/mm-$$.ev
cleanup() { git -C /repo worktree remove --force "$W" >/dev/null 2>&1; rm -rf "$W" "$EV" /tmp/mm-$$.*; }
trap cleanup EXIT
git -C /repo worktree add --detach "$W" HEAD >/dev/null 2>&1 || { echo "cannot create worktree"; exit 2; }
(cd $V/harness && go build -o /tmp/mm-$$.bin ./cmd/mechmut) || exit 2
/tmp/mm-$$.bin -repo "$W" -list > /tmp/mm-$$.sites
python3 - "$SEED" "$COUNT" "$OPRE" "$FILERE" /tmp/mm-$$.sites > /tmp/mm-$$.pick <<'P'
import sys,random,re
seed,count,opre,filere,path=sys.argv[1:]
rows=[l.rstrip('\n').split('\t') for l in open(path)]
rows=[r for r in rows if re.search(opre,r[2]) and re.search(filere,r[1])]
random.Random(int(seed)).shuffle(rows)
for r in rows[:int(count)]: print(r[0])
P
SUITE="./openflow13/... ./protocol/... ./common/... ./util/... ./ofbase/..."
for i in $(cat /tmp/mm-$$.pick); do
  (cd "$W" && git checkout -q -- .)
  info=$(/tmp/mm-$$.bin -repo "$W" -apply $i)
  pkg=${info%%/*}
  verdict=survived
  if ! (cd "$W" && go build ./... ) >/dev/null 2>&1; then verdict=nocompile
  elif ! (cd "$W" && go vet ./... ) >/dev/null 2>&1 && false; then verdict=vet
  elif ! (cd "$W" && timeout 300 go test -vet=off -count=1 $SUITE) >/dev/null 2>&1; then verdict=tests
  else
    case $pkg in
      util)     ids="C19 C01 C05 C07 C11 C10 C14";;
      protocol) ids="C09 C06 C04 C05 C12 C13 C03 C08 C14";;
      common)   ids="C01 C02 C03 C05 C06 C04 C12 C13 C19 C07 C10 C14";;
      ofbase)   ids="C19 C01 C05 C07";;
      *)        ids="C01 C02 C03 C05 C06 C04 C12 C13 C15 C16 C17 C18 C07 C14";;
    esac
    for id in $ids; do
      (cd $V && VERIF_REPO=$W VERIF_EVIDENCE_DIR=$EV timeout 1200 ./check $id quick) > /tmp/mm-$$.out 2>&1; rc=$?
      if [ $rc = 1 ]; then verdict="caught:$id $(grep -m1 '^VIOLATION' /tmp/mm-$$.out | sed 's/.*key="//; s/" count.*//' | cut -c1-120)"; break; fi
      if [ $rc != 0 ]; then verdict="broken:$id rc=$rc $(grep -m1 'BROKEN\|INCONCLUSIVE' /tmp/mm-$$.out | cut -c1-120)"; break; fi
    done
  fi
  printf '%s\t%s\t%s\n' "$i" "$info" "$verdict" | tee -a "$OUT"
done
