#!/bin/bash
# tools/mutants_new.sh <outdir> <suffix> <ids...>: verify new seeded changes under <outdir>/<id>/<k>, copy the confirmed ones to seeded/<id>-<suffix><k>, run the own-property check
out=$1; suf=$2; shift 2
cd "$(dirname "$0")/.."
for id in "$@"; do for d in $out/$id/*/; do
  [ -f $d/patch.diff ] || continue
  k=$(basename $d); n=$id-$suf$k
  v=$(tools/mutant.sh verify $d 2>&1 | tail -1)
  if [ "$v" != "RESULT confirmed" ]; then echo "$n NOT-CONFIRMED: $v"; continue; fi
  mkdir -p seeded/$n; cp $d/* seeded/$n/
  o=$(tools/mutant.sh run seeded/$n $id 2>&1)
  echo "$n $(echo "$o" | grep -o 'RESULT exit=[0-9]*' | tail -1) $(echo "$o" | grep -m1 '^VIOLATION' | sed 's/.*key="//; s/" count.*//')"
done; done
