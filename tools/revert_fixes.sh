#!/bin/bash
# For every "fixed:" entry of KNOWN_FINDINGS.txt: revert that commit in a scratch worktree and run the property's
# check against it. The check must report a violation (a fixed entry suppresses nothing).
cd "$(dirname "$0")/.."
export GOFLAGS=-mod=mod GOPROXY=off GOSUMDB=off GOTOOLCHAIN=local
grep "^fixed:" KNOWN_FINDINGS.txt | grep -E "${1:-.}" | while read -r _ prop hash rest; do
  id=${prop#property=}
  W=/tmp/vr-$$-$hash
  git -C /repo worktree add --detach "$W" HEAD >/dev/null 2>&1 || { echo "$id $hash worktree-failed"; continue; }
  if ! git -C "$W" revert -n "$hash" >/dev/null 2>&1; then
    echo "$id $hash revert-conflict"
  elif ! (cd "$W" && go build ./... >/dev/null 2>&1); then
    echo "$id $hash reverted-tree-does-not-build"
  else
    out=$(VERIF_REPO=$W VERIF_EVIDENCE_DIR=/tmp/vr-$$.ev ./check "$id" quick 2>&1)
    rc=$?
    key=$(echo "$out" | grep -m1 "^VIOLATION" | sed 's/.*key="//; s/" count.*//')
    echo "$id $hash exit=$rc $key"
  fi
  git -C /repo worktree remove --force "$W" >/dev/null 2>&1; rm -rf "$W" /tmp/vr-$$.ev
done
