#!/bin/bash
# tools/benign.sh <dir-with-patch.diff> [ids...]: applies a behaviour-preserving change to a scratch worktree and runs the
# quick checks against it; every check must stay silent (exit 0).
set -u
D=$(cd "$1" && pwd); shift
ids=${*:-C01 C02 C03 C04 C05 C06 C07 C08 C09 C10 C11 C12 C13 C14 C15 C16 C17 C18 C19}
W=/tmp/vb-$$
trap 'git -C /repo worktree remove --force "$W" >/dev/null 2>&1; rm -rf "$W" /tmp/vb-$$.ev' EXIT
git -C /repo worktree add --detach "$W" HEAD >/dev/null 2>&1 || exit 2
(cd "$W" && git apply "$D/patch.diff") || { echo "patch does not apply"; exit 2; }
cd "$(dirname "$0")/.."
bad=0
for id in $ids; do
  out=$(VERIF_REPO=$W VERIF_EVIDENCE_DIR=/tmp/vb-$$.ev ./check $id quick 2>&1); rc=$?
  if [ $rc -ne 0 ]; then bad=1; echo "ALARM $id exit=$rc"; echo "$out" | grep -m3 "^VIOLATION\|^BROKEN" | cut -c1-300; fi
done
[ $bad -eq 0 ] && echo "silent on all checks"
exit $bad
