#!/usr/bin/env python3
"""Rewrites the 'fixed:' lines of KNOWN_FINDINGS.txt from tools/fixes.tsv and /repo's git log (documentation only)."""
import subprocess, os, sys
V = os.path.dirname(os.path.dirname(os.path.abspath(__file__)))
log = subprocess.run(["git", "-C", "/repo", "log", "--format=%h %s"], capture_output=True, text=True).stdout.splitlines()
fixes = [(l.split(" ", 1)[0], l.split(" ", 1)[1]) for l in log if l.split(" ", 1)[1].startswith("fix:")]
fixes.reverse()
rows = [l.rstrip("\n").split("\t") for l in open(os.path.join(V, "tools/fixes.tsv")) if l.strip()]
out = []
used = set()
for h, subj in fixes:
    m = [r for r in rows if r[0] in subj]
    if len(m) != 1:
        sys.exit(f"fix commit without exactly one row in fixes.tsv: {h} {subj} ({len(m)})")
    used.add(m[0][0])
    out.append(f"fixed: property={m[0][1]} {h} {m[0][2]}")
for r in rows:
    if r[0] not in used:
        sys.exit("row without commit: " + r[0])
p = os.path.join(V, "KNOWN_FINDINGS.txt")
lines = [l for l in open(p).read().split("\n") if not l.startswith("fixed:")]
# insert after the header comment block
i = 0
while i < len(lines) and lines[i].startswith("#"):
    i += 1
rest = [l for l in lines[i:]]
while rest and rest[0] == "":
    rest.pop(0)
text = "\n".join(lines[:i]) + "\n\n" + "\n".join(out) + "\n\n" + "\n".join(rest)
while "\n\n\n" in text:
    text = text.replace("\n\n\n", "\n\n")
open(p, "w").write(text.rstrip("\n") + "\n")
print(len(out), "fixed entries")
