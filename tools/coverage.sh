#!/bin/bash
# tools/coverage.sh [tier]: statement coverage of the library under the checks' workloads (what the workloads reach;
# not a verdict). Builds the harness with -cover for the library packages, runs every check once, prints per-package
# coverage and the library functions below 75 %.
set -u
tier=${1:-quick}
export GOFLAGS=-mod=mod GOPROXY=off GOSUMDB=off GOTOOLCHAIN=local
V=$(cd "$(dirname "$0")/.." && pwd); D=$V/run/cov.$$; mkdir -p $D/data
trap 'rm -rf $D' EXIT
(cd $V/harness && go build -tags verif -cover -coverpkg=vh/cmd/vcheck,github.com/contiv/libOpenflow/... -o $D/vcheck ./cmd/vcheck) || exit 3
for id in C01 C02 C03 C04 C05 C06 C07 C08 C09 C10 C11 C12 C13 C14 C15 C16 C17 C18 C19; do
  GOCOVERDIR=$D/data VERIF_EVIDENCE_DIR=$D/ev $D/vcheck --prop $id --tier $tier --verif $V --rundir $D/run.$id --workers 16 > $D/$id.log 2>&1 || echo "$id exit=$?"
done
cd $V/harness
go tool covdata percent -i=$D/data | grep contiv
go tool covdata textfmt -i=$D/data -o $D/cover.txt
echo "library functions below 75 %:"
go tool cover -func=$D/cover.txt | grep contiv | awk '{gsub("github.com/contiv/libOpenflow/","",$1); if ($3+0 < 75.0) print "  " $1, $2, $3}'
